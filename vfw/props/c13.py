"""C13 -- parametrised types are canonical and form the documented subtype lattice; views alias.
E-PY: CrossHair executes the real metaclass __getitem__ machinery (type caches reset to their
import-time state on every path, so classes are created lazily in the order the path chooses) and
the view / slice accessors with symbolic widths, kinds, creation order, view choices and contents.
Only 'Confirmed over all paths' counts."""
from __future__ import annotations
import itertools
import re

from ..core import Reporter
from .. import chrun
from . import c13_epy as H

PRELUDE = "from vfw.props import c13_epy as H\n"


def functions(tier):
    fs = []  # (name, source, native replay lambda taking parsed positional ints)
    for k1, k2 in itertools.product(range(3), range(3)):
        n = f"c13_canon_{k1}_{k2}"
        fs.append((n, f'''def {n}(n: int, m: int, order: int) -> bool:
    """
    pre: 1 <= n <= 8 and 1 <= m <= 8 and 0 <= order <= 1
    post: _
    """
    return H.canonical_ok({k1}, n, {k2}, m, order)
''', lambda a, k1=k1, k2=k2: (H.canonical_ok(k1, a[0], k2, a[1], a[2]), f"canonical kinds ({k1},{k2}) widths {a[0]},{a[1]} order {a[2]}")))
    for q1, q2, k1 in itertools.product(range(3), range(3), range(3)):
        n = f"c13_qual_{q1}_{q2}_{k1}"
        fs.append((n, f'''def {n}(n: int, k2: int, m: int, order: int) -> bool:
    """
    pre: 1 <= n <= 6 and 0 <= k2 <= 2 and 1 <= m <= 6 and 0 <= order <= 1
    post: _
    """
    return H.qualified_ok({q1}, {k1}, n, {q2}, k2, m, order)
''', lambda a, q1=q1, q2=q2, k1=k1: (H.qualified_ok(q1, k1, a[0], q2, a[1], a[2], a[3]), f"qualified ({q1},{k1},{a[0]}) vs ({q2},{a[1]},{a[2]}) order {a[3]}")))
    for k in range(3):
        n = f"c13_port_{k}"
        fs.append((n, f'''def {n}(n: int, d: int, order: int) -> bool:
    """
    pre: 1 <= n <= 6 and 0 <= d <= 1 and 0 <= order <= 1
    post: _
    """
    return H.port_ok({k}, n, d, order)
''', lambda a, k=k: (H.port_ok(k, a[0], a[1], a[2]), f"port kind {k} width {a[0]} dir {a[1]} order {a[2]}")))
    for k1, k2 in itertools.product(range(3), range(3)):
        n = f"c13_array_{k1}_{k2}"
        fs.append((n, f'''def {n}(n: int, c1: int, m: int, c2: int) -> bool:
    """
    pre: 1 <= n <= 4 and 1 <= c1 <= 4 and 1 <= m <= 4 and 1 <= c2 <= 4
    post: _
    """
    return H.array_ok({k1}, n, c1, {k2}, m, c2)
''', lambda a, k1=k1, k2=k2: (H.array_ok(k1, a[0], a[1], k2, a[2], a[3]), f"array ({k1},{a[0]},{a[1]}) vs ({k2},{a[2]},{a[3]})")))
    W = 2 if tier == "quick" else 3
    top = (1 << W) - 1
    for k, wv in itertools.product(range(3), range(5)):
        n = f"c13_view_{k}_{wv}"
        fs.append((n, f'''def {n}(val: int, wsel: int, hi: int, lo: int, newbits: int, q: int) -> bool:
    """
    pre: 0 <= val <= {top} and 0 <= wsel <= 4 and 0 <= lo <= hi <= {W - 1} and 0 <= newbits <= {top} and 0 <= q <= 1
    post: _
    """
    return H.views_ok({W}, {k}, val, {wv}, wsel, hi, lo, newbits, q)
''', lambda a, k=k, wv=wv, W=W: (H.views_ok(W, k, a[0], wv, a[1], a[2], a[3], a[4], a[5]), f"views kind {k} write-view {wv} read-view {a[1]} slice [{a[2]}:{a[3]}] value {a[0]} new {a[4]} qualifier {a[5]}")))
    return fs


def run(tier: str) -> int:
    rep = Reporter("C13", tier, "other")
    fs = functions(tier)
    replay = {f[0]: f[2] for f in fs}
    res, cpu = chrun.run_functions([(f[0], f[1]) for f in fs], PRELUDE, per_cond=120 if tier == "quick" else 600, chunk=2)
    confirmed = 0
    for fn, (status, msg) in sorted(res.items()):
        rep.stats.queries += 1
        if status == "confirmed":
            confirmed += 1
            rep.stats.unsat += 1
            rep.stats.nontrivial.add(fn)
        elif status == "counterexample":
            rep.stats.sat += 1
            m = re.search(r"calling \w+\(([^)]*)\)", msg)
            vals = [int(x.split("=")[-1]) for x in m.group(1).split(",")] if m else None
            if vals is None:
                rep.inconclusive_query(f"{fn}: {msg[:150]}")
                continue
            try:
                ok, desc = replay[fn](vals)
            except Exception as e:
                ok, desc = False, f"{fn}{tuple(vals)} raised {type(e).__name__}: {e}"
            if ok:
                rep.inconclusive_query(f"{fn}: counterexample {vals} does not reproduce natively")
            else:
                rep.violation(f"{fn.split('_')[1]}|{fn}", f"type lattice / aliasing property violated: {desc}", {"function": fn, "args": vals, "crosshair": msg})
        else:
            rep.stats.unknown += 1
            rep.inconclusive_query(f"{fn}: {msg[:150]}")
    rep.stats.units |= {"cohdl._core._bit_vector._BitVector.__getitem__", "cohdl._core._type_qualifier._TypeQualifier.__getitem__", "cohdl._core._array._MetaArray.__getitem__",
                        "TypeQualifier.__getitem__ / unsigned / signed / bitvector views", "cohdl.utility.span"}
    rep.assumptions += ["widths 1..8 (vectors), 1..6 (qualified), arrays up to 4x4; both orders of first use with caches reset to the import-time snapshot on every path",
                        "views: object width %d, every contents / written slice / written bits / read view / qualifier in {Signal, Variable}" % (2 if tier == "quick" else 3)]
    return rep.finish({
        "explanation": f"{len(fs)} CrossHair conditions over the type-construction and view machinery, {confirmed} 'Confirmed over all paths' (cpu {round(cpu)} s)",
        "evaluations": len(fs), "distinct_nontrivial": len(rep.stats.nontrivial), "conditions": len(fs), "confirmed": confirmed,
        "samples": [{"condition": fs[0][0], "source": fs[0][1]}, {"condition": fs[-1][0], "source": fs[-1][1]}],
    })
