#!/bin/bash
# usage: seed_try.sh <worktree> <n> <seed-id> <prop> [more checks...]
# confirms a seeded change in its scratch worktree (demo passes without / fails with, baseline tests pass),
# stores it under /verif/seeded/<seed-id>/, then runs the checks against the patched tree and reverts.
# Default: the patched tree is the scratch worktree itself (PYTHONPATH / VERIF_REPO / VERIF_OUT point there, so
# several seeds can run in parallel and /verif/evidence is not overwritten).  SEED_IN_REPO=1: apply to /repo instead.
WT=$1; N=$2; SID=$3; shift 3
D=$WT/seed_out/$N
cd $WT && git checkout -q -- . 
PYTHONPATH=$WT /venv/bin/python $D/demo.py >/dev/null 2>&1; A=$?
git apply $D/patch.diff || { echo "PATCH DOES NOT APPLY"; exit 3; }
PYTHONPATH=$WT /venv/bin/python $D/demo.py >/dev/null 2>&1; B=$?
T=$(PYTHONPATH=$WT /venv/bin/python -m pytest -q -p no:cacheprovider --timeout=900 --continue-on-collection-errors 2>&1 | tail -1)
echo "demo clean=$A patched=$B tests: $T"
mkdir -p /verif/seeded/$SID && cp $D/patch.diff $D/demo.py $D/note.txt /verif/seeded/$SID/ 2>/dev/null
if [ -n "$SEED_IN_REPO" ]; then
  git checkout -q -- .
  cd /repo && git apply $D/patch.diff || { echo "PATCH DOES NOT APPLY TO /repo"; exit 3; }
  MODE="git -C /repo apply"
else
  export PYTHONPATH=$WT VERIF_REPO=$WT VERIF_OUT=$(mktemp -d /tmp/seedout.XXXXXX)
  MODE="patched scratch worktree via PYTHONPATH"
fi
cd /verif
RES=""
for id in "$@"; do
  OUT=$(bin/check $id 2>&1); RC=$?
  NV=$(echo "$OUT" | grep -c "^VIOLATION")
  FIRST=$(echo "$OUT" | grep -B1 "^VIOLATION" | head -1 | cut -c1-220)
  echo "  $id: exit=$RC violations=$NV $FIRST"
  RES="$RES $id:exit$RC:viol$NV"
done
if [ -n "$SEED_IN_REPO" ]; then git -C /repo checkout -q -- .; else git -C $WT checkout -q -- .; rm -rf "$VERIF_OUT"; fi
echo "{\"demo_clean_exit\": $A, \"demo_patched_exit\": $B, \"tests\": \"$T\", \"mode\": \"$MODE\", \"checks\": \"$RES\"}" > /verif/seeded/$SID/run.json
