"""C09, full-width part: the integer kernels of the compile-time division / remainder code (cohdl._core._op, Signed,
Unsigned, Integer) translated from their AST into QF_BVFP (vfw/pykernel.py) and compared with the exact operation for ALL
64-bit operands.  This is the part CrossHair cannot decide: it models CPython floats as reals, the code (before the repair)
divided through float64.

For every function listed below the maximal arithmetic expressions over the integer operands are extracted from the current
source, classified by a handful of concrete evaluations (truncating quotient / remainder / floor quotient / modulus) and the
query  exists a, b in range: kernel(a, b) != exact(a, b)  is given to z3.  sat -> the witness is replayed on the real
public API (op.truncdiv(Signed[64](a), Signed[64](b)) ...) and reported only if the real result differs from exact integer
arithmetic; unknown -> inconclusive."""
from __future__ import annotations
import ast
import inspect
import time
import z3

from .. import pykernel as K

W = 64
NAMES = {"a", "b", "lhs", "rhs"}
SAMPLES = [(7, 2), (-7, 2), (7, -2), (-7, -2), (6, 3), (1, 5), (-1, 5)]


def _trunc(a, b):
    q = abs(a) // abs(b)
    return q if (a < 0) == (b < 0) else -q


EXACT = {
    "truncdiv": _trunc,
    "rem": lambda a, b: a - b * _trunc(a, b),
    "floordiv": lambda a, b: a // b,
    "mod": lambda a, b: a % b,
}


def _spec(role, a, b):
    return K.int_ops(a, b)[role]


def targets():
    """(label, function object, operand domain, how to call the public API for a replay)"""
    from cohdl import Signed, Unsigned
    from cohdl._core import _op
    from cohdl._core._integer import Integer
    out = []
    for name in ("truncdiv", "rem", "floordiv", "mod"):
        if hasattr(_op, name):
            out.append((f"op.{name}", getattr(_op, name), "signed", ("op", name)))
    methods = ["_cohdl_truncdiv_", "_cohdl_rtruncdiv_", "_cohdl_rem_", "_cohdl_rrem_", "__floordiv__", "__rfloordiv__", "__mod__", "__rmod__", "__truediv__", "__rtruediv__"]
    for cls, dom in ((Signed, "signed"), (Unsigned, "unsigned"), (Integer, "signed")):
        for m in methods:
            fn = cls.__dict__.get(m)
            if fn is not None:
                out.append((f"{cls.__name__}.{m}", fn, dom, ("method", cls, m)))
    return out


def _helpers(fn):
    raw = inspect.unwrap(fn)
    g = getattr(raw, "__globals__", {})
    return {n: v for n, v in g.items() if inspect.isfunction(v) and (v.__module__ or "").startswith("cohdl") and n.startswith("_int")}


def _classify(node, helpers):
    code = compile(ast.Expression(node), "<kernel>", "eval")
    got = []
    for a, b in SAMPLES:
        env = {"a": a, "b": b, "lhs": a, "rhs": b, **helpers}
        try:
            got.append(eval(code, {"__builtins__": {"int": int, "abs": abs, "float": float}}, env))
        except Exception:
            return None, code
    for role, f in EXACT.items():
        if got == [f(a, b) for a, b in SAMPLES]:
            return role, code
    return None, code


def _api_call(how, a, b):
    """result of the real public operation on 64-bit operands as a python int (or an exception text)"""
    from cohdl import Signed, Unsigned
    from cohdl._core import _op
    from cohdl._core._integer import Integer
    try:
        if how[0] == "op":
            return int(getattr(_op, how[1])(a, b))
        cls, m = how[1], how[2]
        mk = (lambda v: Integer(v)) if cls is Integer else (lambda v: cls[W](v))
        params = list(inspect.signature(inspect.unwrap(cls.__dict__[m])).parameters)
        reflected = len(params) > 1 and params[1] == "lhs"
        r = getattr(mk(b), m)(mk(a)) if reflected else getattr(mk(a), m)(mk(b))
        if r is NotImplemented:
            return "NotImplemented"
        return r.to_int() if hasattr(r, "to_int") else int(r)
    except BaseException as e:
        if isinstance(e, (KeyboardInterrupt, SystemExit)):
            raise
        return f"{type(e).__name__}: {str(e)[:80]}"


def _wrap(v, w, signed):
    v &= (1 << w) - 1
    return v - (1 << w) if signed and v >> (w - 1) else v


def _intended(label):
    """role named by the function itself"""
    n = label.split(".")[-1]
    for key, role in (("truncdiv", "truncdiv"), ("rem", "rem"), ("floordiv", "floordiv"), ("mod", "mod")):
        if key in n:
            return role
    return None


def check_kernel(label, src, node, dom, how, helpers, timeout_ms):
    role, code = _classify(node, helpers)
    want_role = _intended(label)
    if want_role is not None and want_role != role:
        # the kernel may still be the intended operation on the operand domain (unsigned: // is the truncating quotient)
        samples = [(a, b) for a, b in SAMPLES if dom != "unsigned" or (a >= 0 and b > 0)]
        try:
            vals = [eval(code, {"__builtins__": {"int": int, "abs": abs, "float": float}}, {"a": a, "b": b, "lhs": a, "rhs": b, **helpers}) for a, b in samples]
            if vals == [EXACT[want_role](a, b) for a, b in samples]:
                role = want_role
        except Exception:
            pass
    if role is None:
        return {"kernel": src, "unit": label, "status": "unclassified"}
    has_mul = any(isinstance(n, ast.BinOp) and isinstance(n.op, ast.Mult) for n in ast.walk(node))
    N = 2 * W + 8 if has_mul else W + 8
    a, b = z3.BitVec("a", N), z3.BitVec("b", N)
    tr = K.Translator(N, helpers)
    try:
        val = tr.expr(node, {n: ("int", v) for n, v in (("a", a), ("b", b), ("lhs", a), ("rhs", b))})
    except K.Untranslatable as e:
        return {"kernel": src, "unit": label, "status": "untranslatable", "why": str(e)}
    lim = z3.BitVecVal(1 << (W - 1), N)
    s = z3.Solver()
    s.set("timeout", timeout_ms)
    if dom == "unsigned":
        s.add(a >= 0, b > 0, a < lim, b < lim)
    else:
        s.add(a >= -lim, a < lim, b >= -lim, b < lim, b != 0)
    t0 = time.time()
    # reachability twin: the domain is not empty
    s.push()
    twin = str(s.check())
    s.pop()
    s.add(val[1] != _spec(role, a, b))
    r = str(s.check())
    res = {"kernel": src, "unit": label, "role": role, "bits": N, "status": r, "twin": twin, "solver_s": round(time.time() - t0, 2)}
    if r == "sat":
        m = s.model()
        av, bv = m.eval(a, model_completion=True).as_signed_long(), m.eval(b, model_completion=True).as_signed_long()
        env = {"a": av, "b": bv, "lhs": av, "rhs": bv, **helpers}
        got_k = eval(code, {"__builtins__": {"int": int, "abs": abs, "float": float}}, env)
        want = EXACT[role](av, bv)
        api = _api_call(how, av, bv)
        want_api = want if how[0] == "op" or how[1].__name__ == "Integer" else _wrap(want, W, dom == "signed")
        if api == "NotImplemented" and how[0] == "method":
            # reflected methods that only take a plain int on the other side
            try:
                r2 = getattr(how[1][W](bv) if how[1].__name__ != "Integer" else how[1](bv), how[2])(av)
                api = r2.to_int() if hasattr(r2, "to_int") else (int(r2) if r2 is not NotImplemented else "NotImplemented")
            except BaseException as e:
                if isinstance(e, (KeyboardInterrupt, SystemExit)):
                    raise
                api = f"{type(e).__name__}: {str(e)[:80]}"
        res.update(witness={"a": av, "b": bv}, kernel_value=got_k, exact=want, api_value=api, api_expected=want_api,
                   reproduced=(got_k != want), api_reproduced=(isinstance(api, int) and api != want_api))
    return res


def run_kernels(rep, tier):
    """-> summary dict; violations / inconclusive queries are reported through rep"""
    from ..core import parallel_programs
    jobs = all_kernels()
    timeout_ms = 300000 if tier == "quick" else 1500000

    def job(i, rw, wdw):
        r = check_kernel(*jobs[i], timeout_ms=timeout_ms)
        rw.stats.queries += 1
        st = r.get("status")
        if st == "unsat":
            rw.stats.unsat += 1
        elif st == "sat":
            rw.stats.sat += 1
        elif st == "unknown":
            rw.stats.unknown += 1
        rw.stats.solver_s += r.get("solver_s", 0)
        return r

    results = parallel_programs(rep, len(jobs), job)
    counts = {}
    samples = []
    for i in sorted(results):
        r = results[i]
        st = r.get("status", "worker-error")
        counts[st] = counts.get(st, 0) + 1
        key = f"{r.get('unit')}|{r.get('kernel')}"
        if st == "unsat":
            if r.get("twin") != "sat":
                rep.inconclusive_query(f"kernel {key}: vacuous (operand domain empty?)")
                continue
            rep.stats.nontrivial.add("kernel|" + key)
            if len(samples) < 3:
                samples.append({"kernel": key, "role": r["role"], "bits": r["bits"], "verdict": "unsat: equals the exact operation for all 64-bit operands"})
        elif st == "sat":
            w = r["witness"]
            if r["reproduced"]:
                rep.violation(f"kernel|{r['unit']}|{r['role']}",
                              f"{r['unit']}: `{r['kernel']}` gives {r['kernel_value']} for operands ({w['a']}, {w['b']}), exact {r['role']} is {r['exact']}"
                              + (f"; public API returns {r['api_value']}, expected {r['api_expected']}" if r.get("api_reproduced") else f"; (public API: {r['api_value']})"), r)
            else:
                rep.inconclusive_query(f"kernel {key}: witness {w} does not reproduce on the real code (encoding?)")
        elif st in ("unclassified", "untranslatable"):
            counts[st] = counts.get(st, 0)
            rep.stats.extra.setdefault("kernels_skipped", []).append(f"{key}: {st} {r.get('why', '')}")
        else:
            rep.inconclusive_query(f"kernel {key}: {st} after {r.get('solver_s')} s")
    return {"kernels": len(jobs), "results": counts, "operand_bits": W, "samples": samples, "skipped": rep.stats.extra.get("kernels_skipped", [])}


def all_kernels():
    jobs = []
    for label, fn, dom, how in targets():
        helpers = _helpers(fn)
        try:
            ks = K.kernels_of(inspect.unwrap(fn), NAMES, helper_names=set(helpers))
        except (OSError, TypeError):
            continue
        for src, node, line in ks:
            jobs.append((label, src, node, dom, how, helpers))
    return jobs
