"""C02 -- operators and expressions compute their documented value at run time.
E-VHDL: expr family x all operand values (one z3 query per cell and context)."""
from __future__ import annotations
import itertools
import random

from ..core import Reporter, Workdir, EXIT_HARNESS
from ..cells import Cell, run_cells, ty_width
from .. import spec as SP
from ..spec import Ty, U, S, BV, BIT, BOOL, INTT, PyP


def vec_types(widths):
    for w in widths:
        yield U(w)
        yield S(w)
        yield BV(w)


def int_consts(t: Ty):
    """integer literals representable in the vector operand's type (outside: everything else)"""
    if t.kind == "U":
        return sorted({0, 1, t.hi(), max(0, t.hi() - 1)})
    return sorted(k for k in {t.lo(), -1, 0, 1, t.hi()} if t.lo() <= k <= t.hi())


def binop_cells(widths, rng=None, with_ints=True):
    cells = []
    tys = list(vec_types(widths)) + [BIT]
    for name, (tmpl, trule, vrule, nz) in SP.BINOPS.items():
        for ta, tb in itertools.product(tys, tys):
            if name in ("shl", "shr"):
                continue
            tr = trule(ta, tb)
            if tr is None:
                continue
            cells.append(_bin_cell(name, tmpl, vrule, nz, ta, tb, tr))
        if not with_ints:
            continue
        # vector (op) int literal, both orders
        for tv in tys:
            if tv.kind not in ("U", "S"):
                continue
            for k in int_consts(tv):
                for order in ("vi", "iv"):
                    ta, tb = (tv, INTT) if order == "vi" else (INTT, tv)
                    if name in ("shl", "shr", "concat"):
                        continue
                    tr = trule(ta, tb)
                    if tr is None:
                        continue
                    if nz and ((order == "vi" and k == 0)):
                        continue
                    cells.append(_bin_int_cell(name, tmpl, vrule, nz, tv, k, order, tr))
    # typed constant (op) signal and signal (op) typed constant: the reflected / direct replacement paths with a
    # compile-time operand of a vector or Bit type (int literals are above, constant (op) constant is C09)
    from ..cells import literal_src
    cw = [w for w in widths if w >= 2][:2] or [max(widths)]
    ctys = [Ty(k, w) for k in ("BV", "U", "S") for w in cw] + [BIT]
    for name, (tmpl, trule, vrule, nz) in SP.BINOPS.items():
        if name in ("shl", "shr"):
            continue
        for tc, tv in itertools.product(ctys, ctys):
            for order in ("cv", "vc"):
                ta, tb = (tc, tv) if order == "cv" else (tv, tc)
                tr = trule(ta, tb)
                if tr is None:
                    continue
                wc = 1 if tc.kind == "Bit" else tc.w
                for bits in sorted({0, 1, (1 << wc) - 1, 1 << (wc - 1)}):
                    cm = PyP.wrap(bits, wc, True) if tc.signed else bits
                    if nz and order == "vc" and cm == 0:
                        continue
                    lit = literal_src(tc, bits)
                    if order == "cv":
                        expr = tmpl.format(a=lit, b="{a}")
                        spec = lambda P, a, cm=cm, ta=ta, tb=tb, tr=tr, vrule=vrule: vrule(P, P.const(cm), a, ta, tb, tr)
                        assume = (lambda P, a: a != 0) if nz else None
                    else:
                        expr = tmpl.format(a="{a}", b=lit)
                        spec = lambda P, a, cm=cm, ta=ta, tb=tb, tr=tr, vrule=vrule: vrule(P, a, P.const(cm), ta, tb, tr)
                        assume = None
                    cells.append(Cell(key=f"{name}|{ta}|{tb}|const{bits}|{order}", ins=[("a", tv)], out=_out_ty(tr), body="{o} <<= " + expr, spec=spec, assume=assume))
    # typed constant shifted by a run-time amount (the reflected replacement path of << and >>)
    for name in ("shl", "shr"):
        tmpl, trule, vrule, nz = SP.BINOPS[name]
        for tc in [t for t in ctys if t.kind in ("U", "S")]:
            for sw in (1, 2):
                tr = trule(tc, U(sw))
                if tr is None:
                    continue
                for bits in sorted({1, (1 << tc.w) - 1, 1 << (tc.w - 1), (1 << (tc.w - 1)) | 1}):
                    cm = PyP.wrap(bits, tc.w, True) if tc.signed else bits
                    cells.append(Cell(key=f"{name}|{tc}|U{sw}|const{bits}|cv", ins=[("a", U(sw))], out=_out_ty(tr), body="{o} <<= " + tmpl.format(a=literal_src(tc, bits), b="{a}"),
                                      spec=lambda P, a, cm=cm, tc=tc, sw=sw, tr=tr, vrule=vrule: vrule(P, P.const(cm), a, tc, U(sw), tr)))
    # shifts: constant amounts 0..w+1 and run-time Unsigned[1..2]
    for name in ("shl", "shr"):
        tmpl, trule, vrule, nz = SP.BINOPS[name]
        for tv in tys:
            if tv.kind not in ("U", "S"):
                continue
            for k in range(0, tv.w + 2):
                cells.append(_bin_int_cell(name, tmpl, vrule, False, tv, k, "vi", trule(tv, INTT)))
            for sw in (1, 2):
                cells.append(_bin_cell(name, tmpl, vrule, False, tv, U(sw), trule(tv, U(sw))))
    return cells


def _out_ty(tr):
    return BIT if tr.kind == "bool" else tr


def _bin_cell(name, tmpl, vrule, nz, ta, tb, tr):
    expr = tmpl.format(a="{a}", b="{b}")
    return Cell(
        key=f"{name}|{ta}|{tb}",
        ins=[("a", ta), ("b", tb)],
        out=_out_ty(tr),
        body="{o} <<= " + expr,
        spec=lambda P, a, b, ta=ta, tb=tb, tr=tr: vrule(P, a, b, ta, tb, tr),
        assume=(lambda P, a, b: b != 0) if nz else None,
    )


def _bin_int_cell(name, tmpl, vrule, nz, tv, k, order, tr):
    if order == "vi":
        expr = tmpl.format(a="{a}", b=f"({k})")
        spec = lambda P, a, tv=tv, tr=tr, k=k: vrule(P, a, P.const(k) if name not in ("shl", "shr") else k, tv, INTT, tr)
        assume = None
    else:
        expr = tmpl.format(a=f"({k})", b="{a}")
        spec = lambda P, a, tv=tv, tr=tr, k=k: vrule(P, P.const(k), a, INTT, tv, tr)
        assume = (lambda P, a: a != 0) if nz else None
    return Cell(key=f"{name}|{tv}|int{k}|{order}", ins=[("a", tv)], out=_out_ty(tr), body="{o} <<= " + expr, spec=spec, assume=assume)


def unop_cells(widths):
    cells = []
    for name, (tmpl, trule, vrule) in SP.UNOPS.items():
        for ta in list(vec_types(widths)) + [BIT]:
            tr = trule(ta)
            if tr is None:
                continue
            if name in ("bool", "not") and ta.kind not in ("Bit",):
                # truthiness of vectors: statement silent -> outside the claim
                continue
            cells.append(Cell(key=f"{name}|{ta}", ins=[("a", ta)], out=_out_ty(tr), body="{o} <<= " + tmpl.format(a="{a}"),
                              spec=lambda P, a, ta=ta, tr=tr, vrule=vrule: vrule(P, a, ta, tr)))
    return cells


def access_cells(widths):
    """constant index / slice at every position, run-time index, resize, mixed forms"""
    cells = []
    for tv in vec_types(widths):
        w = tv.w
        for i in range(w):
            cells.append(Cell(key=f"index|{tv}|{i}", ins=[("a", tv)], out=BIT, body=f"{{o}} <<= {{a}}[{i}]",
                              spec=lambda P, a, tv=tv, i=i: P.band(P.shr(SP._bits(P, a, tv), i), P.const(1))))
        for hi in range(w):
            for lo in range(hi + 1):
                sw = hi - lo + 1
                cells.append(Cell(key=f"slice|{tv}|{hi}:{lo}", ins=[("a", tv)], out=BV(sw), body=f"{{o}} <<= {{a}}[{hi}:{lo}]",
                                  spec=lambda P, a, tv=tv, lo=lo, sw=sw: P.wrap(P.shr(SP._bits(P, a, tv), lo), sw, False)))
        # run-time index by Unsigned[k] covering the width exactly (no out-of-range index)
        k = (w - 1).bit_length() if w > 1 else 1
        if (1 << k) == w or w == 1:
            cells.append(Cell(key=f"rtindex|{tv}", ins=[("a", tv), ("i", U(k))], out=BIT, body="{o} <<= {a}[{i}]",
                              spec=lambda P, a, i, tv=tv: P.band(P.shr(SP._bits(P, a, tv), i), P.const(1)),
                              assume=(lambda P, a, i, w=w: i < w)))
        # accessor methods: msb / left take the top bits, lsb / right the low bits; count = number of bits, rest = number of bits left out
        for meth, top in (("msb", True), ("left", True), ("lsb", False), ("right", False)):
            cells.append(Cell(key=f"{meth}|{tv}|single", ins=[("a", tv)], out=BIT, body=f"{{o}} <<= {{a}}.{meth}()",
                              spec=lambda P, a, tv=tv, pos=(w - 1 if top else 0): P.band(P.shr(SP._bits(P, a, tv), pos), P.const(1))))
            for k in range(1, w):
                for form, cnt in ((f"{k}", k), (f"count={k}", k), (f"rest={k}", w - k), (f"{k}, {w - k}", k)):
                    lo = w - cnt if top else 0
                    cells.append(Cell(key=f"{meth}|{tv}|{form}", ins=[("a", tv)], out=BV(cnt), body=f"{{o}} <<= {{a}}.{meth}({form})",
                                      spec=lambda P, a, tv=tv, lo=lo, cnt=cnt: P.wrap(P.shr(SP._bits(P, a, tv), lo), cnt, False)))
        if tv.kind in ("U", "S"):
            for nw in range(w, w + 3):
                cells.append(Cell(key=f"resize|{tv}|{nw}", ins=[("a", tv)], out=Ty(tv.kind, nw), body=f"{{o}} <<= {{a}}.resize({nw})",
                                  spec=lambda P, a: a))
            cells.append(Cell(key=f"resize_zeros|{tv}", ins=[("a", tv)], out=Ty(tv.kind, w + 2), body=f"{{o}} <<= {{a}}.resize(zeros=2)",
                              spec=lambda P, a, tv=tv, w=w: P.wrap(a * 4, w + 2, tv.signed)))
    return cells


def logic_cells(widths):
    """and/or/not on conditions, chained comparisons, if-expressions, select_with, any/all"""
    cells = []
    w = max(widths)
    for tv in (U(w), S(w)):
        cells.append(Cell(key=f"chain|{tv}", ins=[("a", tv), ("b", tv), ("c", tv)], out=BIT, body="{o} <<= ({a} < {b} <= {c})",
                          spec=lambda P, a, b, c: P.land(a < b, b <= c)))
        cells.append(Cell(key=f"chain3|{tv}", ins=[("a", tv), ("b", tv), ("c", tv)], out=BIT, body="{o} <<= ({a} == {b} != {c})",
                          spec=lambda P, a, b, c: P.land(a == b, b != c)))
        cells.append(Cell(key=f"ifexpr|{tv}", ins=[("a", tv), ("b", tv), ("c", BIT)], out=tv, body="{o} <<= {a} if {c} else {b}",
                          spec=lambda P, a, b, c: P.ite(c != 0, a, b)))
        cells.append(Cell(key=f"ifexpr_nested|{tv}", ins=[("a", tv), ("b", tv), ("c", BIT), ("d", BIT)], out=tv,
                          body="{o} <<= {a} if {c} else ({b} if {d} else ({a} + {b}))",
                          spec=lambda P, a, b, c, d, tv=tv: P.ite(c != 0, a, P.ite(d != 0, b, P.wrap(a + b, tv.w, tv.signed)))))
        cells.append(Cell(key=f"ifexpr_cmp|{tv}", ins=[("a", tv), ("b", tv)], out=tv, body="{o} <<= {a} if {a} > {b} else {b}",
                          spec=lambda P, a, b: P.ite(a > b, a, b)))
    cells.append(Cell(key="and_or_not", ins=[("a", BIT), ("b", BIT), ("c", BIT)], out=BIT, body="{o} <<= ({a} and {b}) or (not {c})",
                      spec=lambda P, a, b, c: P.lor(P.land(a != 0, b != 0), c == 0)))
    cells.append(Cell(key="and_cmp", ins=[("a", U(w)), ("b", U(w)), ("c", BIT)], out=BIT, body="{o} <<= ({a} == {b}) and {c}",
                      spec=lambda P, a, b, c: P.land(a == b, c != 0)))
    cells.append(Cell(key="or_cmp", ins=[("a", U(w)), ("b", U(w)), ("c", BIT)], out=BIT, body="{o} <<= ({a} > {b}) or not ({c} or {a} == 1)",
                      spec=lambda P, a, b, c: P.lor(a > b, P.lnot(P.lor(c != 0, a == 1)))))
    cells.append(Cell(key="any", ins=[("a", BIT), ("b", BIT), ("c", BIT)], out=BIT, body="{o} <<= any([{a}, {b}, {c}])",
                      spec=lambda P, a, b, c: P.lor(P.lor(a != 0, b != 0), c != 0)))
    cells.append(Cell(key="all", ins=[("a", BIT), ("b", BIT), ("c", BIT)], out=BIT, body="{o} <<= all([{a}, {b}, {c}])",
                      spec=lambda P, a, b, c: P.land(P.land(a != 0, b != 0), c != 0)))
    for consts, tag in ((("False", "True"), "FT"), (("True", "False"), "TF"), (("True", "True"), "TT"), (("0", "Bit(1)"), "0B")):
        c1, c2 = consts
        v1, v2 = (c1 in ("True", "Bit(1)")), (c2 in ("True", "Bit(1)"))
        cells.append(Cell(key=f"all_mixed|{tag}", ins=[("a", BIT), ("u", U(2))], out=BIT, body=f"{{o}} <<= all([{{a}}, {c1}, {{u}}, {c2}])",
                          spec=lambda P, a, u, v1=v1, v2=v2: P.land(P.land(a != 0, u != 0), v1 and v2)))
        cells.append(Cell(key=f"any_mixed|{tag}", ins=[("a", BIT), ("u", U(2))], out=BIT, body=f"{{o}} <<= any([{{a}}, {c1}, {{u}}, {c2}])",
                          spec=lambda P, a, u, v1=v1, v2=v2: P.lor(P.lor(a != 0, u != 0), v1 or v2)))
    cells.append(Cell(key="any_gen", ins=[("a", BV(3))], out=BIT, body="{o} <<= any([bit for bit in {a}])",
                      spec=lambda P, a: a != 0))
    cells.append(Cell(key="all_gen", ins=[("a", BV(3))], out=BIT, body="{o} <<= all([bit for bit in {a}])",
                      spec=lambda P, a: a == 7))
    # merges of operands of different (compatible) types: the narrower Unsigned keeps its number inside a wider Signed
    cells.append(Cell(key="ifexpr_mixed|U->S", ins=[("a", U(w - 1)), ("b", S(w + 1)), ("c", BIT)], out=S(w + 1), body="{o} <<= {a} if {c} else {b}",
                      spec=lambda P, a, b, c: P.ite(c != 0, a, b), range_check=True))
    cells.append(Cell(key="ifexpr_mixed|S<-U", ins=[("a", U(w - 1)), ("b", S(w + 1)), ("c", BIT)], out=S(w + 1), body="{o} <<= {b} if {c} else {a}",
                      spec=lambda P, a, b, c: P.ite(c != 0, b, a), range_check=True))
    cells.append(Cell(key="ifexpr_mixed|U->wider U", ins=[("a", U(w - 1)), ("b", U(w + 1)), ("c", BIT)], out=U(w + 1), body="{o} <<= {a} if {c} else {b}",
                      spec=lambda P, a, b, c: P.ite(c != 0, a, b), range_check=True))
    cells.append(Cell(key="select_mixed|U,S", ins=[("s", BV(2)), ("a", U(w - 1)), ("b", S(w + 1))], out=S(w + 1),
                      body='{o} <<= std.select({s}, {{"00": {a}, "01": {b}}}, default={b})', spec=lambda P, s, a, b: P.ite(s == 0, a, b), range_check=True))
    # slices of slices of slices address the bits of the root object
    cells.append(Cell(key="slice3|BV", ins=[("a", BV(8))], out=BV(2), body="{o} <<= {a}[7:2][4:1][2:1]", spec=lambda P, a: P.wrap(P.shr(a, 4), 2, False)))
    cells.append(Cell(key="slice3|U.msb.lsb", ins=[("a", U(8))], out=BV(2), body="{o} <<= {a}[7:1].msb(4).lsb(2)", spec=lambda P, a: P.wrap(P.shr(a, 4), 2, False)))
    cells.append(Cell(key="slice3|index", ins=[("a", S(8))], out=BIT, body="{o} <<= {a}[7:2][5:2][1]", spec=lambda P, a: P.wrap(P.shr(P.wrap(a, 8, False), 5), 1, False)))
    # explicit bool() casts of conditions (chains of casts must end at a temporary that is still assigned)
    cells.append(Cell(key="boolcast|ifexpr", ins=[("a", U(w)), ("b", U(w))], out=U(w), body="{o} <<= {a} if bool({a} == {b}) else {b}",
                      spec=lambda P, a, b: P.ite(a == b, a, b)))
    cells.append(Cell(key="boolcast|twice", ins=[("a", U(w)), ("b", U(w)), ("c", BIT)], out=BIT, body="{o} <<= bool(bool({a} < {b}) and bool({c}))",
                      spec=lambda P, a, b, c: P.land(a < b, c != 0)))
    cells.append(Cell(key="boolcast|and", ins=[("a", U(w)), ("b", U(w)), ("c", BIT)], out=BIT, body="{o} <<= bool({a} == {b}) and bool({c})",
                      spec=lambda P, a, b, c: P.land(a == b, c != 0)))
    cells.append(Cell(key="boolcast|not", ins=[("a", S(w)), ("b", S(w))], out=BIT, body="{o} <<= not bool({a} >= {b})",
                      spec=lambda P, a, b: P.lnot(a >= b)))
    cells.append(Cell(key="boolcast|vector", ins=[("a", BV(w)), ("c", BIT)], out=BIT, body="{o} <<= {c} if bool({a}) else (not {c})",
                      spec=lambda P, a, c: P.ite(a != 0, c != 0, c == 0)))
    # select_with
    cells.append(Cell(key="select_with|bv2", ins=[("s", BV(2)), ("a", U(w)), ("b", U(w)), ("c", U(w))], out=U(w),
                      body='{o} <<= cohdl.select_with({s}, {{"00": {a}, "01": {b}, "10": {c}}}, default={a} + {b})',
                      spec=lambda P, s, a, b, c, w=w: P.ite(s == 0, a, P.ite(s == 1, b, P.ite(s == 2, c, P.wrap(a + b, w, False))))))
    cells.append(Cell(key="select_with|u2", ins=[("s", U(2)), ("a", S(w)), ("b", S(w))], out=S(w),
                      body='{o} <<= cohdl.select_with({s}, {{0: {a}, 3: {b}}}, default=Null)',
                      spec=lambda P, s, a, b: P.ite(s == 0, a, P.ite(s == 3, b, 0))))
    cells.append(Cell(key="select_with|bit", ins=[("s", BIT), ("a", BV(w)), ("b", BV(w))], out=BV(w),
                      body="{o} <<= cohdl.select_with({s}, {{Bit(0): {a}}}, default={b})",
                      spec=lambda P, s, a, b: P.ite(s == 0, a, b)))
    return cells


def tree_cells(widths, rng: random.Random, n):
    """depth-2 trees: (a op1 b) op2 c over U/S of mixed widths (seeded)"""
    ops = ["add", "sub", "mul", "and", "or", "xor", "truncdiv", "mod", "rem", "concat"]
    cells = []
    tries = 0
    while len(cells) < n and tries < n * 30:
        tries += 1
        kind = rng.choice(["U", "S"])
        ta, tb, tc = (Ty(kind, rng.choice(widths)) for _ in range(3))
        o1, o2 = rng.choice(ops), rng.choice(ops)
        t1, r1, v1, nz1 = SP.BINOPS[o1]
        t2, r2, v2, nz2 = SP.BINOPS[o2]
        tm = r1(ta, tb)
        if tm is None:
            continue
        left = rng.random() < 0.5
        tr = r2(tm, tc) if left else r2(tc, tm)
        if tr is None or tr.w > 10:
            continue
        inner = t1.format(a="{a}", b="{b}")
        expr = t2.format(a=inner, b="{c}") if left else t2.format(a="{c}", b=inner)

        def spec(P, a, b, c, ta=ta, tb=tb, tc=tc, tm=tm, tr=tr, v1=v1, v2=v2, left=left):
            m = v1(P, a, b, ta, tb, tm)
            return v2(P, m, c, tm, tc, tr) if left else v2(P, c, m, tc, tm, tr)

        def assume(P, a, b, c, ta=ta, tb=tb, tm=tm, v1=v1, nz1=nz1, nz2=nz2, left=left):
            cond = True
            if nz1:
                cond = P.land(cond, b != 0)
            if nz2:
                d = c if left else v1(P, P.ite(b != 0, a, a), P.ite(b != 0, b, 1) if nz1 else b, ta, tb, tm)
                cond = P.land(cond, d != 0)
            return cond

        key = f"tree|{o1}|{o2}|{ta}|{tb}|{tc}|{'L' if left else 'R'}"
        if any(c.key == key for c in cells):
            continue
        cells.append(Cell(key=key, ins=[("a", ta), ("b", tb), ("c", tc)], out=_out_ty(tr), body="{o} <<= " + expr, spec=spec,
                          assume=assume if (nz1 or nz2) else None))
    return cells


def all_cells(tier, seed):
    widths = [1, 2, 3] if tier == "quick" else [1, 2, 3, 4, 5]
    rng = random.Random(seed)
    cells = binop_cells(widths) + unop_cells(widths) + access_cells(widths) + logic_cells(widths)
    cells += tree_cells(widths[:4], rng, 40 if tier == "quick" else 600)
    return cells


def run(tier: str) -> int:
    rep = Reporter("C02", tier, "translation_validation")
    wd = Workdir()
    try:
        cells = all_cells(tier, rep.seed)
        counts = {"ok": 0, "mismatch": 0, "rejected": 0, "illegal": 0, "inconclusive": 0, "error": 0, "vacuous": 0}
        rejected = []
        batch = 40
        for ctx in ("concurrent", "clocked"):
            for k in range(0, len(cells), batch):
                grp = cells[k:k + batch]
                for res in run_cells(rep, wd, grp, ctx):
                    counts[res.status] += 1
                    key = f"{ctx}|{res.cell.key}"
                    if res.status == "ok":
                        rep.stats.nontrivial.add(key)
                        if len(rep.stats.samples) < 5 and res.cell.key.startswith(("sub|", "tree|", "shr|")):
                            rep.stats.sample({"cell": key, "body": res.cell.body, "verdict": "unsat (output == spec for all operand values)"})
                    elif res.status == "mismatch":
                        rep.violation(key, f"emitted logic differs from documented value: {res.detail['inputs_math']} -> got bits {res.detail['got_bits']}, want {res.detail['want_bits']}", res.detail)
                    elif res.status == "rejected" and "|const" in res.cell.key and res.cell.key.endswith(("|cv", "|vc")):
                        # a typed compile-time constant as one operand: forms cohdl does not accept (the primitive's own
                        # operator raises instead of deferring to the signal's reflected operator) yield no value to compare
                        counts["const-operand-rejected"] = counts.get("const-operand-rejected", 0) + 1
                        counts["rejected"] -= 1
                    elif res.status == "rejected":
                        rejected.append((key, res.detail))
                        rep.violation(key + "|rejected", f"well-typed expression rejected: {res.detail}", {"detail": res.detail, "body": res.cell.body})
                    elif res.status == "illegal":
                        rep.violation(key + "|illegal-vhdl", f"emitted VHDL is illegal: {res.detail['msg']}", res.detail)
                    elif res.status == "vacuous":
                        pass
                    elif res.status == "inconclusive":
                        rep.inconclusive_query(key + ": " + str(res.detail))
                    else:
                        rep.inconclusive_query(key + ": " + str(res.detail))
        rep.assumptions += [
            "divisor != 0 for truncdiv/mod/rem (division by zero is a simulation error in VHDL)",
            "integer literal operands are representable in the vector operand's type",
            "two-valued logic (no metavalues); VHDL subset semantics of DESIGN Appendix A",
            "run-time index covers exactly the indexed width (no out-of-range index)",
        ]
        return rep.finish({
            "programs": rep.stats.programs,
            "disagreements_checked": counts["mismatch"] + counts["rejected"] + counts["illegal"],
            "cells": len(cells) * 2,
            "cell_results": counts,
            "distinct_nontrivial": len(rep.stats.nontrivial),
            "evaluations": len(cells) * 2,
            "rule": "one cell = one operator/operand-type/width/context combination whose output was proved equal to the spec for all operand values",
            "samples": rep.stats.samples or [{"cell": c.key, "body": c.body} for c in cells[:3]],
            "bounds": {"widths": "1..3" if tier == "quick" else "1..5", "contexts": ["concurrent", "clocked"], "tree_depth": 2},
            "exhaustive": False,
        })
    finally:
        wd.close()
