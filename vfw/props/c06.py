"""C06 -- every accepted design yields legal, well-typed, self-consistent VHDL.
(a) the strict VHDL-subset front end (parser + elaborator + type checker + static legality rules)
    is run over the emitted text of every program family of the other checks;
(b) 'names' family: reserved words, predefined names the text relies on, case variants,
    underscore-decorated and generated-looking names on ports, signals, variables, processes,
    enumeration literals and entities;
(c) E-PY: CrossHair on the real backend scope (VhdlScope.declare / complete_setup) with symbolic
    name choices: assigned names pairwise distinct (case-insensitively) and none reserved.
Level 'other': (a)/(b) are decided by a deterministic checker, not by a solver verdict."""
from __future__ import annotations
import itertools
import random
import re

from ..core import Reporter, Workdir, try_compile, reset_cohdl_state, text_hash
from .. import vhdl_sim as VS
from ..vhdl_parse import Illegal, Unsupported
from .. import gen_coro, gen_seq, gen_constructs, chrun
from ..cells import design_source
from . import c02, c18, c17

POOL = [
    # reserved words (legal python identifiers)
    "signal", "process", "begin", "out", "variable", "entity", "downto", "others", "default", "type", "port", "loop", "select", "buffer", "open", "range", "record", "function", "abs", "rem", "mod",
    # predefined names the emitted text relies on
    "to_integer", "to_unsigned", "to_signed", "shift_left", "shift_right", "rising_edge", "falling_edge", "resize", "boolean", "integer", "natural",
    "std_logic", "std_logic_vector", "unsigned", "signed", "true", "false", "cohdl_bool_to_std_logic", "work", "ieee", "numeric_std",
    # generated-looking names
    "temp", "temp1", "temp2", "buffer_o", "buffer_q", "s_proc", "state_0", "state_1", "state_proc", "alias1", "sig", "var", "proc", "proc1", "arch_N", "N",
    # decorated / case variants
    "_x", "x_", "x", "X", "a__b", "Q", "q", "Temp", "STATE_0", "Proc",
    # plain
    "foo", "bar",
]

TEMPLATE = '''from __future__ import annotations
import cohdl
from cohdl import Bit, BitVector, Unsigned, Signed, Port, Signal, Variable, Null, Full, std, enum


class MyEnum(enum.Enum):
    {lit_a} = enum.auto()
    {lit_b} = enum.auto()


class {ent}(cohdl.Entity):
    clk = Port.input(Bit)
    reset = Port.input(Bit)
    {pin} = Port.input(Unsigned[3])
    go = Port.input(Bit)
    {pout} = Port.output(Unsigned[3], default=Null)
    q = Port.output(Bit, default=Null)

    def architecture(self):
        inner = Signal[Unsigned[3]](Null, name="{sname}")
        vv = Variable[Unsigned[3]](Null, name="{vname}")
        en = Signal[MyEnum](MyEnum.{lit_a}, name="en")

        @std.concurrent
        def comb():
            inner.next = self.{pin} + 1

        @std.sequential(std.Clock(self.clk), std.Reset(self.reset))
        async def {fname}():
            nonlocal vv
            vv @= vv + inner
            self.{pout} <<= vv
            await self.go
            en.next = MyEnum.{lit_b}
            self.q <<= (en == MyEnum.{lit_a})
            await self.go
            self.{pout} <<= self.{pin} - vv
'''

SLOTS = ["pin", "pout", "sname", "vname", "fname", "lit_a", "ent"]
DEFAULTS = {"pin": "a", "pout": "o", "sname": "inner", "vname": "vv", "fname": "proc", "lit_a": "first", "lit_b": "second", "ent": "N"}
PY_KW = {"in", "is", "for", "if", "else", "while", "with", "not", "and", "or", "return", "True", "False", "None", "true", "false"}


def names_programs(tier, rng):
    progs = []
    # each pool name in each slot (others default)
    for slot in SLOTS:
        for n in POOL:
            if n in PY_KW or (slot in ("pin", "pout") and n in ("q", "go", "clk", "reset")):
                continue
            if slot == "ent" and not re.match(r"^[A-Za-z]\w*$", n):
                continue
            d = dict(DEFAULTS)
            d[slot] = n
            progs.append((f"{slot}={n}", d))
    # names that are no Python identifiers / no VHDL basic identifiers: only where the name is given as a string
    for slot in ("sname", "vname"):
        for n in ("2x", "_", "a-b", "t st", "t\u00e4st", "9", "x_", "__", "a.b", "sig!", "\u03b1"):
            d = dict(DEFAULTS)
            d[slot] = n
            progs.append((f"{slot}={n!r}", d))
    # pairs of slots with colliding / case-variant names
    pairs = [("x", "X"), ("temp", "temp"), ("Temp", "temp"), ("q", "Q"), ("state_0", "STATE_0"), ("proc", "Proc"), ("buffer_o", "o"), ("sig", "sig"), ("foo", "FOO"), ("temp1", "temp")]
    for (s1, s2) in itertools.combinations(SLOTS[:6], 2):
        for a, b in pairs:
            if (s1 in ("pin", "pout") and s2 in ("pin", "pout") and a == b):
                continue  # two class attributes of the same name cannot be written in Python
            d = dict(DEFAULTS)
            d[s1], d[s2] = a, b
            progs.append((f"{s1}={a},{s2}={b}", d))
    n_rand = 60 if tier == "quick" else 600
    for _ in range(n_rand):
        d = dict(DEFAULTS)
        for slot in rng.sample(SLOTS[:6], 3):
            d[slot] = rng.choice([p for p in POOL if p not in PY_KW])
        if d["pin"] == d["pout"] or {d["pin"], d["pout"]} & {"q", "go", "clk", "reset"}:
            continue
        if d["lit_a"] == d["lit_b"]:
            continue
        progs.append(("random:" + ",".join(f"{k}={d[k]}" for k in SLOTS[:6]), d))
    return progs


def check_text(text):
    """-> None | (rule, message)"""
    try:
        lib = VS.Library(text)
        for d in lib.order:
            VS.Sim(lib, top=d.name)
    except Illegal as e:
        return e.rule, str(e)
    return None


# ---- (c) E-PY on the backend scope
EPY_PRELUDE = '''from vfw.props import c06_epy as H
'''


def epy_functions():
    """the name-choice space (8 names)^3 x 8 reservation masks is split over 16 conditions
    (first name and the high mask bit fixed per condition) that run in parallel"""
    fs = []
    from . import c06_epy
    for i0 in range(c06_epy.NPOOL):
        for mh in (0, 1):
            name = f"c06_names_{i0}_{mh}"
            src = f'''def {name}(i1: int, i2: int, ml: int) -> bool:
    """
    pre: 0 <= i1 < H.NPOOL and 0 <= i2 < H.NPOOL
    pre: 0 <= ml < 4
    post: _
    """
    return H.scope_names_ok({i0}, i1, i2, 0, ml + {4 * mh})
'''
            fs.append((name, src))
    return fs


def run(tier: str) -> int:
    rep = Reporter("C06", tier, "other")
    wd = Workdir()
    counts = {"legal": 0, "rejected": 0}
    rules = {}
    try:
        rng = random.Random(rep.seed)
        # (a) corpus of the other families
        corpus = []
        for p in gen_coro.programs(tier, rep.seed)[: 80 if tier == "quick" else 600]:
            corpus.append(("coro", p.source, p.entity))
        for p in gen_seq.programs(tier, rep.seed)[: 60 if tier == "quick" else 600]:
            corpus.append(("seq", p.source, p.entity))
        cells = c02.all_cells(tier, rep.seed)
        for k in range(0, min(len(cells), 400 if tier == "quick" else 4000), 40):
            for ctx in ("concurrent", "clocked"):
                corpus.append((f"cells-c02-{ctx}", design_source(cells[k:k + 40], ctx), "Cells"))
        hc = c18.helper_cells(4, rng)
        for k in range(0, len(hc), 40):
            corpus.append(("cells-c18", design_source(hc[k:k + 40], "concurrent"), "Cells"))
        sc = c17.cells()
        for k in range(0, len(sc), 30):
            corpus.append(("cells-c17", design_source(sc[k:k + 30], "concurrent"), "Cells"))
        # constructs family (selectors of every kind, unclocked processes, arrays, enums, ...)
        for key, src, ent in gen_constructs.programs(tier):
            corpus.append((f"constructs|{key}", src, ent))
        # hierarchy trees, std sequential utilities and register maps of the other checks
        from . import c12, c14, c15, c16, c20
        for key, seq, hier, flat, templates in c12.TREES:
            corpus.append((f"hier|{key}", c12.design("Top", hier), "Top"))
        for mod_ in (c14, c15, c16):
            for job in mod_.jobs("quick"):
                corpus.append((f"std|{job[0]}", job[1], "W"))
        for name in c20.MAPS:
            corpus.append((f"regmap|{name}", c20.design(name), "W"))
        for fam, src, ent in corpus:
            _one(rep, wd, f"{fam}", src, ent, counts, rules, fam.split("|")[0])
        # (b) names family
        for key, d in names_programs(tier, rng):
            src = TEMPLATE.format(**d)
            _one(rep, wd, f"names|{key}", src, d["ent"], counts, rules, "names", finding_key=_names_key(key, d))
        # (c) E-PY
        res, cpu = chrun.run_functions(epy_functions(), EPY_PRELUDE, per_cond=600 if tier == "quick" else 1800, chunk=1)
        epy = {}
        for fn, (status, msg) in res.items():
            epy[fn] = status
            rep.stats.queries += 1
            if status == "confirmed":
                rep.stats.unsat += 1
            elif status == "counterexample":
                rep.stats.sat += 1
                from . import c06_epy
                m = re.search(r"calling \w+\(([^)]*)\)", msg)
                args = [int(x.split("=")[-1]) for x in m.group(1).split(",")] if m else None
                if args:
                    _, _, i0s, mhs = fn.split("_")[0], fn.split("_")[1], fn.split("_")[2], fn.split("_")[3]
                    args = [int(i0s), args[0], args[1], 0, args[2] + 4 * int(mhs)]
                if args and not c06_epy.scope_names_ok(*args):
                    rep.violation(f"scope|{c06_epy.describe(*args)}", f"backend scope assigns colliding / reserved names: {c06_epy.describe(*args, verbose=True)}", {"args": args, "crosshair": msg})
                else:
                    rep.inconclusive_query(f"{fn}: counterexample does not reproduce: {msg[:150]}")
            else:
                rep.stats.unknown += 1
                rep.inconclusive_query(f"{fn}: {msg[:150]}")
        rep.stats.units |= {"backend/vhdl/_vhdl_repr.py VhdlScope.declare / complete_setup / format_* / ModuleScope reserved names", "backend/vhdl/_vhdl_assembler.py (buffers, sensitivity)", "whole pipeline through std.VhdlCompiler.to_string"}
        rep.assumptions += ["legality = rules of the strict VHDL-2008 subset front end (vfw/vhdl_parse.py, vhdl_sim.py): declared-once (case-insensitive), no reserved word as identifier, no hiding, well-typed with matching widths, no out-port read, case choices distinct/static/covered, sensitivity lists, single driver",
                            "Unsupported (legal VHDL outside the subset) is a harness error, never a violation; coverage of std_logic metavalues by case choices is not demanded"]
        return rep.finish({
            "explanation": "deterministic front end over %d emitted designs (families + names) and one CrossHair condition on the backend name allocation; accepted=%d rejected=%d; violated rules: %s" % (
                counts["legal"] + counts["rejected"] + sum(rules.values()), counts["legal"], counts["rejected"], rules),
            "evaluations": counts["legal"] + counts["rejected"] + sum(rules.values()),
            "distinct_nontrivial": len(rep.stats.hashes),
            "design_results": counts, "rules_violated": rules, "epy": epy,
            "samples": [{"names_program": "pin=to_integer", "result": "see violations/known findings"}, {"family": "coro", "checked": True}],
        }, max_inconclusive=0)
    finally:
        wd.close()


def _names_key(key, d):
    """finding key: which slot kinds carry which class of name"""
    parts = []
    for slot in SLOTS:
        v = d[slot]
        if v != DEFAULTS[slot]:
            parts.append(f"{slot}:{v.lower()}")
    return "names|" + ",".join(parts)


def _one(rep, wd, key, src, ent, counts, rules, fam, finding_key=None):
    try:
        mod = wd.load(src, "c06")
        text, exc = try_compile(getattr(mod, ent))
    except BaseException as e:
        if isinstance(e, (KeyboardInterrupt, SystemExit)):
            raise
        reset_cohdl_state()
        text, exc = None, e
    rep.stats.programs += 1
    if text is None:
        counts["rejected"] += 1
        return
    r = check_text(text)
    if r is None:
        counts["legal"] += 1
        rep.stats.hashes.add(text_hash(text))
        return
    rule, msg = r
    rules[rule] = rules.get(rule, 0) + 1
    rep.violation(finding_key or f"{fam}|{rule}|{key}", f"{key}: accepted design yields illegal VHDL: {msg}", {"source": src, "vhdl": text, "rule": rule})
