"""Program bank for C10 (trace-evaluation part): plain-Python functions over small integer selectors.
The same function object is (1) called by CPython and (2) evaluated by cohdl's tracer at compile time inside a
synthesizable context (`self.o <<= prog(a, b, c)`, selectors are Python ints, the result shows up as a literal in
the emitted VHDL).  Results are ints in 0..60000; a prog that raises under CPython must be rejected by cohdl.

The bank walks through the constructs named in the property statement: calls with every parameter kind, closures /
nonlocal / lambdas / local functions, classes (inheritance, super(), properties, __call__, operator overloading
with reflected fallbacks and NotImplemented), containers (list / dict / tuple, starred unpacking, subscripts,
slices, comprehensions with several clauses), constant control flow (if / for / if-expressions), chained
comparisons, and / or / not yielding operands, isinstance / type checks."""
from __future__ import annotations

scale = 3          # module globals that closures must NOT confuse with their free variables
offset = 7
k = 11


# ---------------------------------------------------------------- operator dispatch
class Ver:
    """comparison / arithmetic dunders that decline (NotImplemented) for some operand kinds"""

    def __init__(self, v, mode=0):
        self.v = v
        self.mode = mode  # bit0: decline ordering with ints, bit1: decline == with ints, bit2: decline arithmetic with ints

    def _other(self, o, bit):
        if isinstance(o, Ver):
            return o.v
        if isinstance(o, int) and not (self.mode & bit):
            return o
        return None

    def __lt__(self, o):
        x = self._other(o, 1)
        return NotImplemented if x is None else self.v < x

    def __le__(self, o):
        x = self._other(o, 1)
        return NotImplemented if x is None else self.v <= x

    def __gt__(self, o):
        x = self._other(o, 1)
        return NotImplemented if x is None else self.v > x

    def __ge__(self, o):
        x = self._other(o, 1)
        return NotImplemented if x is None else self.v >= x

    def __eq__(self, o):
        x = self._other(o, 2)
        return NotImplemented if x is None else self.v == x

    def __ne__(self, o):
        x = self._other(o, 2)
        return NotImplemented if x is None else self.v != x

    def __hash__(self):
        return hash(self.v)

    def __add__(self, o):
        x = self._other(o, 4)
        return NotImplemented if x is None else Ver(self.v + x, self.mode)

    def __radd__(self, o):
        return Ver(o + self.v + 100, self.mode)

    def __sub__(self, o):
        x = self._other(o, 4)
        return NotImplemented if x is None else Ver(self.v - x, self.mode)

    def __rsub__(self, o):
        return Ver(o - self.v + 200, self.mode)

    def __mul__(self, o):
        x = self._other(o, 4)
        return NotImplemented if x is None else Ver(self.v * x, self.mode)

    def __rmul__(self, o):
        return Ver(o * self.v + 300, self.mode)


class Plain:
    """only reflected operators: the left operand (int) declines, Python falls back to these"""

    def __init__(self, v):
        self.v = v

    def __lt__(self, o): return self.v < o
    def __le__(self, o): return self.v <= o
    def __gt__(self, o): return self.v > o
    def __ge__(self, o): return self.v >= o
    def __radd__(self, o): return o + self.v + 1000
    def __rsub__(self, o): return o - self.v + 2000
    def __rmul__(self, o): return o * self.v + 3000
    def __rand__(self, o): return (o & self.v) + 4000
    def __ror__(self, o): return (o | self.v) + 5000
    def __rxor__(self, o): return (o ^ self.v) + 6000
    def __rfloordiv__(self, o): return o // (self.v + 1) + 9000
    def __rtruediv__(self, o): return o * (self.v + 2) + 11000
    def __rmod__(self, o): return o % (self.v + 1) + 10000


def _bits(*flags):
    return _bits_from(flags, 0, 0)


def _bits_from(flags, i, acc):
    return acc if i == len(flags) else _bits_from(flags, i + 1, acc * 2 + (1 if flags[i] else 0))


def _total(seq):
    return 0 if len(seq) == 0 else seq[0] + _total(seq[1:])


def p_cmp_reflected(a, b, c):
    """int OP Plain(b): int.__op__ returns NotImplemented, the reflected method of the right operand decides"""
    r = Plain(b)
    return _bits(a < r, a <= r, a > r, a >= r, 0 <= r <= 3, a <= r < 4, 1 < r >= a, c < r)


def p_cmp_decline(a, b, c):
    """Ver OP x: declining operands fall back to the other side's reflected comparison"""
    v = Ver(a, c & 1)   # c bit0: ordering with ints declined -> int's reflected comparison declines too -> TypeError
    w = Ver(b)
    return _bits(v == w, v != w, v < w, v <= w, v > w, v >= w) * 16 + _bits(v < b, v <= b, v > b, v >= b)


def p_cmp_left_int(a, b, c):
    v = Ver(b)
    return _bits(a < v, a <= v, a > v, a >= v, a == v, a != v, c <= v)


def p_cmp_eq_identity(a, b, c):
    """== / != where both sides decline fall back to identity in CPython"""
    v = Ver(a, 2 if c == 3 else 0)
    return _bits(v == b, v != b, v == v, b == v, b != v, v == Ver(b, 2), Ver(b) != v)


def p_cmp_chain(a, b, c):
    return _bits(a < b <= c, a <= b == b >= c, 0 < a < b < c, a != b != c, a < b > c, (a < b) == (b < c), a <= a <= a)


def p_binop_reflected(a, b, c):
    r = Plain(b)
    ops = [a + r, a - r, a * r, a & r, a | r, a ^ r, a // r, a % r, a / r]
    return ops[c % 9] + ops[(c + 3) % 9] % 7 + ops[(a + b) % 9] * 2 + ops[6] + ops[8]


def p_binop_decline(a, b, c):
    v = Ver(a, 4 if c & 1 else 0)
    w = (b + v) if c & 1 else (v + b)
    x = (b * v) if c & 1 else (v * b)
    y = (b - v) if c & 1 else (v - b)
    return (w.v % 50) * 400 + (x.v % 20) * 20 + (y.v % 20)


def p_boolops(a, b, c):
    """and / or / not in boolean positions (the statement: and/or/not yield the truth value)"""
    return _bits(a or b, a and b, not a, (a or b) and c, a and (b or c), not (a and b) or c, not not c, (a or b or c) and not (a and b and c),
                 bool(a or b) == bool(b or a), (a and b) or (b and c) or (a and c))


# ---------------------------------------------------------------- calls / parameter kinds
def _f_kinds(a, b=2, /, c=3, *args, d=4, e, **kw):
    return a + 2 * b + 3 * c + 5 * len(args) + _total(args) + 7 * d + 11 * e + 13 * len(kw) + _total(list(kw.values()))


def p_call_kinds(a, b, c):
    t = (b, c)
    dct = {"e": a, "z": b}
    return (_f_kinds(a, e=1) + _f_kinds(a, b, c, 1, 2, e=c, q=a) + _f_kinds(*t, e=a) + _f_kinds(a, *t, *t, d=b, **dct)) % 60000


def _kf(x, y=1, *, z=2):
    return x + y + z


def _kg(x, y=1, **kw):
    return x + y + len(kw)


def _kh(x, /, y):
    return x + y


def p_defaults(a, b, c):
    """defaults of module-level functions; keyword / positional mixes that CPython accepts"""
    return _kf(a) * 100 + _kf(a, b) * 10 + _kf(a, z=c) + _kg(b, w=2, v=3) * 1000 + _kh(a, y=c) + _kf(x=c, y=b, z=a) * 7 + _kg(y=c, x=a)


# calls CPython rejects for argument-binding reasons (one per prog: the tracer may look at calls in untaken branches)
def p_err_too_many(a, b, c):
    return _kf(a, b, c)


def p_err_multiple_values(a, b, c):
    return _kg(a, x=b)          # although **kw is present


def p_err_posonly_by_keyword(a, b, c):
    return _kh(x=a, y=b)


def p_err_unknown_keyword(a, b, c):
    return _kf(a, q=b)


def p_err_missing(a, b, c):
    return _kf(y=b)


def p_err_missing_kwonly_style(a, b, c):
    return _kh(a)


def p_err_multiple_values_2(a, b, c):
    return _kf(a, b, y=c)


# ---------------------------------------------------------------- closures
def _make_scaler(scale):
    def mul(x):
        return x * scale
    return mul


def _make_adder(k):
    return lambda y: y + k + offset


def p_closure_vs_global(a, b, c):
    """free variables named like module globals (scale, offset, k) must resolve to the enclosing function's cells"""
    f = _make_scaler(a + 2)
    offset = b + 1
    g = lambda x: x + offset

    def h(k):
        return lambda y: y * k
    return f(c) * 100 + g(c) * 10 + h(a + 1)(b + 1) + scale + _make_adder(c)(a) * 1000


def _make_shifted():
    offset = 40     # local of the enclosing function shadows the module global `offset`
    return lambda x: x + offset


def _make_pair(k, scale):
    def first(x):
        return x * k

    def second(x):
        return first(x) + scale     # closure calling a sibling closure
    return second


# closures built by ordinary Python at import time and only CALLED from traced code (resolved through from_callable)
TIMES5 = _make_scaler(5)
PLUS40 = _make_shifted()
ADD4 = _make_adder(4)
PAIR = _make_pair(6, 9)


def p_closure_prebuilt(a, b, c):
    """free variables of pre-built closures named like module globals resolve to the closure cells (LEGB)"""
    return TIMES5(a + 1) * 1000 + PLUS40(b) * 10 + ADD4(c) + PAIR(a) * 7


def p_closure_late_binding(a, b, c):
    """closures capture variables, not values: every lambda of the comprehension sees the last i"""
    fs = [lambda x: x + i for i in range(3)]
    return fs[0](a) * 100 + fs[1](b) * 10 + fs[2](c)


def p_closure_default_capture(a, b, c):
    """default arguments capture values at definition"""
    gs = [lambda x, i=i: x + i for i in range(3)]
    return gs[0](a) * 100 + gs[1](b) * 10 + gs[2](c)


def p_closure_shared_cell(a, b, c):
    """two closures over the same variable of one enclosing call see the same cell; separate calls get separate cells"""
    def make(n):
        def get():
            return n
        def get2(m):
            return n * 10 + m
        return get, get2
    g1, h1 = make(a + 1)
    g2, h2 = make(b + 5)
    return g1() * 1000 + h1(c) * 10 + g2() + h2(a) * 3


# ---------------------------------------------------------------- classes
class Base:
    kind = 1

    def __init__(self, v):
        self.v = v

    def val(self):
        return self.v

    @property
    def twice(self):
        return 2 * self.v

    def describe(self):
        return self.kind * 100 + self.val()

    def __call__(self, x):
        return self.v * x + 1


class Derived(Base):
    kind = 2

    def __init__(self, v, w):
        super().__init__(v + 1)
        self.w = w

    def val(self):
        return super().val() * 10 + self.w

    @property
    def twice(self):
        return super().twice + 1


class Derived2(Derived):
    def val(self):
        return super().val() + 5


class WithNew:
    """custom __new__ and __init__ that take the same keyword"""

    def __new__(cls, v, k=1):
        return object.__new__(cls)

    def __init__(self, v, k=1):
        self.v = v
        self.k = k


def p_class_new_kwargs(a, b, c):
    x = WithNew(a, k=b + 5)
    y = WithNew(c)
    return x.v * 1000 + x.k * 100 + y.k * 10 + y.v


def p_class_new_all_keywords(a, b, c):
    z = WithNew(v=b, k=a)
    return z.k * 7 + z.v * 3


def _kw_a(a=0, **kw):
    return a * 10 + len(kw)


def p_err_duplicate_in_double_star(a, b, c):
    return _kw_a(a=a, **{"a": b})     # CPython: multiple values for keyword argument 'a'


def p_double_star_ok(a, b, c):
    return _kw_a(a=a, **{"x": b, "y": c}) + _kw_a(**{"a": c}) * 100


def p_classes(a, b, c):
    objs = [Base(a), Derived(a, b), Derived2(b, c)]
    parts = [o.describe() + o.twice + o(2) for o in objs]
    return (parts[0] * 49 + parts[1] * 7 + parts[2] +
            _bits(isinstance(objs[1], Base), isinstance(objs[0], Derived), type(objs[2]) is Derived2, issubclass(Derived2, Base), isinstance(a, (str, int)))) % 60000


# ---------------------------------------------------------------- containers, unpacking, comprehensions
def p_unpack(a, b, c):
    seq = [a, b, c, a + b, b + c]
    x, *m, y = seq
    (p, q), r = (a, b), c
    first, *rest = (c,)
    *init, last = seq[1:4]
    u = [*seq[:2], *m, *(p, q)]
    d = {**{"a": a}, "b": b, **{"a": c}}
    return (x + 2 * y + len(m) * 3 + p * 5 + q * 7 + r * 11 + first + len(rest) + _total(init) + last * 13 + len(u) * 17 + d["a"] * 19 + len(d)) % 60000


def p_subscripts(a, b, c):
    lst = [10, 20, 30, 40, 50]
    dct = {0: 5, 1: 6, 2: 7, 3: 8, (1, 2): 9}
    tup = (1, 2, 3)
    return (lst[a] + lst[-1 - a] + _total(lst[a:b + 2]) + _total(lst[::2]) + _total(lst[::-1][:c + 1]) + dct[b] + dct[(1, 2)] + tup[c % 3] + len(lst[b:]) +
            dct.get(a + 7, 100) + len((lst + [1]) * 2))


def p_comprehension(a, b, c):
    evens = [i for i in range(a + b + 2) if i % 2 == c % 2]
    window = [t for t in range(8) if t > a if t < b + 4 if t != c + 2]
    dwin = {t: t + 1 for t in range(6) if t >= a if t <= b + 2}
    sq = {i: i * i for i in range(b + 2) if i != a}
    prod = [i * j for i, j in zip(range(a + 1), range(c + 1))]
    both = [x + y for x, y in [(i, i + a) for i in range(b + 1)]]
    idx = [i * v for i, v in enumerate([a, b, c])]
    return (len(window) * 7000 + _total(window) * 13 + _total(list(dwin.values())) * 17 + len(evens) * 1000 + _total(evens) * 10 + _total(list(sq.values())) + _total(prod) * 3 + _total(both) * 5 + _total(idx) * 7) % 60000


def p_control(a, b, c):
    def walk(i, acc):
        # constant-bound recursion replaces re-binding loops (names are single-assignment in the subset)
        return acc if i > a + 1 else walk(i + 1, acc if i == b else acc + i + 1)
    r1 = walk(0, 0)
    r2 = 7 if a < b else (9 if b < c else 11)
    if a:
        r3 = 1000
    elif b:
        r3 = 2000
    else:
        r3 = 3000
    pairs = [i * x + y for i, (x, y) in enumerate(zip([a, b], [b, c]))]
    return r1 + r2 + r3 + _total(pairs)


def p_builtins(a, b, c):
    lst = [a, b, c, 2]
    return (max(lst) * 1000 + min(lst) * 100 + len(lst) + abs(a - b) + (1 if bool(c) else 0) + (1 if all(lst) else 0) * 5 + (1 if any([a, b]) else 0) * 7 + max(a, b, c) * 11 + min(a, c) * 13 +
            (a ** 2) + (7 // (b + 1)) + (7 % (c + 1)) + (-a) % 5) % 60000


BANK = [p_cmp_reflected, p_cmp_decline, p_cmp_left_int, p_cmp_eq_identity, p_cmp_chain, p_binop_reflected, p_binop_decline, p_boolops, p_call_kinds, p_defaults,
        p_err_too_many, p_err_multiple_values, p_err_posonly_by_keyword, p_err_unknown_keyword, p_err_missing, p_err_missing_kwonly_style, p_err_multiple_values_2, p_closure_vs_global, p_closure_prebuilt, p_closure_late_binding, p_closure_default_capture, p_closure_shared_cell, p_class_new_kwargs, p_class_new_all_keywords, p_err_duplicate_in_double_star, p_double_star_ok, p_classes, p_unpack, p_subscripts, p_comprehension, p_control, p_builtins]

# ---------------------------------------------------------------- third round: star positions, nested defaults, dispatch order, short circuit
def _w(x, y, z, *rest):
    return x + 3 * y + 7 * z + 11 * len(rest) + 13 * _total(rest)


def p_call_star_positions(a, b, c):
    """positional arguments before, between and after starred ones keep their textual order"""
    t = (a, b)
    u = [c]
    return (_w(*t, c) + _w(*t, c + 1, *u, 5) * 2 + _w(a, *u, b) * 3 + _w(*u, *t) * 5 + _w(*t, *u, a + 1, b + 2) * 7 + _w(*u, b, *t, *u) * 11) % 60000


def p_nested_def_defaults(a, b, c):
    """default values of functions / lambdas defined inside the traced function are evaluated once, at definition"""
    base = a + 5

    def g(x, y=base, *, z=b + 1):
        return x + 10 * y + 100 * z
    h = lambda x, y=c + 2: x * y
    return g(1) + g(2, 3) + g(3, z=c) + h(4) + h(5, a)


class _P:
    def __init__(self, v):
        self.v = v

    def __add__(self, o):
        return ("P.__add__", self.v)

    def __lt__(self, o):
        return True


class _Q(_P):
    def __radd__(self, o):
        return ("Q.__radd__", self.v)

    def __gt__(self, o):
        return False


def p_binop_subclass_first(a, b, c):
    """a right operand whose class is a proper subclass of the left operand's class and overrides the reflected method goes first"""
    r1 = _P(a) + _Q(b)
    r3 = _Q(a) + _P(b)
    return (1 if r1[0] == "Q.__radd__" else 0) + 2 * r1[1] + (16 if r3[0] == "P.__add__" else 0) + 32 * r3[1]


def p_cmp_subclass_first(a, b, c):
    """rich comparisons: the reflected method of a right operand of a proper subclass goes first"""
    r2 = _P(a) < _Q(b)
    r4 = _Q(a) > _P(b)
    return (8 if r2 else 0) + (4 if r4 else 0) + a


class _R:
    def __add__(self, o):
        return NotImplemented

    def __radd__(self, o):
        return 5


def p_err_same_type_reflected(a, b, c):
    return _R() + _R()        # CPython: TypeError, the reflected method is not tried for operands of the same type


def p_starred_is_list(a, b, c):
    x, *rest = a, b, c
    *init, y = (a, b, c)
    p, *mid, q = [a, b, c, a]
    return _bits(type(rest) is list, type(init) is list, type(mid) is list, isinstance(rest, tuple)) + 16 * rest[0] + 64 * (len(init) + len(mid))


_FLAG_DEFAULT = 0


def p_nested_def_default_identity(a, b, c):
    """the default of a locally defined function / lambda is the VALUE of the default expression, not a wrapper object:
    identity tests on a defaulted parameter see None"""
    k = lambda y=None: 1 if y is None else 2

    def m(p, q=None):
        return p if q is None else p + 100
    return 4 * k() + 16 * k(a) + m(c) + m(c, b) * 3


def p_nested_def_default_truth(a, b, c):
    def g(x, flag=_FLAG_DEFAULT):
        return flag
    r1 = 1 if g(a) else 2
    r2 = 4 if g(a, b) else 8
    return r1 + r2


class _Node:
    def __init__(self, v):
        self.attr = v


def p_shortcircuit(a, b, c):
    """and / or stop at the deciding operand: later operands may be invalid expressions for that value"""
    x = _Node(b) if a else None
    lst = [1, 2, 3][:c]
    r1 = x is not None and x.attr > 0
    r2 = x is None or x.attr == b
    r3 = len(lst) > 2 and lst[2] == 3
    r4 = c == 0 or 6 // c > 1
    return _bits(r1, r2, r3, r4)


BANK += [p_call_star_positions, p_nested_def_defaults, p_binop_subclass_first, p_cmp_subclass_first, p_err_same_type_reflected, p_starred_is_list, p_nested_def_default_identity, p_nested_def_default_truth, p_shortcircuit]


# ---------------------------------------------------------------- fourth round: extended slices, truth value protocol, unary operators
class _Seq:
    def __init__(self, items):
        self.items = items

    def __getitem__(self, key):
        if isinstance(key, slice):
            return (key.start, key.stop, key.step)
        if isinstance(key, tuple):
            return ("tuple", len(key))
        return self.items[key]

    def __len__(self):
        return len(self.items)

    def __contains__(self, x):
        return x in self.items


def p_slice_step(a, b, c):
    xs = [10, 11, 12, 13, 14, 15, 16, 17, 18, 19]
    p1 = xs[1:6:2]
    p2 = xs[a:b + 6:c + 1]
    return (len(p1) * 1000 + _total(p1) + len(p2) * 7 + _total(p2) * 3) % 60000


def p_slice_step_user_getitem(a, b, c):
    s = _Seq([10, 11, 12, 13, 14, 15, 16, 17, 18, 19])
    k = s[2:8:3]
    m = s[a:b + 5:c + 1]
    return (k[0] + 10 * k[1] + 100 * k[2] + m[0] * 1000 + m[1] * 7 + m[2] * 13 + s[-1 - a]) % 60000


def p_contains(a, b, c):
    s = _Seq([10, 11, 12, 13])
    return _bits(11 in s, 3 in s, b + 10 not in s, a + 10 in [10, 12], c in (0, 3), "k" in {"k": 1})


class _Chan:
    def __init__(self, enabled, n):
        self.enabled = enabled
        self.n = n

    def __bool__(self):
        return self.enabled

    def __len__(self):
        return self.n


class _OnlyLen:
    def __init__(self, n):
        self.n = n

    def __len__(self):
        return self.n


def p_truth_protocol(a, b, c):
    """__bool__ decides when present (also when __len__ disagrees)"""
    c1, c2, c3 = _Chan(True, 0), _Chan(False, 3), _Chan(a > 0, b)
    r = [1 if c1 else 2, 1 if c2 else 2, 1 if c3 else 2]
    flags = _bits(not c1, not c2, bool(c3), c1 and True, c2 or c3)
    kept = [x for x in (c1, c2, c3) if x]
    return (_total(r) * 4096 + flags + len(kept) * 17) % 60000


def p_truth_builtin_containers(a, b, c):
    return _bits(not [], bool((0,)), bool(""), bool("0"), bool({}), bool([a]), not (), bool(range(b)))


class _Angle:
    def __init__(self, deg):
        self.deg = deg

    def __pos__(self):
        return _Angle(self.deg % 360)

    def __neg__(self):
        return _Angle(-self.deg % 360)

    def __invert__(self):
        return _Angle(180 + self.deg)


def p_unary_ops(a, b, c):
    x = _Angle(725 + a)
    y = +x
    z = -x
    return (y.deg + 3 * z.deg + _bits(y is x, isinstance(+True, bool), -True == -1) + (+b) + (-c) % 7) % 60000


def p_unary_int_ops(a, b, c):
    return ((-b) % 5 + (+c) + (-(-a)) + (- a - b) % 7) % 60000


BANK += [p_slice_step, p_slice_step_user_getitem, p_truth_protocol, p_unary_ops, p_unary_int_ops]  # `in`, truth value of builtin containers and ~ on ints are rejected by the tracer (allowed by the statement): p_contains / p_truth_builtin_containers stay out of the bank
