"""Single-source specification of cohdl's documented operator semantics (DESIGN 2.5).

Written from the property statements (C02/C05/C09), not from the implementation.  Every spec
function takes a prelude P and *mathematical* integer operands (the number a Signed/Unsigned
value represents; the unsigned bit pattern for BitVector/Bit; 0/1 for bool) and returns the
mathematical value of the result, already reduced into the result type's range.

Two preludes evaluate the same text:
  PyP  -- plain Python ints (used for the compile-time / E-PY side, replays, self tests)
  Z3P  -- 64-bit z3 bit-vectors read as signed integers (operands are <= 16 bits wide, so no
          intermediate can overflow: max |a*b| < 2**33)
"""
from __future__ import annotations
from dataclasses import dataclass
import z3


@dataclass(frozen=True)
class Ty:
    kind: str  # U S BV Bit bool int
    w: int = 1

    @property
    def signed(self):
        return self.kind == "S"

    def __str__(self):
        if self.kind in ("U", "S", "BV"):
            return {"U": "Unsigned", "S": "Signed", "BV": "BitVector"}[self.kind] + f"[{self.w}]"
        return {"Bit": "Bit", "bool": "bool", "int": "int"}[self.kind]

    def lo(self):
        return -(1 << (self.w - 1)) if self.signed else 0

    def hi(self):
        if self.kind == "int":
            raise ValueError
        return (1 << (self.w - 1)) - 1 if self.signed else (1 << self.w) - 1


def U(w): return Ty("U", w)
def S(w): return Ty("S", w)
def BV(w): return Ty("BV", w)
BIT, BOOL, INTT = Ty("Bit"), Ty("bool"), Ty("int")


# ------------------------------------------------------------------ preludes
class PyP:
    name = "python-int"

    @staticmethod
    def const(k):
        return k

    @staticmethod
    def ite(c, a, b):
        return a if c else b

    @staticmethod
    def tdiv(a, b):
        q = abs(a) // abs(b)
        return q if (a < 0) == (b < 0) else -q

    @staticmethod
    def trem(a, b):
        return a - b * PyP.tdiv(a, b)

    @staticmethod
    def fmod(a, b):
        return a % b

    @staticmethod
    def wrap(x, w, signed):
        x = x % (1 << w)
        if signed and x >= (1 << (w - 1)):
            x -= 1 << w
        return x

    @staticmethod
    def shl(a, n):
        return a << n

    @staticmethod
    def shr(a, n):  # floor shift (arithmetic on negative numbers)
        return a >> n

    @staticmethod
    def band(a, b): return a & b
    @staticmethod
    def bor(a, b): return a | b
    @staticmethod
    def bxor(a, b): return a ^ b
    @staticmethod
    def land(a, b): return bool(a) and bool(b)
    @staticmethod
    def lor(a, b): return bool(a) or bool(b)
    @staticmethod
    def lnot(a): return not a
    @staticmethod
    def b2i(c): return 1 if c else 0


W64 = 64


class Z3P:
    name = "z3-bv64"

    @staticmethod
    def const(k):
        return z3.BitVecVal(k, W64)

    @staticmethod
    def ite(c, a, b):
        if isinstance(c, bool):
            return a if c else b
        if isinstance(a, (bool, z3.BoolRef)) or isinstance(b, (bool, z3.BoolRef)):
            a = z3.BoolVal(a) if isinstance(a, bool) else a
            b = z3.BoolVal(b) if isinstance(b, bool) else b
            return z3.If(c, a, b)
        a = Z3P.const(a) if isinstance(a, int) else a
        b = Z3P.const(b) if isinstance(b, int) else b
        return z3.If(c, a, b)

    @staticmethod
    def tdiv(a, b):
        return a / b  # bvsdiv truncates toward zero

    @staticmethod
    def trem(a, b):
        return z3.SRem(a, b)

    @staticmethod
    def fmod(a, b):
        return a % b  # bvsmod: sign of divisor

    @staticmethod
    def wrap(x, w, signed):
        if isinstance(x, int):
            return PyP.wrap(x, w, signed)
        low = z3.Extract(w - 1, 0, x)
        return z3.SignExt(W64 - w, low) if signed else z3.ZeroExt(W64 - w, low)

    @staticmethod
    def shl(a, n):
        n = Z3P.const(n) if isinstance(n, int) else n
        a = Z3P.const(a) if isinstance(a, int) else a
        return a << n

    @staticmethod
    def shr(a, n):
        n = Z3P.const(n) if isinstance(n, int) else n
        a = Z3P.const(a) if isinstance(a, int) else a
        return a >> n  # arithmetic

    @staticmethod
    def band(a, b): return a & b
    @staticmethod
    def bor(a, b): return a | b
    @staticmethod
    def bxor(a, b): return a ^ b

    @staticmethod
    def land(a, b):
        return z3.And(_zb(a), _zb(b))

    @staticmethod
    def lor(a, b):
        return z3.Or(_zb(a), _zb(b))

    @staticmethod
    def lnot(a):
        return z3.Not(_zb(a))

    @staticmethod
    def b2i(c):
        if isinstance(c, bool):
            return 1 if c else 0
        return z3.If(c, Z3P.const(1), Z3P.const(0))


def _zb(a):
    return z3.BoolVal(a) if isinstance(a, bool) else a


# ------------------------------------------------------------------ the table
def _vec(t):
    return t.kind in ("U", "S")


def _num_pair(ta, tb):
    """arithmetic is defined for U/U, S/S, U/int, int/U, S/int, int/S"""
    if _vec(ta) and _vec(tb):
        return ta.kind == tb.kind
    return (_vec(ta) and tb.kind == "int") or (_vec(tb) and ta.kind == "int")


def _vk(ta, tb):
    return ta.kind if _vec(ta) else tb.kind


def _vw(ta, tb):
    """width of 'the vector operand' when the other one is an int"""
    return ta.w if _vec(ta) else tb.w


def t_addsub(ta, tb):
    if not _num_pair(ta, tb):
        return None
    if _vec(ta) and _vec(tb):
        return Ty(ta.kind, max(ta.w, tb.w))
    return Ty(_vk(ta, tb), _vw(ta, tb))


def t_mul(ta, tb):
    if not _num_pair(ta, tb):
        return None
    if _vec(ta) and _vec(tb):
        return Ty(ta.kind, ta.w + tb.w)
    return Ty(_vk(ta, tb), 2 * _vw(ta, tb))


def t_div(ta, tb):  # dividend width
    if not _num_pair(ta, tb):
        return None
    if _vec(ta):
        return Ty(ta.kind, ta.w)
    return Ty(tb.kind, tb.w)


def t_modrem(ta, tb):  # divisor width
    if not _num_pair(ta, tb):
        return None
    if _vec(tb):
        return Ty(tb.kind, tb.w)
    return Ty(ta.kind, ta.w)


def v_add(P, a, b, ta, tb, tr): return P.wrap(a + b, tr.w, tr.signed)
def v_sub(P, a, b, ta, tb, tr): return P.wrap(a - b, tr.w, tr.signed)
def v_mul(P, a, b, ta, tb, tr): return P.wrap(a * b, tr.w, tr.signed)
def v_tdiv(P, a, b, ta, tb, tr): return P.wrap(P.tdiv(a, b), tr.w, tr.signed)
def v_mod(P, a, b, ta, tb, tr): return P.wrap(P.fmod(a, b), tr.w, tr.signed)
def v_rem(P, a, b, ta, tb, tr): return P.wrap(P.trem(a, b), tr.w, tr.signed)


def t_bitwise(ta, tb):
    """and/or/xor: equal-width vectors of the same kind, or Bit/Bit"""
    if ta.kind == "Bit" and tb.kind == "Bit":
        return BIT
    if ta.kind in ("U", "S", "BV") and tb.kind == ta.kind and ta.w == tb.w:
        return Ty(ta.kind, ta.w)
    return None


def _bits(P, a, t):
    """mathematical value -> unsigned bit pattern (as a mathematical integer)"""
    if t.signed:
        return P.wrap(a, t.w, False)
    return a


def _from_bits(P, x, t):
    if t.signed:
        return P.wrap(x, t.w, True)
    return x


def v_and(P, a, b, ta, tb, tr): return _from_bits(P, P.band(_bits(P, a, ta), _bits(P, b, tb)), tr)
def v_or(P, a, b, ta, tb, tr): return _from_bits(P, P.bor(_bits(P, a, ta), _bits(P, b, tb)), tr)
def v_xor(P, a, b, ta, tb, tr): return _from_bits(P, P.bxor(_bits(P, a, ta), _bits(P, b, tb)), tr)


def t_cmp_num(ta, tb):
    if _num_pair(ta, tb):
        return BOOL
    return None


def t_cmp_eq(ta, tb):
    if _num_pair(ta, tb):
        return BOOL
    if ta.kind == "BV" and tb.kind == "BV" and ta.w == tb.w:
        return BOOL
    if ta.kind == "Bit" and tb.kind == "Bit":
        return BOOL
    return None


def v_eq(P, a, b, ta, tb, tr): return a == b
def v_ne(P, a, b, ta, tb, tr): return a != b
def v_lt(P, a, b, ta, tb, tr): return a < b
def v_le(P, a, b, ta, tb, tr): return a <= b
def v_gt(P, a, b, ta, tb, tr): return a > b
def v_ge(P, a, b, ta, tb, tr): return a >= b


def t_shift(ta, tb):
    """value << n, value >> n : n is a non-negative int constant or a run-time Unsigned"""
    if _vec(ta) and tb.kind in ("int", "U"):
        return Ty(ta.kind, ta.w)
    return None


def v_shl(P, a, n, ta, tb, tr): return P.wrap(P.shl(a, n), tr.w, tr.signed)
def v_shr(P, a, n, ta, tb, tr): return P.wrap(P.shr(a, n), tr.w, tr.signed)  # floor shift = logical for U, arithmetic for S


def t_concat(ta, tb):
    def w(t):
        if t.kind in ("U", "S", "BV"):
            return t.w
        if t.kind == "Bit":
            return 1
        return None
    wa, wb = w(ta), w(tb)
    if wa is None or wb is None:
        return None
    return BV(wa + wb)


def v_concat(P, a, b, ta, tb, tr):
    wb = tb.w if tb.kind != "Bit" else 1
    return P.shl(_bits(P, a, ta), wb) + _bits(P, b, tb)


BINOPS = {
    # name: (python source template, type rule, value rule, needs nonzero divisor)
    "add": ("({a} + {b})", t_addsub, v_add, False),
    "sub": ("({a} - {b})", t_addsub, v_sub, False),
    "mul": ("({a} * {b})", t_mul, v_mul, False),
    "truncdiv": ("cohdl.op.truncdiv({a}, {b})", t_div, v_tdiv, True),
    "mod": ("({a} % {b})", t_modrem, v_mod, True),
    "rem": ("cohdl.op.rem({a}, {b})", t_modrem, v_rem, True),
    "and": ("({a} & {b})", t_bitwise, v_and, False),
    "or": ("({a} | {b})", t_bitwise, v_or, False),
    "xor": ("({a} ^ {b})", t_bitwise, v_xor, False),
    "eq": ("({a} == {b})", t_cmp_eq, v_eq, False),
    "ne": ("({a} != {b})", t_cmp_eq, v_ne, False),
    "lt": ("({a} < {b})", t_cmp_num, v_lt, False),
    "le": ("({a} <= {b})", t_cmp_num, v_le, False),
    "gt": ("({a} > {b})", t_cmp_num, v_gt, False),
    "ge": ("({a} >= {b})", t_cmp_num, v_ge, False),
    "shl": ("({a} << {b})", t_shift, v_shl, False),
    "shr": ("({a} >> {b})", t_shift, v_shr, False),
    "concat": ("({a} @ {b})", t_concat, v_concat, False),
}


# ------------------------------------------------------------------ unary / conversions
def t_same_vec(ta):
    return Ty(ta.kind, ta.w) if ta.kind in ("U", "S", "BV") else (BIT if ta.kind == "Bit" else None)


def v_invert(P, a, ta, tr):
    if ta.kind == "Bit":
        return 1 - a
    full = (1 << ta.w) - 1
    return _from_bits(P, P.bxor(_bits(P, a, ta), P.const(full)), tr)


def t_neg(ta):
    return Ty(ta.kind, ta.w) if _vec(ta) else None


def v_neg(P, a, ta, tr): return P.wrap(0 - a, tr.w, tr.signed)


def t_abs(ta):
    return S(ta.w) if ta.kind == "S" else None


def v_abs(P, a, ta, tr): return P.wrap(P.ite(a < 0, 0 - a, a), tr.w, True)


def t_view_u(ta): return U(ta.w) if ta.kind in ("U", "S", "BV") else None
def t_view_s(ta): return S(ta.w) if ta.kind in ("U", "S", "BV") else None
def t_view_bv(ta): return BV(ta.w) if ta.kind in ("U", "S", "BV") else None
def v_view(P, a, ta, tr): return _from_bits(P, _bits(P, a, ta), tr)


def t_bool(ta): return BOOL
def v_truth(P, a, ta, tr): return a != 0
def v_lnot(P, a, ta, tr): return a == 0


def t_cmp_fill(ta): return BOOL if ta.kind in ("U", "S", "BV") else None  # Bit == Null is not implemented for run-time operands
def _all_ones(ta): return 1 if ta.kind == "Bit" else (1 << ta.w) - 1
def v_eq_null(P, a, ta, tr): return _bits(P, a, ta) == 0 if ta.kind != "Bit" else a == 0
def v_ne_null(P, a, ta, tr): return _bits(P, a, ta) != 0 if ta.kind != "Bit" else a != 0
def v_eq_full(P, a, ta, tr): return _bits(P, a, ta) == _all_ones(ta) if ta.kind != "Bit" else a == 1
def v_ne_full(P, a, ta, tr): return _bits(P, a, ta) != _all_ones(ta) if ta.kind != "Bit" else a != 1


UNOPS = {
    "eq_null": ("({a} == Null)", t_cmp_fill, v_eq_null),
    "ne_null": ("({a} != Null)", t_cmp_fill, v_ne_null),
    "eq_full": ("({a} == Full)", t_cmp_fill, v_eq_full),
    "ne_full": ("({a} != Full)", t_cmp_fill, v_ne_full),
    "invert": ("(~{a})", t_same_vec, v_invert),
    "neg": ("(-{a})", t_neg, v_neg),
    "abs": ("abs({a})", t_abs, v_abs),
    "unsigned": ("{a}.unsigned", t_view_u, v_view),
    "signed": ("{a}.signed", t_view_s, v_view),
    "bitvector": ("{a}.bitvector", t_view_bv, v_view),
    "bool": ("bool({a})", t_bool, v_truth),
    "not": ("(not {a})", t_bool, v_lnot),
}


def conv_assign(ts: Ty, tt: Ty):
    """C05: is an assignment source type -> target type accepted, and if so with which value map?
    returns None (must be rejected), 'outside' (statement silent) or a function (P, a) -> value"""
    k, t = ts.kind, tt.kind
    if t == "U":
        if k == "U":
            return (lambda P, a: a) if ts.w <= tt.w else None
        if k == "S":
            return None
        if k == "BV":
            return (lambda P, a: a) if ts.w == tt.w else None
        if k in ("Bit", "bool"):
            return None
    if t == "S":
        if k == "S":
            return (lambda P, a: a) if ts.w <= tt.w else None
        if k == "U":
            return (lambda P, a: a) if ts.w < tt.w else None
        if k == "BV":
            return (lambda P, a: P.wrap(a, tt.w, True)) if ts.w == tt.w else None
        if k in ("Bit", "bool"):
            return None
    if t == "BV":
        if k == "BV":
            return (lambda P, a: a) if ts.w == tt.w else None
        if k in ("U", "S"):
            return (lambda P, a: _bits(P, a, ts)) if ts.w == tt.w else None
        if k in ("Bit", "bool"):
            return None
    if t == "Bit":
        if k == "Bit":
            return lambda P, a: a
        if k == "bool":
            return lambda P, a: a
        return None
    if t == "bool":
        if k in ("Bit", "bool"):
            return lambda P, a: a
        return "outside"  # truthiness of vectors: statement silent
    return "outside"


def to_math(P, bits, t: Ty):
    """unsigned bit pattern (prelude integer) -> mathematical value"""
    return P.wrap(bits, t.w, True) if t.signed else bits
