"""C04 -- reset returns every context to its power-up behaviour from any state.
For generated sequential contexts (coroutines and plain bodies) wrapped with every reset flavour,
the control pairs are discovered by pair induction and, from each pair with ARBITRARY data, z3
decides the reset scenarios S1..S6 of seqcheck.reset_check."""
from __future__ import annotations
import itertools
import random
import time
from ..core import Reporter, Workdir
from .. import gen_coro as G
from ..seqcheck import reset_check
from .c01 import check_program, hash_body


def variants():
    for rk, low, fall, seen, cnt, onr in itertools.product(("sync", "async"), (False, True), (False, True),
                                                           ("default", "nodefault", "noreset"), ("default", "nodefault", "noreset"), (False, True)):
        yield dict(reset=rk, active_low=low, falling=fall, seen_kind=seen, cnt_kind=cnt, on_reset=onr)


def bodies():
    M, A0, A1, AT = G.mark(), G.await_("self.in0"), G.await_("self.in1"), G.await_("true")
    return [
        [M, A0, M],
        [M],
        [A0, M, AT, M],
        [M, G.if_("self.in1", [A0, M], [M]), M],
        [G.while_("self.in2", [M, A0, G.if_("self.in1", [G.BREAK])]), M],
        [M, G.while_("True", [G.vinc(), M, A0, G.if_("v == 2", [G.BREAK], [G.CONTINUE])]), M, A1],
        [G.vinc(), M],
        [M, AT, M, AT, G.if_("self.in0", [M])],
    ]


def run(tier: str) -> int:
    rep = Reporter("C04", tier, "translation_validation")
    wd = Workdir()
    counts, scen = {}, 0
    try:
        bs = bodies()
        M_, A0_ = G.mark(), G.await_("self.in0")
        vs = list(variants())
        rng = random.Random(rep.seed)
        progs = []
        if tier == "quick":
            for i, v in enumerate(vs):
                progs.append(G.render(bs[i % len(bs)], **v))
        else:
            for v in vs:
                for b in bs:
                    progs.append(G.render(b, **v))
        # objects that are only ever pushed, noreset objects written through slices / bits only, contexts with a step condition
        xb = [[M_, G.PULSE, A0_, G.PARTIAL, M_], [G.PARTIAL, G.while_("self.in1", [G.PULSE, M_, A0_]), M_], [G.PULSE, M_]]
        k = 0
        for rk, low, fall, sc in itertools.product(("sync", "async"), (False, True), (False, True), (None, "self.in2")):
            for b in (xb if tier != "quick" else [xb[k % len(xb)]]):
                progs.append(G.render(b, reset=rk, active_low=low, falling=fall, step_cond=sc, on_reset=(k % 2 == 1)))
            k += 1
        budget = 160 if tier == "quick" else 2400
        t0 = time.time()
        def vkey_of(prog):
            return f"{'async' if prog.reset_async else 'sync'}|low={prog.reset_active == 0}|falling={not prog.rising}|seen={_kind(prog, 'seen')}|cnt={_kind(prog, 'cnt')}|on_reset={bool(prog.meta.get('on_reset'))}" + ("|step_cond" if prog.meta.get("step_cond") else "") + ("|pulse" if "pulse" in prog.objs else "") + ("|partial" if "keep" in prog.objs else "")

        def job(i, rw, wdw):
            prog = progs[i]
            vkey = vkey_of(prog)
            r = check_program(rw, wdw, prog, 8)
            s = r["status"]
            ev = []
            out = {"status": s, "events": ev, "pairs": 0}
            if s == "violation":
                ev.append(("violation", f"behaviour|{vkey}|{hash_body(prog)}", f"context differs from its source semantics at clock {r['clock']}: {r['log'][-1]}", {"source": prog.source, "trace": r["trace"], "log": r["log"], "vhdl": r["vhdl"]}))
                return out
            if s == "illegal":
                ev.append(("violation", f"illegal|{vkey}", f"emitted VHDL illegal: {r['why']}", {"source": prog.source, "vhdl": r["vhdl"]}))
                return out
            if s == "inconclusive":
                ev.append(("inconclusive", f"{vkey}: {r['why']}"))
                return out
            if s not in ("closed", "bounded"):
                return out
            bad = reset_check(rw.stats, prog, r["lib"], r["ref"], r["vm"], r["pairs"])
            out["pairs"] = len(r["pairs"])
            out["hash"] = r["hash"]
            for b in bad:
                if b["kind"] == "inconclusive":
                    ev.append(("inconclusive", f"{vkey}: {b}"))
                    continue
                what = b["scenario"].split(" ")[0]
                diff = {n: (b["data"][n], b["after"][n]) for n in b["after"]}
                ev.append(("violation", f"reset|{what}|{_objkey(prog, b)}", f"{b['scenario']}: from pair {b['pair']} pre/post {diff}, state after {b['state_after']} ({vkey})",
                           {"source": prog.source, "scenario": {k: (list(v) if isinstance(v, tuple) else v) for k, v in b.items()}, "vhdl": r["text"], "variant": vkey}))
            out["sample"] = {"variant": vkey, "pairs": [list(p) for p in r["pairs"]], "scenarios": "S1,S6" if not prog.reset_async else "S1-S5",
                             "proc": prog.source.split("def architecture(self):")[1][:600]}
            return out

        from ..core import parallel_programs
        results = parallel_programs(rep, len(progs), job, deadline=t0 + budget)
        done = len(results)
        for i in sorted(results):
            r = results[i]
            s = r["status"]
            counts[s] = counts.get(s, 0) + 1
            if s == "worker-error":
                rep.inconclusive_query(f"program {i}: {r['why']}")
                continue
            for e in r["events"]:
                if e[0] == "violation":
                    rep.violation(e[1], e[2], e[3])
                else:
                    rep.inconclusive_query(e[1])
            scen += r.get("pairs", 0)
            if "hash" in r:
                rep.stats.nontrivial.add(r["hash"])
            if "sample" in r and len(rep.stats.samples) < 3:
                rep.stats.sample(r["sample"])
        nb = run_bmc_part(rep, wd, tier, counts)
        rep.assumptions += ["%d BMC designs (K=6 from power-up, reset / extra condition / load / data symbolic per clock): SequentialContext.or_reset with every polarity combination and sync/async parent; std.NoresetSignal of a record, an array and a primitive next to an ordinary record" % nb]
        rep.stats.units |= {"cohdl.std._context.SequentialContext.or_reset", "cohdl.std._core_utility._Noreset (NoresetSignal / NoresetVariable)"}
        rep.stats.units |= {"cohdl.std._context._sequential_impl (sync/async wrappers, sensitivity lists, on_reset)",
                            "cohdl.std._context.SequentialContext.__call__", "cohdl._core._ir._repr.Sequential._pushed_resettable_signals",
                            "Clock/Reset classes (edge, polarity)"}
        rep.assumptions += ["pre-state: any discovered control pair x ARBITRARY data (superset of reachable states)",
                            "reset changes only at the instants of scenarios S1-S6; inputs arbitrary at every instant",
                            "behaviour after release follows from state equality on resettable objects + determinism (C01 equivalence proved for the same program)"]
        return rep.finish({
            "programs": done, "program_results": counts, "disagreements_checked": len(rep.violations) + len(rep.known_hits),
            "control_pairs_checked": scen,
            "distinct_nontrivial": len(rep.stats.nontrivial), "evaluations": done,
            "rule": "one program = one body x reset flavour (sync/async, polarity, clock edge, object default kinds, on_reset); all scenarios decided from every control pair",
            "samples": rep.stats.samples or [{"source": progs[0].source}],
            "bounds": {"variants": len(vs), "bodies": len(bs)},
        }, max_inconclusive=2)
    finally:
        wd.close()


# ---------------------------------------------------------------- derived resets and aggregate noreset objects (BMC + monitors)
from .. import dom as D
from .. import vhdl_sim as VS
from ..vhdl_parse import Illegal
from ..bmc import Monitor, run_bmc, compile_design
from .c16 import HEADER as BMC_HEADER, mux, bit


def or_reset_design(parent_low, parent_async, derived_low):
    pa = ["self.reset"] + (["active_low=True"] if parent_low else []) + (["is_async=True"] if parent_async else [])
    da = ["self.clr"] + (["active_low=True"] if derived_low else [])
    return "\n".join([BMC_HEADER, "class W(cohdl.Entity):", "    clk = Port.input(Bit)", "    reset = Port.input(Bit)", "    clr = Port.input(Bit)", "    x = Port.input(Unsigned[3])",
                      "    o = Port.output(Unsigned[3], default=5)", "    p = Port.output(Unsigned[3], default=2)", "    def architecture(self):",
                      f"        ctx = std.SequentialContext(std.Clock(self.clk), std.Reset({', '.join(pa)}))",
                      f"        ctx2 = ctx.or_reset({', '.join(da)})",
                      "        @ctx2", "        def derived():", "            self.o <<= self.x",
                      "        @ctx", "        def parent():", "            self.p <<= self.x"]) + "\n"


class OrResetMonitor(Monitor):
    """derived context: reset when the parent's reset OR the extra condition is active (each with its own polarity);
    the parent context only by its own reset"""

    def __init__(self, parent_low, derived_low):
        super().__init__()
        self.pl, self.dl = parent_low, derived_low
        self.o, self.p = 5, 2

    def step(self, i, ins, outs):
        pr = bit(ins["reset"])
        pr = D.b_not(pr) if self.pl else pr
        dc = bit(ins["clr"])
        dc = D.b_not(dc) if self.dl else dc
        self.o = mux(D.b_or(pr, dc), 5, ins["x"], 3)
        self.p = mux(pr, 2, ins["x"], 3)
        self.check(D.v_eq(outs["o"], self.o, 3), "derived context (or_reset): register differs (parent reset or extra condition must reset it, nothing else)")
        self.check(D.v_eq(outs["p"], self.p, 3), "parent context: register differs")


def derived_ctx_design(how, parent_async):
    """parent context with an on_reset action and a step condition; the context derived with or_reset / and_reset is documented
    as a copy of the parent with another reset condition: the action runs whenever the derived reset is active, and the body only
    steps when the step condition holds"""
    pa = ["self.reset"] + (["is_async=True"] if parent_async else [])
    return "\n".join([BMC_HEADER, "class W(cohdl.Entity):", "    clk = Port.input(Bit)", "    reset = Port.input(Bit)", "    clr = Port.input(Bit)", "    en = Port.input(Bit)", "    x = Port.input(Unsigned[3])",
                      "    o = Port.output(Unsigned[3], default=5)", "    q = Port.output(Unsigned[3], default=1)", "    def architecture(self):",
                      "        def act():", "            self.q <<= 6",
                      f"        ctx = std.SequentialContext(std.Clock(self.clk), std.Reset({', '.join(pa)}), step_cond=lambda: self.en, on_reset=act)",
                      f"        ctx2 = ctx.{how}(self.clr)",
                      "        @ctx2", "        def derived():", "            self.o <<= self.x", "            self.q <<= self.x + 1"]) + "\n"


class DerivedCtxMonitor(Monitor):
    def __init__(self, how):
        super().__init__()
        self.how = how
        self.o, self.q = 5, 1

    def step(self, i, ins, outs):
        pr, dc, en = bit(ins["reset"]), bit(ins["clr"]), bit(ins["en"])
        rst = D.b_or(pr, dc) if self.how == "or_reset" else D.b_and(pr, dc)
        self.o = mux(rst, 5, mux(en, ins["x"], self.o, 3), 3)
        self.q = mux(rst, 6, mux(en, D.v_add(ins["x"], 1, 3), self.q, 3), 3)
        self.check(D.v_eq(outs["o"], self.o, 3), f"context derived with {self.how}: register differs (reset to default; steps only when the parent's step condition holds)")
        self.check(D.v_eq(outs["q"], self.q, 3), f"context derived with {self.how}: the parent's on_reset action does not decide the value under reset / step condition ignored")


def noreset_aggregate_design(low, is_async):
    ra = ["self.reset"] + (["active_low=True"] if low else []) + (["is_async=True"] if is_async else [])
    return "\n".join([BMC_HEADER, "class C04Rec(std.Record):", "    a: Bit", "    b: Unsigned[3]", "",
                      "class W(cohdl.Entity):", "    clk = Port.input(Bit)", "    reset = Port.input(Bit)", "    ld = Port.input(Bit)", "    x = Port.input(Unsigned[3])",
                      "    kb = Port.output(Unsigned[3])", "    ka = Port.output(Bit)", "    nb = Port.output(Unsigned[3])", "    ke = Port.output(Unsigned[3])", "    kp = Port.output(Unsigned[3])",
                      "    def architecture(self):",
                      "        keep = std.NoresetSignal[C04Rec](C04Rec(a=True, b=3))",
                      "        norm = std.Signal[C04Rec](C04Rec(a=False, b=1))",
                      "        karr = std.NoresetSignal[std.Array[Unsigned[3], 2]]([6, 4])",
                      "        kprim = std.NoresetSignal[Unsigned[3]](7)",
                      f"        @std.sequential(std.Clock(self.clk), std.Reset({', '.join(ra)}))", "        def proc():",
                      "            if self.ld:", "                keep.b <<= self.x", "                keep.a <<= self.x[0]", "                norm.b <<= self.x", "                karr[1] <<= self.x", "                kprim.next = self.x",
                      "        @std.concurrent", "        def show():", "            self.kb <<= keep.b", "            self.ka <<= keep.a", "            self.nb <<= norm.b", "            self.ke <<= karr[1]", "            self.kp <<= kprim"]) + "\n"


class NoresetAggMonitor(Monitor):
    """noreset objects (record members, array elements, primitives) keep their value while reset is active;
    ordinary records go back to their initial value"""

    def __init__(self, low):
        super().__init__()
        self.low = low
        self.kb, self.ka, self.nb, self.ke, self.kp = 3, 1, 1, 4, 7

    def step(self, i, ins, outs):
        r = bit(ins["reset"])
        r = D.b_not(r) if self.low else r
        ld = D.b_and(bit(ins["ld"]), D.b_not(r))
        x = ins["x"]
        self.kb = mux(ld, x, self.kb, 3)
        self.ka = mux(ld, D.v_extract(x, 0, 0, 3), self.ka, 1)
        self.ke = mux(ld, x, self.ke, 3)
        self.kp = mux(ld, x, self.kp, 3)
        self.nb = mux(r, 1, mux(ld, x, self.nb, 3), 3)
        self.check(D.v_eq(outs["kb"], self.kb, 3), "noreset record member changed by reset (or not loaded)")
        self.check(D.v_eq(outs["ka"], self.ka, 1), "noreset record member (Bit) changed by reset (or not loaded)")
        self.check(D.v_eq(outs["ke"], self.ke, 3), "noreset array element changed by reset (or not loaded)")
        self.check(D.v_eq(outs["kp"], self.kp, 3), "noreset primitive changed by reset (or not loaded)")
        self.check(D.v_eq(outs["nb"], self.nb, 3), "resettable record member not reset to its initial value")


def bmc_jobs(tier):
    js = []
    for pl, pa, dl in itertools.product((False, True), (False, True), (False, True)):
        js.append((f"or_reset|parent_low={pl}|parent_async={pa}|derived_low={dl}", or_reset_design(pl, pa, dl), {"reset": 1, "clr": 1, "x": 3}, ["o", "p"], 6, lambda pl=pl, dl=dl: OrResetMonitor(pl, dl)))
    # synchronous parents only: with an asynchronous combined reset the emitted `combined_reset` signal has no initial value, real VHDL
    # starts it at 'U' (reset condition false), the two-valued interpreter at an arbitrary bit -- a start-up glitch that would show here
    # because the on_reset action sets another value than the declared default (the or_reset designs above cover asynchronous parents)
    for how, pa in itertools.product(("or_reset", "and_reset"), (False,)):
        js.append((f"derived-context|{how}|parent_async={pa}", derived_ctx_design(how, pa), {"reset": 1, "clr": 1, "en": 1, "x": 3}, ["o", "q"], 6, lambda how=how: DerivedCtxMonitor(how)))
    for low, asy in itertools.product((False, True), (False, True)):
        js.append((f"noreset-aggregate|low={low}|async={asy}", noreset_aggregate_design(low, asy), {"reset": 1, "ld": 1, "x": 3}, ["kb", "ka", "nb", "ke", "kp"], 6, lambda low=low: NoresetAggMonitor(low)))
    return js


def run_bmc_part(rep, wd, tier, counts):
    n = 0
    for key, src, inputs, outputs, K, mk in bmc_jobs(tier):
        text, exc = compile_design(wd, src, "W", "c04b")
        rep.stats.programs += 1
        n += 1
        if text is None:
            rep.violation(f"rejected|{key}", f"{key}: wrapper rejected: {type(exc).__name__}: {str(exc)[:200]}", {"source": src})
            continue
        try:
            lib = VS.Library(text)
            VS.Sim(lib)
        except Illegal as e:
            rep.violation(f"illegal|{key}", f"{key}: emitted VHDL illegal: {e}", {"source": src, "vhdl": text})
            continue
        status, info = run_bmc(rep.stats, lib, inputs, outputs, K, mk)
        counts[f"bmc-{status}"] = counts.get(f"bmc-{status}", 0) + 1
        if status == "ok":
            rep.stats.nontrivial.add(key)
        elif status == "violation":
            rep.violation(f"{key.split('|')[0]}|{key}", f"{key}: {info['failed'][0][0]} at clock {info['failed'][0][1]}; inputs {info['trace'][:info['failed'][0][1] + 1] if isinstance(info['failed'][0][1], int) else ''}", {"source": src, "vhdl": text, **info})
        else:
            rep.inconclusive_query(f"{key}: {status} {info}")
    return n



def _kind(prog, n):
    o = prog.objs[n]
    return "noreset" if o.noreset else ("nodefault" if o.default is None else "default")


def _objkey(prog, b):
    """which objects are wrong -> stable key of the finding"""
    bad = sorted(n for n in b["after"] if b["after"][n] != b["data"].get(n) or True)
    wrong = []
    for n in sorted(b["after"]):
        wrong.append(n)
    return ("async" if prog.reset_async else "sync") + "|" + ("on_reset" if prog.meta.get("on_reset") else "plain")
