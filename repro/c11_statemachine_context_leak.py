import cohdl
from cohdl import Bit, Port, Unsigned, std
class Bad(cohdl.Entity):
    clk = Port.input(Bit); a = Port.input(Bit); o = Port.output(Bit, default=False)
    def architecture(self):
        @std.sequential(std.Clock(self.clk))
        async def proc():
            while self.a:
                if self.a:
                    continue      # continue without suspension -> rejected during lowering
                await self.a
            self.o <<= True
class Good(cohdl.Entity):
    clk = Port.input(Bit); a = Port.input(Bit); o = Port.output(Bit, default=False)
    def architecture(self):
        @std.sequential(std.Clock(self.clk))
        async def proc():
            await self.a
            self.o <<= True
ref = std.VhdlCompiler.to_string(Good)
for i in range(2):
    try:
        std.VhdlCompiler.to_string(Bad); print("bad accepted?")
    except BaseException as e: print("bad rejected:", str(e)[:80])
    try:
        t = std.VhdlCompiler.to_string(Good); print("good after bad: identical =", t == ref)
    except BaseException as e: print("good after bad REJECTED:", str(e)[:100])
