"""Python-side (compile-time) evaluation of cohdl primitives vs the single-source spec.
These functions are what CrossHair executes symbolically (operand values symbolic ints) and what
replays call natively."""
from __future__ import annotations
import cohdl
from cohdl import Bit, BitVector, Unsigned, Signed

from . import spec as SP
from .spec import Ty, PyP

OPS = {
    "add": lambda x, y: x + y,
    "sub": lambda x, y: x - y,
    "mul": lambda x, y: x * y,
    "truncdiv": lambda x, y: cohdl.op.truncdiv(x, y),
    "mod": lambda x, y: x % y,
    "rem": lambda x, y: cohdl.op.rem(x, y),
    "and": lambda x, y: x & y,
    "or": lambda x, y: x | y,
    "xor": lambda x, y: x ^ y,
    "eq": lambda x, y: x == y,
    "ne": lambda x, y: x != y,
    "lt": lambda x, y: x < y,
    "le": lambda x, y: x <= y,
    "gt": lambda x, y: x > y,
    "ge": lambda x, y: x >= y,
    "shl": lambda x, y: x << y,
    "shr": lambda x, y: x >> y,
    "concat": lambda x, y: x @ y,
}
UOPS = {
    "eq_null": lambda x: x == cohdl.Null,
    "ne_null": lambda x: x != cohdl.Null,
    "eq_full": lambda x: x == cohdl.Full,
    "ne_full": lambda x: x != cohdl.Full,
    "invert": lambda x: ~x,
    "neg": lambda x: -x,
    "abs": lambda x: abs(x),
    "unsigned": lambda x: x.unsigned,
    "signed": lambda x: x.signed,
    "bitvector": lambda x: x.bitvector,
}


def conc(x, lo, hi):
    """force a (possibly symbolic) int to a concrete python int by case split over its range --
    cohdl dispatches through builtin descriptors / lazily created classes that need real ints"""
    for k in range(lo, hi + 1):
        if x == k:
            return k
    return x


def _rng(t: Ty, other: Ty | None = None):
    if t.kind == "int":
        return other.lo(), other.hi()
    if t.kind in ("Bit", "bool"):
        return 0, 1
    return t.lo(), t.hi()


def _bits_str(v, w):
    return "".join("1" if (v >> i) & 1 else "0" for i in range(w - 1, -1, -1))


def mk(t: Ty, m):
    """mathematical value -> cohdl compile-time object"""
    if t.kind == "U":
        return Unsigned[t.w](m)
    if t.kind == "S":
        return Signed[t.w](m)
    if t.kind == "BV":
        return BitVector[t.w](_bits_str(m, t.w))
    if t.kind == "Bit":
        return Bit(bool(m))
    if t.kind == "int":
        return m
    if t.kind == "bool":
        return bool(m)
    raise ValueError(t)


def classify(v):
    """cohdl object -> (Ty, mathematical value)"""
    if isinstance(v, bool):
        return SP.BOOL, (1 if v else 0)
    if isinstance(v, Unsigned):
        return SP.U(v.width), v.to_int()
    if isinstance(v, Signed):
        return SP.S(v.width), v.to_int()
    if isinstance(v, BitVector):
        return SP.BV(v.width), v.unsigned.to_int()
    if isinstance(v, Bit):
        return SP.BIT, (1 if v else 0)
    if isinstance(v, cohdl._core._boolean._Boolean):
        return SP.BOOL, (1 if v else 0)
    if isinstance(v, int):
        return SP.INTT, v
    return None, v


def eval_bin(name, ta: Ty, tb: Ty, a, b):
    """-> ('value', Ty, math) | ('exception', text)"""
    try:
        r = OPS[name](mk(ta, a), mk(tb, b))
    except (AssertionError, TypeError, ValueError, ZeroDivisionError, OverflowError) as e:
        return ("exception", f"{type(e).__name__}: {e}")
    t, m = classify(r)
    return ("value", t, m)


def expected_bin(name, ta, tb, a, b):
    tmpl, trule, vrule, nz = SP.BINOPS[name]
    tr = trule(ta, tb)
    want = vrule(PyP, a, b, ta, tb, tr)
    if isinstance(want, bool):
        want = 1 if want else 0
    return tr, want


def check_bin(name, ta: Ty, tb: Ty, a: int, b: int) -> bool:
    a = conc(a, *_rng(ta, tb))
    if name in ("shl", "shr") and tb.kind == "int":
        b = conc(b, 0, ta.w + 1)
    else:
        b = conc(b, *_rng(tb, ta))
    got = eval_bin(name, ta, tb, a, b)
    tr, want = expected_bin(name, ta, tb, a, b)
    if got[0] != "value":
        return False
    _, t, m = got
    if tr.kind == "bool":
        return t is not None and t.kind == "bool" and m == want
    return t == tr and m == want


def eval_un(name, ta: Ty, a):
    try:
        r = UOPS[name](mk(ta, a))
    except (AssertionError, TypeError, ValueError, ZeroDivisionError, OverflowError) as e:
        return ("exception", f"{type(e).__name__}: {e}")
    t, m = classify(r)
    return ("value", t, m)


def check_un(name, ta: Ty, a: int) -> bool:
    a = conc(a, *_rng(ta))
    tmpl, trule, vrule = SP.UNOPS[name]
    tr = trule(ta)
    want = vrule(PyP, a, ta, tr)
    got = eval_un(name, ta, a)
    if got[0] != "value":
        return False
    return got[1] == tr and got[2] == want


def check_index(ta: Ty, a: int, i: int) -> bool:
    a, i = conc(a, *_rng(ta)), conc(i, 0, ta.w - 1)
    v = mk(ta, a)[i]
    return isinstance(v, Bit) and (1 if v else 0) == ((SP._bits(PyP, a, ta) >> i) & 1)


def check_slice(ta: Ty, a: int, hi: int, lo: int) -> bool:
    a, hi, lo = conc(a, *_rng(ta)), conc(hi, 0, ta.w - 1), conc(lo, 0, ta.w - 1)
    v = mk(ta, a)[hi:lo]
    t, m = classify(v)
    return t == SP.BV(hi - lo + 1) and m == (SP._bits(PyP, a, ta) >> lo) % (1 << (hi - lo + 1))


def check_resize(ta: Ty, a: int, nw: int) -> bool:
    a, nw = conc(a, *_rng(ta)), conc(nw, ta.w, ta.w + 2)
    v = mk(ta, a).resize(nw)
    t, m = classify(v)
    return t == Ty(ta.kind, nw) and m == a
