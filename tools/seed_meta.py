#!/usr/bin/env python3
"""writes /verif/seeded/<id>/meta.json from note.txt (the sub-agent's description) and run.json (my own confirmation run)"""
import json, os, re, sys
ROOT = os.path.join(os.path.dirname(os.path.abspath(__file__)), "..", "seeded")
for sid in sorted(os.listdir(ROOT)):
    d = os.path.join(ROOT, sid)
    if not os.path.isfile(os.path.join(d, "patch.diff")):
        continue
    note = open(os.path.join(d, "note.txt")).read() if os.path.exists(os.path.join(d, "note.txt")) else ""
    run = json.load(open(os.path.join(d, "run.json"))) if os.path.exists(os.path.join(d, "run.json")) else {}
    paras = re.split(r"\n(?=(?:Change|Needed to manifest|Needs|Scenario|Wrong behaviour)\b)", note.strip())
    sect = {}
    for p in paras:
        m = re.match(r"(Change|Needed to manifest|Needs[^:]*|Scenario[^:]*|Wrong behaviour)\s*:?\s*(.*)", p, re.S)
        if m:
            sect.setdefault(m.group(1).split()[0].lower(), " ".join(m.group(2).split()))
    files = re.findall(r"^\+\+\+ b/(\S+)", open(os.path.join(d, "patch.diff")).read(), re.M)
    checks = run.get("checks")
    if isinstance(checks, str):  # older format " C01:exit1:viol14"
        checks = [{"check": c.split(":")[0], "exit": int(c.split(":")[1][4:]), "violations": int(c.split(":")[2][4:])} for c in checks.split()]
    caught = [c["check"] for c in (checks or []) if c.get("exit") == 1 and c.get("violations", 0) > 0]
    meta = {
        "seed": sid,
        "property_broken": sid.split("-")[0],
        "origin": "independent sub-agent given only the property text and a scratch worktree; change confirmed by me before it was kept",
        "files_changed": files,
        "change": sect.get("change", note.strip()[:400]),
        "needs_to_manifest": sect.get("needed") or sect.get("needs") or "",
        "scenario": sect.get("scenario") or sect.get("wrong") or "",
        "what_i_ran": [
            "demo.py on the clean tree (expected exit 0) and with patch.diff applied (expected exit 1), PYTHONPATH = scratch worktree",
            "baseline test suite with the patch applied (must still report 66 passed)",
            "bin/check <ID> (quick tier) against the patched tree",
        ],
        "confirmation": {k: run.get(k) for k in ("repo_head", "demo_clean_exit", "demo_patched_exit", "tests", "mode") if k in run},
        "check_results": checks or [],
        "caught_by": caught,
    }
    # remarks written by hand (e.g. a seed that an upstream repair made ineffective): seeded/<id>/remark.json {"remark": ..., "caught_by": [...]}
    rk = os.path.join(d, "remark.json")
    if os.path.exists(rk):
        r = json.load(open(rk))
        meta["remark"] = r.get("remark", "")
        if "caught_by" in r:
            meta["caught_by"] = caught = r["caught_by"]
    json.dump(meta, open(os.path.join(d, "meta.json"), "w"), indent=1)
    print(sid, "caught by", caught or "NOTHING", "| demo", run.get("demo_clean_exit"), run.get("demo_patched_exit"))
