"""Runs CrossHair (symbolic execution of Python with z3) over generated PEP316 harness functions,
several processes in parallel.  Only 'Confirmed over all paths' counts as held."""
from __future__ import annotations
import concurrent.futures as cf
import os
import re
import subprocess
import sys
import tempfile
import time

from .core import VERIF


def _run_file(path, per_cond, total_timeout):
    env = dict(os.environ)
    env["PYTHONPATH"] = VERIF + os.pathsep + env.get("PYTHONPATH", "")
    env["PYTHONHASHSEED"] = "0"
    cmd = [sys.executable, "-m", "crosshair", "check", "--report_all", "--per_condition_timeout", str(per_cond),
           "--per_path_timeout", str(max(2, per_cond // 4)), path]
    t = time.time()
    try:
        p = subprocess.run(cmd, capture_output=True, text=True, timeout=total_timeout, env=env)
        out = p.stdout + p.stderr
    except subprocess.TimeoutExpired as e:
        out = (e.stdout or b"").decode() if isinstance(e.stdout, bytes) else (e.stdout or "")
        out += "\nTIMEOUT"
    return path, out, time.time() - t


_LINE = re.compile(r"^(?P<file>[^:]+):(?P<line>\d+): (?P<kind>info|error|warning): (?P<msg>.*)$")


def run_functions(funcs: list[tuple[str, str]], prelude: str, *, per_cond=20, chunk=8, workers=None, tmpdir=None):
    """funcs: (name, source of one 'def name(...)' with PEP316 docstring).
    -> dict name -> (status, message); status in confirmed / counterexample / unknown"""
    workers = workers or min(16, os.cpu_count() or 4)
    own = tmpdir is None
    tmpdir = tmpdir or tempfile.mkdtemp(prefix="vfw_ch_")
    files = []
    line_map = {}
    for k in range(0, len(funcs), chunk):
        part = funcs[k:k + chunk]
        path = os.path.join(tmpdir, f"h_{k // chunk}.py")
        text = prelude + "\n"
        for name, src in part:
            start = text.count("\n") + 1
            text += src.rstrip() + "\n\n"
            end = text.count("\n")
            line_map[(path, name)] = (start, end)
        with open(path, "w") as f:
            f.write(text)
        files.append((path, part))
    results = {}
    wall = 0.0
    with cf.ThreadPoolExecutor(max_workers=workers) as ex:
        futs = [ex.submit(_run_file, path, per_cond, per_cond * len(part) + 60) for path, part in files]
        outs = {}
        for fu in futs:
            path, out, dt = fu.result()
            outs[path] = out
            wall += dt
    for path, part in files:
        out = outs[path]
        per_line = []
        for ln in out.splitlines():
            m = _LINE.match(ln.strip())
            if m and os.path.basename(m.group("file")) == os.path.basename(path):
                per_line.append((int(m.group("line")), m.group("kind"), m.group("msg")))
        for name, _ in part:
            s, e = line_map[(path, name)]
            msgs = [(k, m) for (l, k, m) in per_line if s <= l <= e]
            status, msg = "unknown", "no verdict: " + out[-300:].replace("\n", " | ")
            for k, m in msgs:
                if k == "error":
                    status, msg = "counterexample", m
                    break
                if "Confirmed over all paths" in m:
                    status, msg = "confirmed", m
                elif status != "confirmed":
                    status, msg = "unknown", m
            results[name] = (status, msg)
    if own:
        import shutil
        shutil.rmtree(tmpdir, ignore_errors=True)
    return results, wall
