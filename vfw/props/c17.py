"""C17 -- serialisation round-trips with the documented bit layout.
For a bank of serialisable type compositions T: z3 proves, for ALL bit patterns / field values,
to_bits(from_bits[T](b)) == b, from_bits[T](to_bits(x)) == x field by field, width ==
count_bits(T), and the documented layout (first record field / array element 0 at the LSBs);
BitField reads and writes touch exactly the declared range."""
from __future__ import annotations
from ..core import Reporter, Workdir
from ..cells import Cell, run_cells
from ..spec import Ty, U, S, BV, BIT, PyP
from .. import spec as SP

SETUP = '''
from cohdl.std.bitfield import BitField, Field
from cohdl import Array as RawArray


class C17R1(std.Record):
    a: Bit
    b: Unsigned[2]


class C17R2(std.Record):
    x: C17R1
    y: BitVector[2]
    z: Signed[2]


class C17R3(C17R1):
    c: Signed[2]


class C17W(int):
    pass


class C17Rt(std.Record[C17W]):
    p: BitVector[C17W]
    q: Bit


class C17Hdr(std.Record[C17W]):
    valid: Bit
    tag: Unsigned[C17W]


class C17Pkt(C17Hdr):
    data: Signed[C17W]
    last: Bit


class C17E(std.Enum[Unsigned[2]]):
    e0 = 0
    e1 = 1
    e2 = 2
    e3 = 3


class C17F(std.FlagEnum[BitVector[3]]):
    f0 = "001"
    f1 = "010"
    f2 = "100"


class C17Rb(std.Record):
    flag: bool
    e: C17E


class C17Ra(std.Record):
    arr: std.Array[Unsigned[2], 2]
    t: Bit


class C17BF(BitField[6]):
    lo: Field[0]
    mid: Field[3:1]
    hi: Field[5:4].Unsigned
    sg: Field[5:3].Signed


class C17BFO(BitField[8]):
    inner: C17BF[7:2]
    low: Field[1:0]


# two different bitfields of the same width used as sub-bitfields (offset form and range form)
class C17Ovl(BitField[8]):
    b0: Field[0]
    lo: Field[3:0]
    hi: Field[7:4]
    all: Field[7:0]


class C17Ctl(BitField[4]):
    en: Field[0]
    mode: Field[3:1].Unsigned


class C17Sta(BitField[4]):
    en: Field[3]
    mode: Field[2:0].Unsigned


class C17Reg(BitField[8]):
    ctl: C17Ctl[0]
    sta: C17Sta[7:4]


class C17Reg2(BitField[12]):
    raw: Field[3:0]
    sta: C17Sta[4]
    ctl: C17Ctl[8]
'''


def field(P, x, lo, w, signed=False):
    v = P.wrap(P.shr(x, lo), w, False)
    return P.wrap(v, w, True) if signed else v


# (type expression, total bits, [(access path, lsb, Ty)])   -- documented layout: first field / element 0 at the LSBs
TYPES = [
    ("Bit", 1, [("", 0, BIT)]),
    ("BitVector[3]", 3, [("", 0, BV(3))]),
    ("Unsigned[2]", 2, [("", 0, U(2))]),
    ("Signed[3]", 3, [("", 0, S(3))]),
    ("C17R1", 3, [(".a", 0, BIT), (".b", 1, U(2))]),
    ("C17R2", 7, [(".x.a", 0, BIT), (".x.b", 1, U(2)), (".y", 3, BV(2)), (".z", 5, S(2))]),
    ("C17R3", 5, [(".a", 0, BIT), (".b", 1, U(2)), (".c", 3, S(2))]),
    ("C17Rt[2]", 3, [(".p", 0, BV(2)), (".q", 2, BIT)]),
    ("C17Rt[4]", 5, [(".p", 0, BV(4)), (".q", 4, BIT)]),
    ("C17Hdr[2]", 3, [(".valid", 0, BIT), (".tag", 1, U(2))]),
    ("C17Pkt[2]", 6, [(".valid", 0, BIT), (".tag", 1, U(2)), (".data", 3, S(2)), (".last", 5, BIT)]),
    ("C17Pkt[3]", 8, [(".valid", 0, BIT), (".tag", 1, U(3)), (".data", 4, S(3)), (".last", 7, BIT)]),
    ("C17E", 2, [(".raw", 0, U(2))]),
    ("C17F", 3, [(".raw", 0, BV(3))]),
    ("C17Rb", 3, [(".flag", 0, Ty("bool")), (".e.raw", 1, U(2))]),
    ("std.Array[Unsigned[2], 3]", 6, [("[0]", 0, U(2)), ("[1]", 2, U(2)), ("[2]", 4, U(2))]),
    ("std.Array[C17R1, 2]", 6, [("[0].a", 0, BIT), ("[0].b", 1, U(2)), ("[1].a", 3, BIT), ("[1].b", 4, U(2))]),
    ("std.Array[std.Array[Bit, 2], 2]", 4, [("[0][0]", 0, BIT), ("[0][1]", 1, BIT), ("[1][0]", 2, BIT), ("[1][1]", 3, BIT)]),
    ("C17Ra", 5, [(".arr[0]", 0, U(2)), (".arr[1]", 2, U(2)), (".t", 4, BIT)]),
    ("std.SFixed[1:-1]", 3, [("._val", 0, S(3))]),
    ("std.UFixed[1:-2]", 4, [("._val", 0, U(4))]),
]


def w_of(t):
    return 1 if t.kind in ("Bit", "bool") else t.w


def cells():
    cs = []
    for tx, n, fields in TYPES:
        # width
        cs.append(Cell(f"count_bits|{tx}", [], U(6), f"{{o}} <<= std.count_bits({tx})", lambda P, n=n: P.const(n), setup=SETUP))
        # bits -> value -> bits
        cs.append(Cell(f"roundtrip-bits|{tx}", [("a", BV(n))], BV(n), f"{{o}} <<= std.to_bits(std.from_bits[{tx}]({{a}}))", lambda P, a: a, setup=SETUP))
        # layout: each field read from deserialised value
        for path, lsb, ft in fields:
            if path == "" and n == w_of(ft):
                src = f"std.from_bits[{tx}]({{a}})"
            else:
                src = f"std.from_bits[{tx}]({{a}}){path}"
            out_t = BIT if ft.kind == "bool" else ft
            cs.append(Cell(f"layout|{tx}|{path or 'self'}", [("a", BV(n))], out_t, f"{{o}} <<= {src}",
                           lambda P, a, lsb=lsb, ft=ft: field(P, a, lsb, w_of(ft), ft.kind == "S"), setup=SETUP))
    # value -> bits for records built from field values (documented concatenation) and back
    cs.append(Cell("to_bits|C17R1(fields)", [("a", BIT), ("b", U(2))], BV(3), "{o} <<= std.to_bits(C17R1({a}, {b}))", lambda P, a, b: a + b * 2, setup=SETUP))
    cs.append(Cell("to_bits|C17R1(kw)", [("a", BIT), ("b", U(2))], BV(3), "{o} <<= std.to_bits(C17R1(b={b}, a={a}))", lambda P, a, b: a + b * 2, setup=SETUP))
    cs.append(Cell("to_bits|C17R3(fields)", [("a", BIT), ("b", U(2)), ("c", S(2))], BV(5), "{o} <<= std.to_bits(C17R3({a}, {b}, {c}))",
                   lambda P, a, b, c: a + b * 2 + P.wrap(c, 2, False) * 8, setup=SETUP))
    cs.append(Cell("to_bits|C17R2(nested)", [("a", BIT), ("b", U(2)), ("y", BV(2)), ("z", S(2))], BV(7), "{o} <<= std.to_bits(C17R2(C17R1({a}, {b}), {y}, {z}))",
                   lambda P, a, b, y, z: a + b * 2 + y * 8 + P.wrap(z, 2, False) * 32, setup=SETUP))
    cs.append(Cell("roundtrip-value|C17R1.b", [("a", BIT), ("b", U(2))], U(2), "{o} <<= std.from_bits[C17R1](std.to_bits(C17R1({a}, {b}))).b", lambda P, a, b: b, setup=SETUP))
    cs.append(Cell("roundtrip-value|C17R3.c", [("a", BIT), ("b", U(2)), ("c", S(2))], S(2), "{o} <<= std.from_bits[C17R3](std.to_bits(C17R3({a}, {b}, {c}))).c", lambda P, a, b, c: c, setup=SETUP))
    cs.append(Cell("roundtrip-value|SFixed", [("a", S(3))], S(3), "{o} <<= std.from_bits[std.SFixed[1:-1]](std.to_bits(std.SFixed[1:-1](raw={a})))._val", lambda P, a: a, setup=SETUP))
    cs.append(Cell("roundtrip-value|Enum", [("a", U(2))], U(2), "{o} <<= std.from_bits[C17E](std.to_bits(std.from_bits[C17E]({a}.bitvector))).raw", lambda P, a: a, setup=SETUP))
    # Serialized[T]: wrapper around the serialised representation (from_raw / value / bits)
    cs.append(Cell("serialized|from_raw.value.b", [("a", BV(3))], U(2), "{o} <<= std.Serialized[C17R1].from_raw({a}).value().b", lambda P, a: field(P, a, 1, 2), setup=SETUP))
    cs.append(Cell("serialized|from_raw.bits", [("a", BV(3))], BV(3), "{o} <<= std.Serialized[C17R1].from_raw({a}).bits()", lambda P, a: a, setup=SETUP))
    cs.append(Cell("serialized|ctor.bits", [("a", BIT), ("b", U(2))], BV(3), "{o} <<= std.Serialized[C17R1](C17R1({a}, {b})).bits()", lambda P, a, b: a + b * 2, setup=SETUP))
    # copy construction from another Serialized keeps the raw bits
    cs.append(Cell("serialized|copy.bits|record", [("a", BV(3))], BV(3), "{o} <<= std.Serialized[C17R1](std.Serialized[C17R1].from_raw({a})).bits()", lambda P, a: a, setup=SETUP))
    cs.append(Cell("serialized|copy.value.b|record", [("a", BV(3))], U(2), "{o} <<= std.Serialized[C17R1](std.Serialized[C17R1].from_raw({a})).value().b", lambda P, a: field(P, a, 1, 2), setup=SETUP))
    cs.append(Cell("serialized|copy.bits|unsigned", [("a", U(3))], BV(3), "{o} <<= std.Serialized[Unsigned[3]](std.Serialized[Unsigned[3]]({a})).bits()", lambda P, a: a, setup=SETUP))
    cs.append(Cell("serialized|ctor.value.a", [("a", BIT), ("b", U(2))], BIT, "{o} <<= std.Serialized[C17R1](C17R1({a}, {b})).value().a", lambda P, a, b: a, setup=SETUP))
    # BitField: reads touch exactly the declared range
    n = 6
    for fname, lsb, ft in (("lo", 0, BIT), ("mid", 1, BV(3)), ("hi", 4, U(2)), ("sg", 3, S(3))):
        cs.append(Cell(f"bitfield-read|{fname}", [("a", BV(n))], ft, f"{{o}} <<= C17BF({{a}}).{fname}", lambda P, a, lsb=lsb, ft=ft: field(P, a, lsb, w_of(ft), ft.kind == "S"), setup=SETUP))
    cs.append(Cell("bitfield-read|nested.mid", [("a", BV(8))], BV(3), "{o} <<= C17BFO({a}).inner.mid", lambda P, a: field(P, a, 3, 3), setup=SETUP))
    for reg, n2, subs in (("C17Reg", 8, (("ctl", 0), ("sta", 4))), ("C17Reg2", 12, (("sta", 4), ("ctl", 8)))):
        for sub, off in subs:
            en_pos, mode_lo = (0, 1) if sub == "ctl" else (3, 0)
            cs.append(Cell(f"bitfield-read|{reg}.{sub}.en", [("a", BV(n2))], BIT, f"{{o}} <<= {reg}({{a}}).{sub}.en", lambda P, a, p=off + en_pos: field(P, a, p, 1), setup=SETUP))
            cs.append(Cell(f"bitfield-read|{reg}.{sub}.mode", [("a", BV(n2))], U(3), f"{{o}} <<= {reg}({{a}}).{sub}.mode", lambda P, a, p=off + mode_lo: field(P, a, p, 3), setup=SETUP))
        cs.append(Cell(f"bitfield-roundtrip|{reg}", [("a", BV(n2))], BV(n2), f"{{o}} <<= std.to_bits(std.from_bits[{reg}]({{a}}))", lambda P, a: a, setup=SETUP))
        cs.append(Cell(f"bitfield-count_bits|{reg}", [], U(6), f"{{o}} <<= std.count_bits({reg})", lambda P, n2=n2: P.const(n2), setup=SETUP))
    cs.append(Cell("bitfield-read|nested.low", [("a", BV(8))], BV(2), "{o} <<= C17BFO({a}).low", lambda P, a: field(P, a, 0, 2), setup=SETUP))
    return cs


# ---------------------------------------------------------------- generated type compositions
def gen_types(count, seed=0, max_bits=10, depth=3):
    """-> (setup text with the generated Record classes, [(type expression, bits, [(path, lsb, Ty)], value builder or None)])
    value builder: (inputs [(name, Ty)], expression with {name} holes) building a value of the type from leaf values
    (records / primitives / enums only), used for the value -> bits direction."""
    import random
    rng = random.Random(seed)
    classes = []
    out = []
    uid = [0]

    def prim(budget):
        k = rng.choice(["Bit", "BV", "U", "S"])
        if k == "Bit" or budget < 2:
            return ("Bit", 1, [("", 0, BIT)], True)
        w = rng.randint(1 if k != "S" else 2, min(budget, 4))
        return ({"BV": f"BitVector[{w}]", "U": f"Unsigned[{w}]", "S": f"Signed[{w}]"}[k], w, [("", 0, {"BV": BV, "U": U, "S": S}[k](w))], True)

    def gen(d, budget, in_record=False):
        choices = ["prim", "prim"]
        if in_record:
            choices.append("bool")
        if d > 0 and budget >= 2:
            choices += ["rec", "rec", "arr", "enum", "fix"]
        k = rng.choice(choices)
        if k == "bool":
            return ("bool", 1, [("", 0, Ty("bool"))], False)
        if k == "enum":
            if budget >= 3 and rng.random() < 0.5:
                return ("C17F", 3, [(".raw", 0, BV(3))], True)
            return ("C17E", 2, [(".raw", 0, U(2))], True)
        if k == "fix" and budget >= 3:
            l, r = rng.choice([(1, -1), (0, -2), (2, 0), (1, 0), (-1, -3)])
            if rng.random() < 0.5:
                return (f"std.SFixed[{l}:{r}]", l - r + 1, [("._val", 0, S(l - r + 1))], True)
            if l - r + 1 <= budget and l >= 0:
                return (f"std.UFixed[{l}:{r}]", l - r + 1, [("._val", 0, U(l - r + 1))], True)
        if k == "arr":
            n = rng.randint(2, 3)
            e = gen(d - 1, max(1, budget // n))
            if e[0] == "bool" or e[1] * n > budget:
                return prim(budget)
            # operator [] is documented for trivially serialisable element types only, get_elem for the others
            fields = [((f"[{i}]" if e[3] else f".get_elem({i})" if e[0].startswith("std.Array") else f".get_elem({i}, std.Value)") + p, i * e[1] + lsb, ft) for i in range(n) for p, lsb, ft in e[2]]
            return (f"std.Array[{e[0]}, {n}]", e[1] * n, fields, False)
        if k == "rec":
            nf = rng.randint(1, 3)
            fs = []
            left = budget
            for i in range(nf):
                if left < 1:
                    break
                f = gen(d - 1, max(1, left - (nf - i - 1)), in_record=True)
                if f[1] > left:
                    f = ("Bit", 1, [("", 0, BIT)], True)
                fs.append(f)
                left -= f[1]
            uid[0] += 1
            name = f"C17G{seed}_{uid[0]}"
            base = ""
            # sometimes derive from an earlier generated record (inheritance: base fields first)
            classes.append(f"class {name}(std.Record):\n" + "".join(f"    f{i}: {f[0]}\n" for i, f in enumerate(fs)))
            fields, off = [], 0
            for i, f in enumerate(fs):
                fields += [(f".f{i}{p}", off + lsb, ft) for p, lsb, ft in f[2]]
                off += f[1]
            return (name, off, fields, all(f[3] for f in fs))
        return prim(budget)

    seen = set()
    tries = 0
    while len(out) < count and tries < count * 30:
        tries += 1
        uid_before = len(classes)
        t = gen(depth, rng.randint(3, max_bits))
        if t[0] in seen or t[0] in ("Bit",) or t[1] > max_bits or t[0].startswith(("BitVector", "Unsigned", "Signed")):
            del classes[uid_before:]
            continue
        seen.add(t[0])
        out.append(t[:3])
    return "\n\n".join(classes) + "\n", out


def generated_cells(count, seed=0, max_bits=10):
    extra, types = gen_types(count, seed, max_bits)
    setup = SETUP + "\n\n" + extra
    cs = []
    for tx, n, fields in types:
        cs.append(Cell(f"gen|count_bits|{tx}", [], U(6), f"{{o}} <<= std.count_bits({tx})", lambda P, n=n: P.const(n), setup=setup))
        cs.append(Cell(f"gen|roundtrip-bits|{tx}", [("a", BV(n))], BV(n), f"{{o}} <<= std.to_bits(std.from_bits[{tx}]({{a}}))", lambda P, a: a, setup=setup))
        for path, lsb, ft in fields:
            out_t = BIT if ft.kind == "bool" else ft
            cs.append(Cell(f"gen|layout|{tx}|{path or 'self'}", [("a", BV(n))], out_t, f"{{o}} <<= std.from_bits[{tx}]({{a}}){path}",
                           lambda P, a, lsb=lsb, ft=ft: field(P, a, lsb, w_of(ft), ft.kind == "S"), setup=setup))
        # serialise through a Signal of the type (qualified aggregate) and through Serialized[T]
        cs.append(Cell(f"gen|serialized|{tx}", [("a", BV(n))], BV(n), f"{{o}} <<= std.Serialized[{tx}].from_raw({{a}}).bits()", lambda P, a: a, setup=setup))
        cs.append(Cell(f"gen|serialized-value|{tx}", [("a", BV(n))], BV(n), f"{{o}} <<= std.to_bits(std.Serialized[{tx}].from_raw({{a}}).value())", lambda P, a: a, setup=setup))
    return cs, types


def write_cells():
    """BitField writes (clocked: a local signal is wrapped, one field written, whole vector observed)"""
    cs = []

    def setb(P, bits, hi, lo, val, w):
        mask = ((1 << (hi - lo + 1)) - 1) << lo
        keep = ((1 << w) - 1) & ~mask
        return P.bor(P.band(bits, P.const(keep)), P.shl(P.band(val, P.const((1 << (hi - lo + 1)) - 1)), lo))

    for fname, hi, lo, ft in (("lo", 0, 0, BIT), ("mid", 3, 1, BV(3)), ("hi", 5, 4, U(2))):
        body = (f"{{o}} <<= {{z}}\nC17BF({{o}}).{fname} <<= {{v}}")
        cs.append(Cell(f"bitfield-write|{fname}", [("z", BV(6)), ("v", ft)], BV(6), body,
                       lambda P, z, v, hi=hi, lo=lo: setb(P, z, hi, lo, v, 6), setup=SETUP))
    for sub, off, en_pos, mode_lo in (("ctl", 0, 0, 1), ("sta", 4, 3, 0)):
        cs.append(Cell(f"bitfield-write|C17Reg.{sub}.en", [("z", BV(8)), ("v", BIT)], BV(8), f"{{o}} <<= {{z}}\nC17Reg({{o}}).{sub}.en <<= {{v}}",
                       lambda P, z, v, p=off + en_pos: setb(P, z, p, p, v, 8), setup=SETUP))
        cs.append(Cell(f"bitfield-write|C17Reg.{sub}.mode", [("z", BV(8)), ("v", U(3))], BV(8), f"{{o}} <<= {{z}}\nC17Reg({{o}}).{sub}.mode <<= {{v}}",
                       lambda P, z, v, p=off + mode_lo: setb(P, z, p + 2, p, v, 8), setup=SETUP))
    # value semantics: to_bits / from_bits results are snapshots (new objects), not live views of their source
    cs.append(Cell("snapshot|to_bits(SFixed variable)", [("a", BV(3)), ("b", BV(3))], BV(3),
                   "c17acc = std.from_bits[std.SFixed[1:-1]]({a}, std.Variable)\nc17snap = std.to_bits(c17acc)\nc17acc @= std.from_bits[std.SFixed[1:-1]]({b})\n{o} <<= c17snap", lambda P, a, b: a, setup=SETUP))
    cs.append(Cell("snapshot|to_bits(UFixed variable)", [("a", BV(4)), ("b", BV(4))], BV(4),
                   "c17acc = std.from_bits[std.UFixed[1:-2]]({a}, std.Variable)\nc17snap = std.to_bits(c17acc)\nc17acc @= std.from_bits[std.UFixed[1:-2]]({b})\n{o} <<= c17snap", lambda P, a, b: a, setup=SETUP))
    cs.append(Cell("snapshot|to_bits(record variable)", [("a", BV(3)), ("b", BV(3))], BV(3),
                   "c17r = std.from_bits[C17R1]({a}, std.Variable)\nc17snap = std.to_bits(c17r)\nc17r @= std.from_bits[C17R1]({b})\n{o} <<= c17snap", lambda P, a, b: a, setup=SETUP))
    cs.append(Cell("snapshot|from_bits(raw variable)", [("a", BV(3)), ("b", BV(3))], BV(3),
                   "c17raw = std.Variable[BitVector[3]]({a})\nc17rec = std.from_bits[C17R1](c17raw)\nc17raw @= {b}\n{o} <<= std.to_bits(c17rec)", lambda P, a, b: a, setup=SETUP))
    cs.append(Cell("snapshot|from_bits(raw variable, std.Variable) is a private copy", [("a", BV(3)), ("b", BIT)], BV(3),
                   "c17raw = std.Variable[BitVector[3]]({a})\nc17work = std.from_bits[C17R1](c17raw, std.Variable)\nc17work.a @= {b}\n{o} <<= c17raw", lambda P, a, b: a, setup=SETUP))
    cs.append(Cell("snapshot|from_bits(raw variable, std.Variable) keeps its own value", [("a", BV(3)), ("b", BV(3))], BIT,
                   "c17raw = std.Variable[BitVector[3]]({a})\nc17work = std.from_bits[C17R1](c17raw, std.Variable)\nc17raw @= {b}\n{o} <<= c17work.a", lambda P, a, b: field(P, a, 0, 1), setup=SETUP))
    # ... also for bare vectors and enums held in variables
    for tk, tsrc in (("BitVector", "BitVector[3]"), ("Unsigned", "Unsigned[3]"), ("Signed", "Signed[3]")):
        view = {"BitVector": "", "Unsigned": ".unsigned", "Signed": ".signed"}[tk]
        cs.append(Cell(f"snapshot|to_bits({tk} variable)", [("a", BV(3)), ("b", BV(3))], BV(3),
                       f"c17v = std.Variable[{tsrc}]({{a}}{view})\nc17snap = std.to_bits(c17v)\nc17v @= {{b}}{view}\n{{o}} <<= c17snap", lambda P, a, b: a, setup=SETUP))
    cs.append(Cell("snapshot|to_bits(enum variable)", [("a", BV(2)), ("b", BV(2))], BV(2),
                   "c17e = std.from_bits[C17E]({a}, std.Variable)\nc17snap = std.to_bits(c17e)\nc17e @= std.from_bits[C17E]({b})\n{o} <<= c17snap", lambda P, a, b: a, setup=SETUP))
    # dict form of a BitField assignment: entries are applied in the order of the dict (later entries win on overlapping fields)
    cs.append(Cell("bitfield-write|dict form, overlapping fields", [("a", BV(8)), ("n", BV(4)), ("t", BIT)], BV(8),
                   '{o} <<= Null\nc17bf = C17Ovl({o})\nc17bf <<= {{"all": {a}, "lo": {n}, "b0": {t}}}',
                   lambda P, a, n, t: setb(P, setb(P, a, 3, 0, n, 8), 0, 0, t, 8), setup=SETUP))
    cs.append(Cell("bitfield-write|dict form, other order", [("a", BV(8)), ("n", BV(4)), ("t", BIT)], BV(8),
                   '{o} <<= Null\nc17bf = C17Ovl({o})\nc17bf <<= {{"b0": {t}, "lo": {n}, "hi": {a}[7:4]}}',
                   lambda P, a, n, t: setb(P, setb(P, P.const(0), 7, 4, P.shr(a, 4), 8), 3, 0, n, 8), setup=SETUP))
    # a qualified BitField: nested fields address the bits of the one register
    cs.append(Cell("bitfield-signal|nested write", [("z", BV(8)), ("v", BV(3))], BV(8),
                   "c17reg = std.Signal[C17BFO]({z})\nc17reg.inner.mid <<= {v}\n{o} <<= std.to_bits(c17reg)", lambda P, z, v: z, setup=SETUP, note="signal assignment: old value this step"))
    return cs


def write2_cells():
    """two clocks: a BitField with the Signal qualifier declared in the architecture, written through nested fields"""
    cs = []
    loc = "c17g{cellno} = std.Signal[C17BFO]()"
    cs.append(Cell("bitfield-signal|nested field write reaches the register", [("v", BV(3)), ("w", BV(2))], BV(3),
                   "c17g{cellno}.inner.mid <<= {v}\nc17g{cellno}.low <<= {w}\n{o} <<= std.to_bits(c17g{cellno})[5:3]", lambda P, v, w: v, setup=SETUP, local=loc))
    cs.append(Cell("bitfield-signal|nested field read back", [("v", BV(3)), ("w", BV(2))], BV(3),
                   "c17g{cellno}.inner.mid <<= {v}\nc17g{cellno}.low <<= {w}\n{o} <<= c17g{cellno}.inner.mid", lambda P, v, w: v, setup=SETUP, local=loc))
    cs.append(Cell("bitfield-signal|flat field next to nested", [("v", BV(3)), ("w", BV(2))], BV(2),
                   "c17g{cellno}.inner.mid <<= {v}\nc17g{cellno}.low <<= {w}\n{o} <<= std.to_bits(c17g{cellno})[1:0]", lambda P, v, w: w, setup=SETUP, local=loc))
    return cs


def run(tier: str) -> int:
    rep = Reporter("C17", tier, "translation_validation")
    wd = Workdir()
    counts = {}
    try:
        import random
        from ..cells import constify
        base = cells()
        gen, gtypes = [], []
        for sd in range(1 if tier == "quick" else 6):
            g, t = generated_cells(40 if tier == "quick" else 60, seed=sd, max_bits=10 if tier == "quick" else 12)
            gen += g
            gtypes += t
        # compile-time twins: the same cells with literal inputs (the compiler folds from_bits / to_bits / field access itself)
        rng = random.Random(17)
        twins = []
        for c in base + gen:
            if c.key.startswith(("roundtrip-bits", "layout", "gen|roundtrip-bits", "gen|layout", "to_bits", "bitfield-read")):
                twins += constify(c, 16 if tier == "quick" else 64, rng)[: 2 if tier == "quick" else 8]
        jobs = [("concurrent", base), ("concurrent", gen), ("concurrent", twins), ("clocked", write_cells()), ("clocked2", write2_cells())]
        total = 0
        for ctx, cs in jobs:
            total += len(cs)
            for k in range(0, len(cs), 25):
                for res in run_cells(rep, wd, cs[k:k + 25], ctx, timeout_ms=60000):
                    counts[res.status] = counts.get(res.status, 0) + 1
                    key = res.cell.key
                    if res.status == "ok":
                        rep.stats.nontrivial.add(key)
                        if len(rep.stats.samples) < 4 and key.startswith(("layout|C17R2", "roundtrip-bits|std.Array[C17R1", "bitfield-write")):
                            rep.stats.sample({"cell": key, "body": res.cell.body, "verdict": "unsat for all bit patterns"})
                    elif res.status == "mismatch":
                        rep.violation(key, f"{key}: bits/fields {res.detail['inputs_math']} -> got {res.detail['got_bits']}, documented layout gives {res.detail['want_bits']}", res.detail)
                    elif res.status == "rejected":
                        rep.violation(key + "|rejected", f"{key} rejected: {res.detail}", {"detail": res.detail, "body": res.cell.body})
                    elif res.status == "illegal":
                        rep.violation(key + "|illegal", f"{key}: emitted VHDL illegal: {res.detail['msg']}", res.detail)
                    elif res.status != "vacuous":
                        rep.inconclusive_query(f"{key}: {res.detail}")
        rep.stats.units |= {"cohdl.std._core_utility.count_bits/to_bits/_FromBits", "cohdl.std._record.Record._to_bits_/_from_bits_", "cohdl.std.utility.Array / Serialized",
                            "cohdl.std.enum.Enum/FlagEnum", "cohdl.std._fixed._from_bits_/_to_bits_", "cohdl.std.bitfield.BitField/Field"}
        rep.assumptions += ["type bank: primitives, records (nested / inherited / templated / with bool and enum fields / with array field), std.Array incl. nested and of records, Enum, FlagEnum, SFixed/UFixed, Serialized[T], BitField incl. nested; total width <= 8 bits",
                            "generated type bank (gen_types): records of 1-3 fields, std.Array of 2-3 elements, enums, fixed point, bool fields, nesting depth <= 3, total width <= 10 bits (12 thorough); element access `[i]` for trivially serialisable elements, get_elem otherwise (documented restriction)",
                            "compile-time side: twins of the round-trip / layout cells with literal bit patterns (2 per cell quick, 8 thorough; corners first) -- these are concrete evaluations of the folding path, not a solver claim over all patterns"]
        return rep.finish({
            "programs": rep.stats.programs, "cells": total, "generated_types": len(gtypes), "compile_time_twins": len(twins), "cell_results": counts,
            "disagreements_checked": len(rep.violations) + len(rep.known_hits),
            "distinct_nontrivial": len(rep.stats.nontrivial), "evaluations": total,
            "rule": "one cell = type composition x obligation (width, round trip, layout of one field, field write)",
            "samples": rep.stats.samples or [{"cell": "roundtrip-bits|C17R1"}],
        })
    finally:
        wd.close()
