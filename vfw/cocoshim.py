"""Minimal cocotb look-alike on top of the concrete mode of the VHDL interpreter (vhdl_sim.Sim).

Purpose (DESIGN 2.8): the upstream benches under /repo/tests/reference_builds were validated by their authors with
ghdl + cocotb, neither of which exists here.  Running the same bench coroutines against *my* interpreter of the
emitted text validates the interpreter (the trusted base of every E-VHDL check) against expectations that were
established with a real simulator, and re-runs the 190 upstream tests that cannot run in this sandbox.

Only the API surface the benches use is provided: cocotb.test, cocotb.start_soon, cocotb.clock.Clock,
cocotb.triggers.{Timer, RisingEdge, FallingEdge, Edge, ClockCycles, First, Combine}, cocotb.binary.BinaryValue,
handles with .value (deposit at the end of the time step, like cocotb's ReadWrite phase).

Scheduling model: integer time in fs.  At one time point: run every runnable coroutine until it awaits; apply the
deposited values in one interpreter instant (delta cycles to the fixed point); fire edge triggers of signals that
changed; repeat until nothing is runnable; advance to the next timer."""
from __future__ import annotations
import heapq
import itertools
import sys
import types

from . import vhdl_sim as VS
from .vhdl_types import TVec, TStd, TArr, TEnum, TBool, TInt, V

UNITS = {"fs": 1, "ps": 10 ** 3, "ns": 10 ** 6, "us": 10 ** 9, "ms": 10 ** 12, "sec": 10 ** 15, "step": 1, None: 1}


class SimTimeout(Exception):
    pass


class TestFailure(Exception):
    pass


# ------------------------------------------------------------------ values
class BinaryValue:
    def __init__(self, value=0, n_bits=None, bigEndian=False, binaryRepresentation=None):
        if isinstance(value, str):
            n_bits = n_bits or len(value)
            value = int(value, 2) if value else 0
        self._w = n_bits if n_bits is not None else max(1, int(value).bit_length())
        self._v = int(value) & ((1 << self._w) - 1)

    @property
    def integer(self):
        return self._v

    value = integer

    @property
    def signed_integer(self):
        return self._v - (1 << self._w) if self._v >> (self._w - 1) else self._v

    def get_value_signed(self):
        return self.signed_integer

    def get_value(self):
        return self._v

    @property
    def binstr(self):
        return format(self._v, f"0{self._w}b")

    @property
    def n_bits(self):
        return self._w

    @property
    def is_resolvable(self):
        return True

    def __int__(self):
        return self._v

    __index__ = __int__

    def __bool__(self):
        return self._v != 0

    def __len__(self):
        return self._w

    def __eq__(self, o):
        if isinstance(o, BinaryValue):
            return self._v == o._v
        if isinstance(o, bool):
            return self._v == int(o)
        if isinstance(o, int):
            return self._v == o
        if isinstance(o, str):
            return self.binstr == o or (set(o) <= {"0", "1"} and int(o, 2) == self._v and len(o) == self._w)
        return NotImplemented

    def __ne__(self, o):
        r = self.__eq__(o)
        return r if r is NotImplemented else not r

    def __hash__(self):
        return hash(self._v)

    def __lt__(self, o): return self._v < int(o)
    def __le__(self, o): return self._v <= int(o)
    def __gt__(self, o): return self._v > int(o)
    def __ge__(self, o): return self._v >= int(o)
    def __add__(self, o): return self._v + int(o)
    def __radd__(self, o): return int(o) + self._v
    def __sub__(self, o): return self._v - int(o)
    def __rsub__(self, o): return int(o) - self._v
    def __and__(self, o): return self._v & int(o)
    def __or__(self, o): return self._v | int(o)
    def __xor__(self, o): return self._v ^ int(o)
    def __invert__(self): return (~self._v) & ((1 << self._w) - 1)
    def __lshift__(self, o): return self._v << int(o)
    def __rshift__(self, o): return self._v >> int(o)
    def __mul__(self, o): return self._v * int(o)

    def __getitem__(self, k):
        # cocotb BinaryValue indexes the binstr (index 0 = leftmost for little-endian descending ranges)
        s = self.binstr
        if isinstance(k, slice):
            sub = s[k.start:(k.stop + 1) if k.stop is not None else None]
            return BinaryValue(sub, len(sub))
        return BinaryValue(s[k], 1)

    def __repr__(self):
        return self.binstr

    __str__ = __repr__


# ------------------------------------------------------------------ triggers
class Trigger:
    def __await__(self):
        return (yield self)


class Timer(Trigger):
    def __init__(self, time=1, units="step", **kw):
        units = kw.get("unit", units)
        self.fs = max(1, int(round(time * UNITS[units])))


class _EdgeBase(Trigger):
    kind = "edge"

    def __init__(self, handle):
        self.handle = handle


class RisingEdge(_EdgeBase):
    kind = "rising"


class FallingEdge(_EdgeBase):
    kind = "falling"


class Edge(_EdgeBase):
    kind = "edge"


class ClockCycles(Trigger):
    def __init__(self, handle, num_cycles, rising=True):
        self.handle, self.n, self.rising = handle, num_cycles, rising

    def __await__(self):
        for _ in range(self.n):
            yield (RisingEdge if self.rising else FallingEdge)(self.handle)


class NullTrigger(Trigger):
    pass


class ReadOnly(Trigger):
    pass


class ReadWrite(Trigger):
    pass


class NextTimeStep(Trigger):
    pass


class First(Trigger):
    def __init__(self, *triggers):
        self.triggers = triggers


class Combine(Trigger):
    def __init__(self, *triggers):
        self.triggers = triggers


class Join(Trigger):
    def __init__(self, task):
        self.task = task


class Task:
    def __init__(self, coro, sched):
        self.coro, self.sched = coro, sched
        self.done = False
        self.result = None
        self.exc = None
        self.waiters = []

    def __await__(self):
        if not self.done:
            yield Join(self)
        if self.exc is not None:
            raise self.exc
        return self.result

    def join(self):
        return Join(self)

    def kill(self):
        self.done = True
        try:
            self.coro.close()
        except Exception:
            pass

    cancel = kill


class Clock:
    def __init__(self, signal, period, units="step", **kw):
        units = kw.get("unit", units)
        self.signal = signal
        self.half = max(1, int(round(period * UNITS[units])) // 2)
        self.period_fs = 2 * self.half

    async def start(self, cycles=None, start_high=True):
        it = itertools.count() if cycles is None else range(cycles)
        for _ in it:
            self.signal.value = 1 if start_high else 0
            await Timer(self.half, "fs")
            self.signal.value = 0 if start_high else 1
            await Timer(self.half, "fs")


# ------------------------------------------------------------------ handles
class Handle:
    def __init__(self, sched, flat, name):
        object.__setattr__(self, "_sched", sched)
        object.__setattr__(self, "_flat", flat)
        object.__setattr__(self, "_name", name)

    def _type(self):
        return self._sched.sim.sig_t[self._flat]

    @property
    def value(self):
        v = self._sched.sim.sig[self._flat]
        return _to_binary(v)

    @value.setter
    def value(self, val):
        self._sched.deposit(self._flat, _to_payload(val, self._type()))

    def setimmediatevalue(self, val):
        self.value = val

    def get_definition_name(self):
        return self._name

    _name_ = property(lambda self: self._name)

    def __len__(self):
        t = self._type()
        return t.width if isinstance(t, TVec) else 1

    def __le__(self, val):  # deprecated cocotb assignment syntax
        self.value = val

    # cocotb 1.x handles compare / convert through their value
    def __eq__(self, other):
        if isinstance(other, Handle):
            return self is other
        return self.value == other

    def __ne__(self, other):
        r = self.__eq__(other)
        return r if r is NotImplemented else not r

    def __hash__(self):
        return id(self)

    def __int__(self):
        return int(self.value)

    def __index__(self):
        return int(self.value)

    def __bool__(self):
        return bool(self.value)

    def __str__(self):
        return str(self.value)

    def __getitem__(self, i):
        return _IndexHandle(self, i)

    def __iter__(self):
        return iter([_IndexHandle(self, i) for i in range(len(self))])


class _IndexHandle:
    """dut.sig[i]: element i of a vector in VHDL index terms (descending range ending at 0) / of an array"""

    def __init__(self, parent, i):
        self.p, self.i = parent, i

    @property
    def value(self):
        t = self.p._type()
        cur = self.p._sched.sim.sig[self.p._flat]
        if isinstance(t, TArr):
            return _to_binary(cur.x[self.i - t.lo])
        return BinaryValue((int(cur.x) >> t.pos(self.i)) & 1, 1)

    @value.setter
    def value(self, val):
        t = self.p._type()
        cur = self.p._sched.pending.get(self.p._flat, self.p._sched.sim.sig[self.p._flat].x)
        if isinstance(t, TArr):
            raise NotImplementedError("deposit on array element")
        b = _to_payload(val, TStd())
        pos = t.pos(self.i)
        self.p._sched.deposit(self.p._flat, (int(cur) & ~(1 << pos)) | (b << pos))

    def __eq__(self, o):
        return self.value == o

    def __int__(self):
        return int(self.value)

    def __bool__(self):
        return bool(self.value)


def _to_binary(v):
    t = v.t
    if isinstance(t, TVec):
        return BinaryValue(int(v.x), t.width)
    if isinstance(t, TStd):
        return BinaryValue(int(v.x), 1)
    if isinstance(t, TBool):
        return BinaryValue(1 if v.x else 0, 1)
    if isinstance(t, TEnum):
        return BinaryValue(int(v.x), max(1, (len(t.lits) - 1).bit_length()))
    if isinstance(t, TInt):
        x = int(v.x)
        return x - (1 << 32) if x >> 31 else x
    if isinstance(t, TArr):
        return [_to_binary(e) for e in v.x]
    raise TypeError(t)


def _to_payload(val, t):
    if hasattr(val, "value") and not isinstance(val, BinaryValue) and not isinstance(val, (int, str)):
        val = val.value  # ConstraindValue and friends
    if isinstance(val, BinaryValue):
        val = val.integer
    if isinstance(val, str):
        val = int(val, 2)
    if isinstance(val, bool):
        val = int(val)
    w = t.width if isinstance(t, TVec) else (32 if isinstance(t, TInt) else 1)
    return int(val) & ((1 << w) - 1)


class Dut:
    def __init__(self, sched, name):
        object.__setattr__(self, "_sched", sched)
        object.__setattr__(self, "_name", name)
        object.__setattr__(self, "_cache", {})

    def __getattr__(self, n):
        c = self._cache
        if n not in c:
            flat = n.lower()
            if flat not in self._sched.sim.sig:
                raise AttributeError(f"{self._name} has no signal {n}")
            c[n] = Handle(self._sched, flat, n)
        return c[n]

    def __setattr__(self, n, val):
        # `dut.x = v` is an error in cocotb as well; benches use .value
        raise AttributeError("assign through .value")

    def _log(self, *a, **k):
        pass


# ------------------------------------------------------------------ scheduler
class Scheduler:
    def __init__(self, lib, top, max_instants=400000, input_init=0):
        self.input_init = input_init  # stand-in for 'U' on inputs the bench has not driven yet: 0 -> zeros, 1 -> all ones
        self.sim = VS.Sim(lib, top=top, uninit="zero")
        self.time = 0
        self.q = []  # (time, seq, task)
        self.seq = itertools.count()
        self.ready = []
        self.pending = {}
        self.edge_waiters = []  # (flat, kind, task, group)
        self.elaborated = False
        self.instants = 0
        self.max_instants = max_instants
        self.failure = None

    # -- api used by handles / cocotb module
    def deposit(self, flat, payload):
        self.pending[flat] = payload

    def start_soon(self, coro):
        if isinstance(coro, Task):
            return coro
        t = Task(coro if hasattr(coro, "send") else coro.__await__(), self)
        self.ready.append((t, None))
        return t

    # -- running
    def _step_task(self, task, value):
        if task.done:
            return
        try:
            trig = task.coro.send(value)
        except StopIteration as e:
            task.done, task.result = True, e.value
            for w in task.waiters:
                self.ready.append((w, None))
            task.waiters = []
            return
        except BaseException as e:
            task.done, task.exc = True, e
            if task.waiters:
                for w in task.waiters:
                    self.ready.append((w, None))
                task.waiters = []
            else:
                self.failure = self.failure or e
            return
        self._arm(task, trig)

    def _arm(self, task, trig, group=None):
        if isinstance(trig, Timer):
            heapq.heappush(self.q, (self.time + trig.fs, next(self.seq), task, group))
        elif isinstance(trig, _EdgeBase):
            self.edge_waiters.append((trig.handle._flat, trig.kind, task, group))
        elif isinstance(trig, (NullTrigger, ReadOnly, ReadWrite, NextTimeStep)):
            if isinstance(trig, NextTimeStep):
                heapq.heappush(self.q, (self.time + 1, next(self.seq), task, group))
            else:
                self.ready_late.append((task, group))
        elif isinstance(trig, Join):
            if trig.task.done:
                self.ready.append((task, None))
            else:
                trig.task.waiters.append(task)
        elif isinstance(trig, Task):
            if trig.done:
                self.ready.append((task, None))
            else:
                trig.waiters.append(task)
        elif isinstance(trig, First):
            g = {"fired": False}
            for t in trig.triggers:
                self._arm(task, t, g)
        elif hasattr(trig, "send") or hasattr(trig, "__await__"):
            sub = self.start_soon(trig)
            sub.waiters.append(task)
        else:
            raise TypeError(f"unsupported trigger {trig!r}")

    def _wake(self, task, group):
        if group is not None:
            if group["fired"]:
                return
            group["fired"] = True
        self.ready.append((task, None))

    def _apply(self):
        """deposit pending values; fire edge triggers"""
        if not self.elaborated:
            ins = {k: (0 if not self.input_init else (1 << (self.sim.sig_t[k].width if isinstance(self.sim.sig_t[k], TVec) else 1)) - 1) for k in self.sim.inputs}
            ins.update({k: v for k, v in self.pending.items() if k in self.sim.inputs})
            before = {}
            self.sim.elaborate(ins)
            self.elaborated = True
            changed = {k: (None, v) for k, v in self.pending.items()}
            self.pending = {}
        else:
            writes = {k: v for k, v in self.pending.items() if k in self.sim.inputs}
            others = {k: v for k, v in self.pending.items() if k not in self.sim.inputs}
            self.pending = {}
            watched = {f for f, _, _, _ in self.edge_waiters}
            before = {f: self.sim.sig[f].x for f in watched}
            for k, v in others.items():  # deposit on an internal signal / output: set the current value
                self.sim.sig[k] = V(self.sim.sig_t[k], v)
            self.sim.instant(writes)
            changed = {f: (before[f], self.sim.sig[f].x) for f in watched if self.sim.sig[f].x != before[f]}
        self.instants += 1
        if self.instants > self.max_instants:
            raise SimTimeout(f"more than {self.max_instants} simulation instants")
        if not changed:
            return
        keep = []
        for flat, kind, task, group in self.edge_waiters:
            if flat in changed:
                old, new = changed[flat]
                if kind == "edge" or (kind == "rising" and new == 1) or (kind == "falling" and new == 0 and old is not None):
                    self._wake(task, group)
                    continue
            keep.append((flat, kind, task, group))
        self.edge_waiters = keep

    def run(self, main_task, time_limit_fs=None):
        self.ready_late = []
        while True:
            # all runnable coroutines of this time point
            while self.ready or self.pending or self.ready_late or not self.elaborated:
                while self.ready:
                    task, val = self.ready.pop(0)
                    self._step_task(task, val)
                    if self.failure is not None:
                        raise self.failure
                    if main_task.done:
                        if main_task.exc is not None:
                            raise main_task.exc
                        return main_task.result
                if self.pending or not self.elaborated:
                    self._apply()
                    continue
                if self.ready_late:
                    self.ready, self.ready_late = [(t, None) for t, g in self.ready_late], []
            if not self.q:
                raise SimTimeout("no pending trigger: test coroutine blocked forever")
            t = self.q[0][0]
            if time_limit_fs is not None and t > time_limit_fs:
                raise SimTimeout("simulated time limit")
            self.time = t
            while self.q and self.q[0][0] == t:
                _, _, task, group = heapq.heappop(self.q)
                self._wake(task, group)


# ------------------------------------------------------------------ fake modules
_current = {"sched": None}


def install():
    """puts fake cocotb / cocotb_test modules into sys.modules (idempotent)"""
    if "cocotb" in sys.modules and getattr(sys.modules["cocotb"], "_vfw_shim", False):
        return sys.modules["cocotb"]
    names = ["cocotb", "cocotb.clock", "cocotb.triggers", "cocotb.binary", "cocotb.types", "cocotb.handle", "cocotb.utils", "cocotb.result", "cocotb_test", "cocotb_test.simulator", "cocotb.regression", "cocotb.log"]
    mods = {n: types.ModuleType(n) for n in names}
    for n, m in mods.items():
        sys.modules[n] = m
    c = mods["cocotb"]
    c._vfw_shim = True
    c.TESTS = []

    def test(*dargs, **dkw):
        def deco(f):
            f._cocotb_test = True
            f._cocotb_kw = dkw
            return f
        if len(dargs) == 1 and callable(dargs[0]) and not dkw:
            return deco(dargs[0])
        return deco

    c.test = test
    c.start_soon = lambda coro: _current["sched"].start_soon(coro)
    c.start = lambda coro: _current["sched"].start_soon(coro)
    c.fork = c.start_soon
    c.coroutine = lambda f: f
    c.function = lambda f: f
    c.clock, c.triggers, c.binary, c.types, c.handle, c.utils, c.result, c.regression, c.log = (mods[f"cocotb.{k}"] for k in ("clock", "triggers", "binary", "types", "handle", "utils", "result", "regression", "log"))
    mods["cocotb.clock"].Clock = Clock
    tr = mods["cocotb.triggers"]
    for k, v in dict(Timer=Timer, RisingEdge=RisingEdge, FallingEdge=FallingEdge, Edge=Edge, ClockCycles=ClockCycles, First=First, Combine=Combine, Join=Join,
                     NullTrigger=NullTrigger, ReadOnly=ReadOnly, ReadWrite=ReadWrite, NextTimeStep=NextTimeStep, Trigger=Trigger).items():
        setattr(tr, k, v)
    mods["cocotb.binary"].BinaryValue = BinaryValue
    mods["cocotb.result"].TestFailure = TestFailure
    mods["cocotb.result"].SimTimeoutError = SimTimeout
    mods["cocotb.utils"].get_sim_time = lambda units="step": _current["sched"].time // UNITS[units]
    mods["cocotb_test"].simulator = mods["cocotb_test.simulator"]
    mods["cocotb_test.simulator"].run = lambda **kw: (_ for _ in ()).throw(RuntimeError("cocotb_test.simulator.run is replaced by vfw.cocoshim.run_tests"))
    return c


def run_test(lib, top, test_fn, max_instants=400000, input_init=0):
    """runs one @cocotb.test coroutine against a fresh concrete simulation; raises on failure"""
    sched = Scheduler(lib, top, max_instants, input_init)
    _current["sched"] = sched
    dut = Dut(sched, top)
    main = sched.start_soon(test_fn(dut))
    try:
        return sched.run(main), sched
    finally:
        for _, _, t, _ in sched.q:
            t.kill()
        for _, _, t, _ in sched.edge_waiters:
            t.kill()
        _current["sched"] = None
