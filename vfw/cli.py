"""entry point: python -m vfw.cli <ID> [--tier quick|thorough] [--replay PATH]"""
from __future__ import annotations
import argparse
import importlib
import os
import sys
import traceback


def main(argv=None):
    ap = argparse.ArgumentParser()
    ap.add_argument("pid")
    ap.add_argument("--tier", default=os.environ.get("VERIF_TIER", "quick"), choices=["quick", "thorough"])
    ap.add_argument("--replay", default=None)
    a = ap.parse_args(argv)
    sys.setrecursionlimit(20000)
    try:
        mod = importlib.import_module(f"vfw.props.{a.pid.lower()}")
        if a.replay:
            return mod.replay(a.replay)
        return mod.run(a.tier)
    except SystemExit:
        raise
    except BaseException:
        traceback.print_exc()
        print(f"HARNESS-ERROR property={a.pid}")
        return 2


if __name__ == "__main__":
    sys.exit(main())
