#!/bin/bash
# usage: seed_rerun.sh <seed-id> <check> [more checks...]
# re-confirms a stored seeded change against /repo's current HEAD in a throw-away worktree under /tmp:
# demo on the clean tree (exit 0), demo with the patch (exit 1), baseline tests with the patch, then the given checks
# against the patched tree (PYTHONPATH / VERIF_REPO / VERIF_OUT point at the worktree; /repo and /verif/evidence untouched).
SID=$1; shift
D=/verif/seeded/$SID
WT=$(mktemp -d /tmp/seedwt.XXXXXX); rmdir $WT
git -C /repo worktree add -q --detach $WT HEAD || exit 3
trap 'git -C /repo worktree remove --force $WT; rm -rf "$VERIF_OUT"' EXIT
cd $WT
PYTHONPATH=$WT /venv/bin/python $D/demo.py >/dev/null 2>&1; A=$?
if ! git apply $D/patch.diff 2>/dev/null; then
  git apply -3 $D/patch.diff 2>/dev/null || { echo "$SID: PATCH DOES NOT APPLY to HEAD"; exit 3; }
  git reset -q
fi
PYTHONPATH=$WT /venv/bin/python $D/demo.py >/dev/null 2>&1; B=$?
T=$(PYTHONPATH=$WT /venv/bin/python -m pytest -q -p no:cacheprovider --timeout=900 --continue-on-collection-errors 2>&1 | tail -1)
export PYTHONPATH=$WT VERIF_REPO=$WT VERIF_OUT=$(mktemp -d /tmp/seedout.XXXXXX)
cd /verif
RES=""
for id in "$@"; do
  OUT=$(bin/check $id 2>&1); RC=$?
  NV=$(echo "$OUT" | grep -c "^VIOLATION")
  FIRST=$(echo "$OUT" | grep -A1 "^VIOLATION" | sed -n 2p | cut -c1-200 | tr '"\\' "' ")
  RES="$RES{\"check\": \"$id\", \"exit\": $RC, \"violations\": $NV, \"first\": \"$FIRST\"},"
done
HEAD=$(git -C /repo rev-parse --short HEAD)
echo "{\"repo_head\": \"$HEAD\", \"demo_clean_exit\": $A, \"demo_patched_exit\": $B, \"tests\": \"$T\", \"mode\": \"patched scratch worktree via PYTHONPATH\", \"checks\": [${RES%,}]}" > $D/run.json
echo "$SID: clean=$A patched=$B tests=[$T] ${RES}" | cut -c1-400
