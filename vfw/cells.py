"""'Cell' designs: many small expression/statement cells in one generated entity; each cell's output
is proved equal to its specification for ALL input values by one z3 query (DESIGN 2.6
comb_equal / step_equal), counterexamples are replayed concretely on freshly compiled text."""
from __future__ import annotations
from dataclasses import dataclass, field
from typing import Callable
import z3

from . import dom as D
from .core import Workdir, try_compile, check_sat, text_hash, reset_cohdl_state
from .spec import Ty, PyP, Z3P, W64
from .vhdl_parse import Illegal, Unsupported
from . import vhdl_sim as VS

HEADER = '''from __future__ import annotations
import cohdl
from cohdl import Bit, BitVector, Unsigned, Signed, Array, Port, Signal, Variable, Temporary, Null, Full, std
from cohdl import true, false
'''


def port_type_src(t: Ty):
    if t.kind in ("Bit", "bool"):
        return "Bit"
    return {"U": "Unsigned", "S": "Signed", "BV": "BitVector"}[t.kind] + f"[{t.w}]"


def ty_width(t: Ty):
    return 1 if t.kind in ("Bit", "bool") else t.w


@dataclass
class Cell:
    key: str
    ins: list  # [(name, Ty)]
    out: Ty
    body: str  # statements; use {o} for the output port and {name} for each input
    spec: Callable  # (P, *math) -> math value / boolean
    assume: Callable | None = None  # (P, *math) -> boolean
    setup: str = ""  # module level helper code
    local: str = ""  # code placed in architecture() before the context
    note: str = ""
    range_check: bool = False  # the unwrapped spec value must also lie inside the output type's range
    out_default: str = ""  # e.g. "Null": declare the output port with default=...
    nonlocals: tuple = ()  # names declared in 'local' that the context function assigns


def design_source(cells: list[Cell], ctx: str, ename="Cells"):
    lines = [HEADER]
    for c in cells:
        if c.setup:
            lines.append(c.setup)
    lines.append(f"class {ename}(cohdl.Entity):")
    if ctx.startswith("clocked"):
        lines.append("    clk = Port.input(Bit)")
    for i, c in enumerate(cells):
        for n, t in c.ins:
            lines.append(f"    c{i}_{n} = Port.input({port_type_src(t)})")
        dflt = f", default={c.out_default}" if c.out_default else ""
        lines.append(f"    c{i}_o = Port.output({port_type_src(c.out)}{dflt})")
    lines.append("    def architecture(self):")
    for i, c in enumerate(cells):
        if c.local:
            for ln in c.local.format(**_names(i, c)).splitlines():
                lines.append("        " + ln)
    if ctx.startswith("clocked"):
        lines.append("        @std.sequential(std.Clock(self.clk))")
    else:
        lines.append("        @std.concurrent")
    lines.append("        def logic():")
    nl = [n.format(**_names(i, c)) for i, c in enumerate(cells) for n in c.nonlocals]
    if nl:
        lines.append("            nonlocal " + ", ".join(nl))
    for i, c in enumerate(cells):
        for ln in c.body.format(**_names(i, c)).splitlines():
            lines.append("            " + ln)
    return "\n".join(lines) + "\n"


def _names(i, c):
    d = {n: f"self.c{i}_{n}" for n, _ in c.ins}
    d["o"] = f"self.c{i}_o"
    d["cellno"] = str(i)
    return d


class CellResult:
    def __init__(self, cell, status, detail=None):
        self.cell, self.status, self.detail = cell, status, detail  # ok mismatch rejected illegal inconclusive error


def _math_in(P, x, t: Ty):
    """sim payload -> prelude mathematical integer"""
    w = ty_width(t)
    if P is PyP:
        return PyP.wrap(x, w, True) if t.signed else x
    bv = D.bvv(x, w)
    return z3.SignExt(W64 - w, bv) if t.signed else z3.ZeroExt(W64 - w, bv)


def _spec_bits(P, val, t: Ty):
    """spec result -> comparable with the sim payload: returns ('bool', b) or ('bits', x)"""
    w = ty_width(t)
    if isinstance(val, (bool, z3.BoolRef)):
        return "bool", val
    if P is PyP:
        return "bits", val % (1 << w)
    if isinstance(val, int):
        return "bits", val % (1 << w)
    return "bits", z3.Extract(w - 1, 0, val)


def run_cells(rep, wd: Workdir, cells: list[Cell], ctx: str, timeout_ms=30000, want_text=False):
    """-> list[CellResult] (same order)."""
    results = {}
    pending = list(cells)
    groups = [pending]
    out = []
    while groups:
        grp = groups.pop()
        src = design_source(grp, ctx)
        try:
            mod = wd.load(src, "cells")
            text, exc = try_compile(mod.Cells)
        except BaseException as e:  # error while executing the module / class body
            if isinstance(e, (KeyboardInterrupt, SystemExit)):
                raise
            reset_cohdl_state()
            text, exc = None, e
        rep.stats.programs += 1
        if text is None:
            if len(grp) == 1:
                rep.stats.rejected += 1
                results[grp[0].key] = CellResult(grp[0], "rejected", f"{type(exc).__name__}: {str(exc)[:300]}")
            else:
                mid = len(grp) // 2
                groups.append(grp[:mid])
                groups.append(grp[mid:])
            continue
        rep.stats.accepted += 1
        rep.stats.hashes.add(text_hash(text))
        try:
            lib = VS.Library(text)
            sim = VS.Sim(lib)
        except Illegal as e:
            if len(grp) == 1:
                results[grp[0].key] = CellResult(grp[0], "illegal", {"rule": e.rule, "msg": str(e), "vhdl": text, "source": src})
            else:
                mid = len(grp) // 2
                groups.append(grp[:mid])
                groups.append(grp[mid:])
            continue
        _check_group(rep, grp, ctx, text, src, lib, results, timeout_ms)
    return [results[c.key] for c in cells]


def _drive(sim, ctx, inputs):
    if ctx.startswith("clocked"):
        # "clocked" = one rising edge, "clockedN" = N rising edges with stable inputs
        sim.elaborate({"clk": 0, **inputs})
        sim.instant({"clk": 1})
        for _ in range(int(ctx[7:] or 1) - 1):
            sim.instant({"clk": 0})
            sim.instant({"clk": 1})
    else:
        sim.elaborate(inputs)


def _check_group(rep, grp, ctx, text, src, lib, results, timeout_ms):
    sim = VS.Sim(lib)
    inputs = {}
    for i, c in enumerate(grp):
        for n, t in c.ins:
            inputs[f"c{i}_{n}"] = z3.BitVec(f"c{i}_{n}", ty_width(t))
    _drive(sim, ctx, inputs)
    for i, c in enumerate(grp):
        args = [_math_in(Z3P, inputs[f"c{i}_{n}"], t) for n, t in c.ins]
        want = c.spec(Z3P, *args)
        kind, wv = _spec_bits(Z3P, want, c.out)
        got = sim.read(f"c{i}_o").x
        w = ty_width(c.out)
        if kind == "bool":
            neq = D.b_xor(D.bit_to_bool(got), wv)
        else:
            neq = D.b_not(D.v_eq(got, wv, w))
        if c.range_check and kind == "bits" and not isinstance(want, int):
            lo, hi = c.out.lo(), c.out.hi()
            neq = D.b_or(neq, z3.Or(want < lo, want > hi))
        asm = [c.assume(Z3P, *args)] if c.assume else []
        # simulation errors of this cell's logic are assumed away only through 'assume'
        r, model = check_sat(rep.stats, sim.constraints + asm + [neq], timeout_ms)
        if r == "unsat":
            # reachability twin: the assumptions themselves must be satisfiable
            if asm:
                r2, _ = check_sat(rep.stats, sim.constraints + asm, timeout_ms)
                if r2 != "sat":
                    results[c.key] = CellResult(c, "vacuous", "assumption unsatisfiable: cell has no admissible input")
                    continue
            results[c.key] = CellResult(c, "ok")
        elif r == "unknown":
            results[c.key] = CellResult(c, "inconclusive", "solver unknown")
        else:
            vals = {}
            for n, t in c.ins:
                v = model.eval(inputs[f"c{i}_{n}"], model_completion=True).as_long()
                vals[n] = v
            others = {}
            for j, cj in enumerate(grp):
                if j != i:
                    for n, t in cj.ins:
                        # inputs of the other cells of the group: any value admitted by their own assumptions (1 avoids
                        # constant-zero divisors in the concrete run)
                        others[f"c{j}_{n}"] = 1
            results[c.key] = _replay(rep, c, i, grp, ctx, lib, vals, text, src, others)


def _replay(rep, c, i, grp, ctx, lib, vals, text, src, others=None):
    """concrete re-run (IntDom) of the same emitted text + python-int spec"""
    sim = VS.Sim(lib, uninit="zero")
    inputs = {}
    for j, cj in enumerate(grp):
        for n, t in cj.ins:
            inputs[f"c{j}_{n}"] = vals[n] if j == i else (others or {}).get(f"c{j}_{n}", 0)
    try:
        _drive(sim, ctx, inputs)
    except (Illegal, Unsupported) as e:
        return CellResult(c, "error", f"replay failed: {e}")
    got = sim.read(f"c{i}_o").x
    if not D.is_c(got):
        return CellResult(c, "error", "replay not concrete")
    args = [_math_in(PyP, vals[n], t) for n, t in c.ins]
    if c.assume and not c.assume(PyP, *args):
        return CellResult(c, "error", "model violates assumption")
    want = c.spec(PyP, *args)
    kind, wv = _spec_bits(PyP, want, c.out)
    wv = int(wv) if kind == "bits" else (1 if wv else 0)
    out_of_range = c.range_check and kind == "bits" and not (c.out.lo() <= want <= c.out.hi())
    if got == wv and not out_of_range:
        return CellResult(c, "error", f"counterexample {vals} does not reproduce concretely (got {got})")
    return CellResult(c, "mismatch", {
        "inputs_bits": vals, "inputs_math": args, "got_bits": got, "want_bits": wv,
        "source": src, "vhdl": _cell_lines(text, i), "ctx": ctx,
    })


def _cell_lines(text, i):
    tag = f"c{i}_"
    return [ln.strip() for ln in text.splitlines() if tag in ln][:12]


# ---------------------------------------------------------------- compile-time twins of cells
def literal_src(t: Ty, bits: int):
    """source text of a compile-time constant of type t with the given bit pattern"""
    w = ty_width(t)
    if t.kind in ("Bit", "bool"):
        return f"Bit({bits & 1})"
    if t.kind == "BV":
        return f'BitVector[{w}]("{bits:0{w}b}")'
    if t.kind == "U":
        return f"Unsigned[{w}]({bits})"
    return f"Signed[{w}]({PyP.wrap(bits, w, True)})"


def constify(cell: Cell, samples: int, rng):
    """compile-time twins of a cell: every input replaced by a literal, so the compiler evaluates the body itself
    (Python-level implementation of the operation) and must emit the constant the spec gives.  All input patterns
    when there are at most `samples`, otherwise corners + seeded ones.  Patterns violating `assume` are skipped."""
    import itertools
    widths = [ty_width(t) for _, t in cell.ins]
    total = sum(widths)
    if not cell.ins:
        return []
    if (1 << total) <= samples:
        combos = list(itertools.product(*[range(1 << w) for w in widths]))
    else:
        combos = {tuple(0 for _ in widths), tuple((1 << w) - 1 for w in widths), tuple(1 << (w - 1) for w in widths), tuple(1 for _ in widths)}
        while len(combos) < samples:
            combos.add(tuple(rng.randrange(1 << w) for w in widths))
        combos = sorted(combos)
    out = []
    for vals in combos:
        math = [_math_in(PyP, v, t) for v, (_, t) in zip(vals, cell.ins)]
        if cell.assume and not cell.assume(PyP, *math):
            continue
        body = cell.body
        for (n, t), v in zip(cell.ins, vals):
            body = body.replace("{" + n + "}", literal_src(t, v))
        want = cell.spec(PyP, *math)
        out.append(Cell(f"const|{cell.key}|{','.join(str(v) for v in vals)}", [], cell.out, body, (lambda P, want=want: (P.const(want) if not isinstance(want, bool) else want)),
                        setup=cell.setup, local=cell.local, out_default=cell.out_default, nonlocals=cell.nonlocals, range_check=False))
    return out
