"""C07 -- one driver per signal: conflicts rejected, accepted designs conflict-free.
(a) E-PY: CrossHair on the real usage check (ir.EntityTemplate.__init__) with symbolic placements
    of three writers over contexts / objects / target parts: rejected <=> conflict predicate of the
    statement.
(b) whole pipeline: placement programs (two writer sites chosen from sequential / concurrent
    contexts and sub-entity instance outputs; whole, slice and bit targets; signals, output ports,
    input ports, variables shared between contexts): conflict => rejected; no conflict => accepted
    and the emitted architecture has exactly one driver per signal element (front-end rule)."""
from __future__ import annotations
import itertools
import re

from ..core import Reporter, Workdir, try_compile, reset_cohdl_state, text_hash
from .. import vhdl_sim as VS
from ..vhdl_parse import Illegal, Unsupported
from .. import chrun
from . import c07_epy

HEADER = '''from __future__ import annotations
import cohdl
from cohdl import Bit, BitVector, Unsigned, Array, Port, Signal, Variable, Null, std, vhdl
import contextlib as _ctxlib
from cohdl._core import _context as _cohdl_context


@_ctxlib.contextmanager
def blk():
    # nested block; std.block wraps the same two functions
    _cohdl_context._enter_block(_cohdl_context.Block("", {}))
    try:
        yield
    finally:
        _cohdl_context._exit_block()


class Sub(cohdl.Entity):
    i = Port.input(BitVector[4])
    o = Port.output(BitVector[4])

    def architecture(self):
        @std.concurrent
        def logic():
            self.o <<= ~self.i


class Sub2(cohdl.Entity):
    i = Port.input(BitVector[4])
    o1 = Port.output(BitVector[{W1}])
    o2 = Port.output(BitVector[{W2}])

    def architecture(self):
        @std.concurrent
        def logic():
            self.o1 <<= self.i[{W1}-1:0]
            self.o2 <<= self.i[{W2}-1:0]

'''

SITES = ["seqA", "seqB", "concA", "concB", "inst"]
PARTS = {"whole": ("{t}", "self.src"), "low": ("{t}[1:0]", "self.src[1:0]"), "high": ("{t}[3:2]", "self.src[3:2]"), "bit": ("{t}[0]", "self.src[0]")}
OBJECTS = {"signal": "sig", "outport": "self.q", "inport": "self.pin"}


def program(site1, part1, site2, part2, obj):
    """two writes to the same object from site1 and site2 (may be the same site)"""
    t = OBJECTS[obj]
    body = {s: [] for s in SITES}
    inst_targets = []
    for site, part in ((site1, part1), (site2, part2)):
        if site == "inst":
            inst_targets.append(t)
        else:
            tgt, src = PARTS[part]
            body[site].append(f"{tgt.format(t=t)} <<= {src}")
    lines = [XHEAD, "class E(cohdl.Entity):", "    clk = Port.input(Bit)", "    src = Port.input(BitVector[4])", "    pin = Port.input(BitVector[4])",
             "    q = Port.output(BitVector[4])", "    r = Port.output(BitVector[4])", "    def architecture(self):",
             "        sig = Signal[BitVector[4]](name='sig')",
             "        std.concurrent_assign(self.r, sig)" if obj == "signal" else "        std.concurrent_assign(self.r, self.src)"]
    for k, tg in enumerate(inst_targets):
        lines.append(f"        Sub(i=self.src, o={tg})")
    for site in ("seqA", "seqB"):
        if body[site]:
            lines += [f"        @std.sequential(std.Clock(self.clk))", f"        def {site}():"] + (["            nonlocal sig"] if obj == "signal" else []) + ["            " + b for b in body[site]]
    for site in ("concA", "concB"):
        if body[site]:
            lines += ["        @std.concurrent", f"        def {site}():"] + (["            nonlocal sig"] if obj == "signal" else []) + ["            " + b for b in body[site]]
    return "\n".join(lines) + "\n"


def expected(site1, part1, site2, part2, obj):
    if obj == "inport":
        return "reject"
    if site1 != site2:
        return "reject"
    if site1 == "inst":
        return "reject"  # two instance outputs on one signal
    return "accept"


# ---- further writer kinds: push assignments in core contexts (no reset_pushed prologue), always-expressions,
# inline VHDL (direct and nested snippet), two outputs of ONE instance
XHEAD = HEADER.replace("{W1}", "2").replace("{W2}", "2")
WIDTH = {"whole": 4, "low": 2, "high": 2, "bit": 1}


def _x_entity(decls, body):
    return "\n".join([XHEAD, "class E(cohdl.Entity):", "    clk = Port.input(Bit)", "    src = Port.input(BitVector[4])", "    pin = Port.input(BitVector[4])",
                      "    q = Port.output(BitVector[4], default=Null)", "    r = Port.output(BitVector[4])", "    def architecture(self):",
                      "        sig = Signal[BitVector[4]](Null, name='sig')"] + ["        " + l for l in decls + body]) + "\n"


def _writer(kind, n, tgt, src):
    """lines of one writer context of the given kind assigning tgt from src"""
    if kind == "core-push":
        return ["@cohdl.sequential_context", f"def w{n}():", "    nonlocal sig", "    if cohdl.rising_edge(self.clk):", f"        {tgt} ^= {src}"]
    if kind == "std-push":
        return ["@std.sequential(std.Clock(self.clk))", f"def w{n}():", "    nonlocal sig", f"    {tgt} ^= {src}"]
    if kind == "std-next":
        return ["@std.sequential(std.Clock(self.clk))", f"def w{n}():", "    nonlocal sig", f"    {tgt} <<= {src}"]
    if kind == "conc":
        return ["@std.concurrent", f"def w{n}():", "    nonlocal sig", f"    {tgt} <<= {src}"]
    if kind == "inline":
        return ["@std.concurrent", f"def w{n}():", f'    f"{{vhdl:{{{tgt}}} <= {{{src}!r}};}}"']
    if kind == "inline-nested":
        return [f"def stmt{n}(target, source):", '    return f"{vhdl:{target} <= {source!r};}"',
                "@std.concurrent", f"def w{n}():", f"    st = stmt{n}({tgt}, {src})", '    f"{vhdl:{st}}"']
    if kind == "match":
        # the write sits inside a case-when of the emitted process
        return ["@std.sequential(std.Clock(self.clk))", f"def w{n}():", "    nonlocal sig", "    match self.src[1:0]:", "        case '00':", f"            {tgt} <<= {src}", "        case '01':", "            pass",
                "        case _:", f"            {tgt} <<= {src}"]
    if kind == "coro":
        # the write sits inside a state of a multi-state coroutine
        return ["@std.sequential(std.Clock(self.clk))", f"async def w{n}():", "    nonlocal sig", "    await self.src[0]", f"    {tgt} <<= {src}", "    await self.pin[0]", f"    {tgt} <<= {src}"]
    if kind == "always":
        # always-expression of a sequential context that itself does not touch the target
        return [f"def aw{n}():", "    nonlocal sig", f"    {tgt} <<= {src}", "@std.sequential(std.Clock(self.clk))", f"def w{n}():", f"    cohdl.always(aw{n}())"]
    raise AssertionError(kind)


def extra_programs():
    """(key, source, expected)"""
    out = []
    kinds = ["core-push", "std-push", "std-next", "conc", "inline", "inline-nested", "always", "match", "coro"]
    for obj, t in (("signal", "sig"), ("outport", "self.q")):
        use = ["std.concurrent_assign(self.r[3:1], sig[3:1])"] if obj == "signal" else ["std.concurrent_assign(self.r[3:1], self.src[3:1])"]
        for k1, k2 in itertools.combinations_with_replacement(kinds, 2):
            for p1, p2 in (("whole", "whole"), ("low", "high")):
                if "inline" in k1 + k2 and p1 != "whole":
                    continue
                t1, s1 = PARTS[p1]
                t2, s2 = PARTS[p2]
                w1 = _writer(k1, 1, t1.format(t=t), s1)
                w2 = _writer(k2, 2, t2.format(t=t), s2.replace("src", "pin"))
                out.append((f"x|{k1}:{p1}+{k2}:{p2}->{obj}", _x_entity([], use + w1 + w2), "reject"))
            # single writer of each kind: accepted, one driver
        for k in kinds:
            out.append((f"x|{k}:whole->{obj}", _x_entity([], use + _writer(k, 1, t, "self.src")), "accept"))
    # the same object written in a process and in that process's own always-expression
    out.append(("x|always+own-body->signal", _x_entity([], ["def aw():", "    nonlocal sig", "    sig <<= self.pin", "@std.sequential(std.Clock(self.clk))", "def w():", "    nonlocal sig",
                                                       "    sig <<= self.src", "    cohdl.always(aw())", "    self.q <<= sig"]), "reject"))
    out.append(("x|always+own-body-slices->signal", _x_entity([], ["def aw():", "    nonlocal sig", "    sig[1:0] <<= self.pin[1:0]", "@std.sequential(std.Clock(self.clk))", "def w():", "    nonlocal sig",
                                                              "    sig[3:2] <<= self.src[3:2]", "    cohdl.always(aw())", "    self.q <<= sig"]), "reject"))
    out.append(("x|variable-read-in-own-always", _x_entity(["v = Variable[BitVector[4]](name='v')"], ["@std.sequential(std.Clock(self.clk))", "def w():", "    nonlocal v", "    v @= self.src",
                                                                                                    "    self.q <<= cohdl.always(v & self.pin)"]), "reject"))
    out.append(("x|variable-only-in-own-always", _x_entity(["v = Variable[BitVector[4]](name='v')"], ["@std.sequential(std.Clock(self.clk))", "def w():", "    nonlocal sig", "    sig <<= self.src",
                                                                                                    "    with cohdl.always:", "        self.q <<= v"]), "reject"))
    out.append(("x|always-with-block-writes-own-target", _x_entity([], ["@std.sequential(std.Clock(self.clk))", "def w():", "    nonlocal sig", "    sig[3:2] <<= self.src[3:2]",
                                                                   "    with cohdl.always:", "        sig[1:0] <<= self.pin[1:0]", "    self.q <<= sig"]), "reject"))
    out.append(("x|always-drives-port-with-default-next-to-reset", _x_entity([], ["@std.sequential(std.Clock(self.clk), std.Reset(self.src[0]))", "def w():", "    nonlocal sig", "    sig <<= self.src",
                                                                            "    with cohdl.always:", "        self.q <<= ~self.pin"]), "accept"))
    out.append(("x|always-pushes-port-with-default", _x_entity([], ["@std.sequential(std.Clock(self.clk))", "def w():", "    nonlocal sig", "    sig <<= self.src",
                                                                "    with cohdl.always:", "        self.q <<= self.pin"]), "accept"))
    out.append(("x|always-reads-signal-written-in-body", _x_entity([], ["@std.sequential(std.Clock(self.clk))", "def w():", "    nonlocal sig", "    sig <<= self.src",
                                                                   "    self.q <<= cohdl.always(sig & self.pin)"]), "accept"))
    # two outputs of one instance
    for (a1, a2, exp, tag) in (("sig[1:0]", "sig[3:2]", "reject", "disjoint-slices-same-root"), ("sig[1:0]", "sig[2:1]", "reject", "overlapping-slices"),
                               ("sig[1:0]", "sig[1:0]", "reject", "same-slice"), ("sig[1:0]", "self.q[1:0]", "accept", "different-objects")):
        out.append((f"x|inst2-outputs:{tag}", _x_entity([], ["std.concurrent_assign(self.r, sig)", f"Sub2(i=self.src, o1={a1}, o2={a2})"] +
                                                       (["@std.concurrent", "def fill():", "    self.q[3:2] <<= self.src[3:2]"] if False else [])), exp))
    # instance output on an input port of the parent / on a signal also written by a context
    out.append(("x|inst-output->inport", _x_entity([], ["Sub(i=self.src, o=self.pin)"]), "reject"))
    out.append(("x|inst-output-slice->inport", _x_entity([], ["Sub2(i=self.src, o1=self.pin[1:0], o2=sig[1:0])"]), "reject"))
    for k in kinds:
        out.append((f"x|inst-output+{k}->signal", _x_entity([], ["Sub(i=self.src, o=sig)"] + _writer(k, 1, "sig", "self.pin")), "reject"))
    # ---- array-typed signal: elements selected by constant / run-time index, written from two contexts
    ram_decl = ["ram = Signal[Array[BitVector[4], 4]](name='ram')"]
    ram_use = ["std.concurrent_assign(self.r, ram[self.pin[1:0].unsigned])"]
    elems = {"dyn": "ram[self.src[1:0].unsigned]", "dyn2": "ram[self.pin[3:2].unsigned]", "c0": "ram[0]", "c3": "ram[3]"}
    akinds = ["std-next", "std-push", "core-push", "conc", "always"]
    for k1, k2 in itertools.combinations_with_replacement(akinds, 2):
        for e1, e2 in (("dyn", "dyn2"), ("dyn", "c3"), ("c0", "c3"), ("c0", "c0")):
            if "push" in k1 + k2 and (e1, e2) != ("dyn", "c3"):
                continue
            w1 = [l.replace("nonlocal sig", "nonlocal ram") for l in _writer(k1, 1, elems[e1], "self.src")]
            w2 = [l.replace("nonlocal sig", "nonlocal ram") for l in _writer(k2, 2, elems[e2], "self.pin")]
            out.append((f"x|array:{k1}:{e1}+{k2}:{e2}", _x_entity(ram_decl, ram_use + w1 + w2), "reject"))
    for k in ("std-next", "conc"):
        out.append((f"x|array:{k}:two-elements-one-context", _x_entity(ram_decl, ram_use + ["@std.sequential(std.Clock(self.clk))" if k == "std-next" else "@std.concurrent", "def w1():", "    nonlocal ram",
                                                                                       "    ram[0] <<= self.src", "    ram[3] <<= self.pin"] + ([] if k == "conc" else ["    ram[self.pin[1:0].unsigned] <<= self.src"])), "accept"))
    out.append(("x|array:inst-output+std-next", _x_entity(ram_decl, ram_use + ["Sub(i=self.src, o=ram[1])"] + [l.replace("nonlocal sig", "nonlocal ram") for l in _writer("std-next", 1, "ram[2]", "self.pin")]), "reject"))
    # ---- nested blocks (depth 1 = block in the architecture, depth 2 = block inside a block that has no contexts of its own)
    def nest(lines, depth):
        for d in range(depth):
            lines = ["with blk():"] + ["    " + l for l in lines]
        return lines
    nkinds = ["std-next", "conc", "always", "core-push"]
    for depth1, depth2 in ((0, 1), (0, 2), (1, 1), (2, 2), (1, 2)):
        for k1, k2 in itertools.product(nkinds, nkinds):
            if (depth1, depth2) not in ((0, 1), (0, 2)) and k1 > k2:
                continue
            w1 = nest(_writer(k1, 1, "sig", "self.src"), depth1)
            w2 = nest(_writer(k2, 2, "sig", "self.pin"), depth2)
            out.append((f"x|nested{depth1}{depth2}:{k1}+{k2}", _x_entity([], ["std.concurrent_assign(self.r, sig)"] + w1 + w2), "reject"))
    for depth in (1, 2):
        for k in nkinds:
            out.append((f"x|nested{depth}:{k}:single", _x_entity([], ["std.concurrent_assign(self.r, sig)"] + nest(_writer(k, 1, "sig", "self.src"), depth)), "accept"))
            out.append((f"x|nested{depth}:inst-output+{k}", _x_entity([], ["std.concurrent_assign(self.r, sig)"] + nest(["Sub(i=self.src, o=sig)"], depth) + _writer(k, 1, "sig", "self.pin")), "reject"))
            out.append((f"x|nested{depth}:{k}->inport", _x_entity([], ["std.concurrent_assign(self.r, sig)"] + nest(_writer(k, 1, "self.pin", "self.src"), depth)), "reject"))
        out.append((f"x|nested{depth}:inst-output:single", _x_entity([], ["std.concurrent_assign(self.r, sig)"] + nest(["Sub(i=self.src, o=sig)"], depth)), "accept"))
        out.append((f"x|nested{depth}:inst-output+inst-output", _x_entity([], ["std.concurrent_assign(self.r, sig)"] + nest(["Sub(i=self.src, o=sig)"], depth) + nest(["Sub(i=self.pin, o=sig)"], depth)), "reject"))
        out.append((f"x|nested{depth}:inst-output+top-inst-output", _x_entity([], ["std.concurrent_assign(self.r, sig)", "Sub(i=self.pin, o=sig)"] + nest(["Sub(i=self.src, o=sig)"], depth)), "reject"))
        out.append((f"x|nested{depth}:inst-output->inport", _x_entity([], nest(["Sub(i=self.src, o=self.pin)"], depth)), "reject"))
        out.append((f"x|nested{depth}:variable-in-two-sequential", _x_entity(["v = Variable[BitVector[4]](name='v')"], ["@std.sequential(std.Clock(self.clk))", "def a():", "    nonlocal v", "    v @= self.src", "    self.q <<= v"] +
                                                                          nest(["@std.sequential(std.Clock(self.clk))", "def b():", "    self.r <<= v"], depth)), "reject"))
    # intermediate values of a process handed to an instance (the port map is emitted outside the process)
    out.append(("x|temporary->always-instance-input", _x_entity([], ["@std.sequential(std.Clock(self.clk))", "def w():", "    t = self.src & self.pin", "    self.q <<= t", "    cohdl.always(Sub(i=t, o=self.r))"]), "reject"))
    out.append(("x|temporary->leaked-inline-instance-input", _x_entity(["box = []"], ["@std.sequential(std.Clock(self.clk))", "def producer():", "    t = self.src ^ self.pin", "    std.as_pyeval(box.append, t)", "    self.q <<= t",
                                                                               "@std.concurrent", "def consumer():", "    Sub(i=std.as_pyeval(box.__getitem__, 0), o=self.r)"]), "reject"))
    out.append(("x|signal->always-instance-input", _x_entity([], ["@std.sequential(std.Clock(self.clk))", "def w():", "    nonlocal sig", "    sig <<= self.src & self.pin", "    self.q <<= sig", "    cohdl.always(Sub(i=sig, o=self.r))"]), "accept"))
    return out


VAR_PROGRAMS = [
    ("variable-in-two-sequential", "reject", ["        v = Variable[BitVector[4]](name='v')",
     "        @std.sequential(std.Clock(self.clk))", "        def a():", "            nonlocal v", "            v @= self.src",
     "        @std.sequential(std.Clock(self.clk))", "        def b():", "            self.q <<= v"]),
    ("variable-in-concurrent", "reject", ["        v = Variable[BitVector[4]](name='v')",
     "        @std.concurrent", "        def a():", "            nonlocal v", "            v @= self.src", "            self.q <<= v"]),
    ("variable-in-one-sequential", "accept", ["        v = Variable[BitVector[4]](name='v')",
     "        @std.sequential(std.Clock(self.clk))", "        def a():", "            nonlocal v", "            v @= self.src", "            self.q <<= v"]),
    ("temporary-across-contexts", "reject", ["        holder = []",
     "        @std.sequential(std.Clock(self.clk))", "        def a():", "            holder.append(self.src & self.pin)", "            self.q <<= holder[0]",
     "        @std.sequential(std.Clock(self.clk))", "        def b():", "            self.r <<= holder[0]"]),
    ("signal-read-in-many-contexts", "accept", ["        sig = Signal[BitVector[4]](name='sig')",
     "        @std.concurrent", "        def a():", "            sig.next = self.src",
     "        @std.sequential(std.Clock(self.clk))", "        def b():", "            self.q <<= sig",
     "        @std.concurrent", "        def c():", "            self.r <<= sig"]),
    ("nested-function-writers-same-context", "accept", ["        sig = Signal[BitVector[4]](name='sig')",
     "        def w1():", "            nonlocal sig", "            sig[1:0] <<= self.src[1:0]", "        def w2():", "            nonlocal sig", "            sig[3:2] <<= self.src[3:2]",
     "        @std.sequential(std.Clock(self.clk))", "        def a():", "            w1()", "            w2()", "            self.q <<= sig"]),
    ("nested-function-writers-two-contexts", "reject", ["        sig = Signal[BitVector[4]](name='sig')",
     "        def w1():", "            nonlocal sig", "            sig[1:0] <<= self.src[1:0]", "        def w2():", "            nonlocal sig", "            sig[3:2] <<= self.src[3:2]",
     "        @std.sequential(std.Clock(self.clk))", "        def a():", "            w1()", "            self.q <<= sig",
     "        @std.concurrent", "        def b():", "            w2()"]),
]


def var_program(lines):
    return "\n".join([XHEAD, "class E(cohdl.Entity):", "    clk = Port.input(Bit)", "    src = Port.input(BitVector[4])", "    pin = Port.input(BitVector[4])",
                      "    q = Port.output(BitVector[4])", "    r = Port.output(BitVector[4])", "    def architecture(self):"] + lines) + "\n"


EPY_PRELUDE = "from vfw.props import c07_epy as H\n"


def epy_functions():
    fs = []
    for c0, o0, c1 in itertools.product(range(3), range(4), range(3)):
        name = f"c07_place_{c0}_{o0}_{c1}"
        src = f'''def {name}(p0: int, o1: int, p1: int, c2: int, o2: int) -> bool:
    """
    pre: 0 <= p0 < 3 and 0 <= o1 < 4 and 0 <= p1 < 3 and 0 <= c2 < 3 and 0 <= o2 < 4
    post: _
    """
    return H.placement_ok({c0}, {o0}, p0, {c1}, o1, p1, c2, o2, 0)
'''
        fs.append((name, src))
    return fs


def run(tier: str) -> int:
    rep = Reporter("C07", tier, "other")
    wd = Workdir()
    counts = {"reject-ok": 0, "accept-ok": 0}
    try:
        jobs = []
        parts = list(PARTS) if tier != "quick" else ["whole", "low", "high", "bit"]
        for s1, s2 in itertools.combinations_with_replacement(SITES, 2):
            for obj in OBJECTS:
                for p1, p2 in itertools.product(parts, parts):
                    if "inst" in (s1, s2) and (p1 != "whole" and s1 == "inst" or p2 != "whole" and s2 == "inst"):
                        continue
                    if tier == "quick" and (p1, p2) not in (("whole", "whole"), ("low", "high"), ("whole", "bit"), ("bit", "bit"), ("high", "low")):
                        continue
                    if obj == "inport" and "inst" in (s1, s2):
                        pass
                    jobs.append((f"{s1}:{p1}+{s2}:{p2}->{obj}", program(s1, p1, s2, p2, obj), expected(s1, p1, s2, p2, obj)))
        for key, exp, lines in VAR_PROGRAMS:
            jobs.append((key, var_program(lines), exp))
        jobs += extra_programs()
        for key, src, exp in jobs:
            try:
                mod = wd.load(src, "c07")
                text, exc = try_compile(mod.E)
            except BaseException as e:
                if isinstance(e, (KeyboardInterrupt, SystemExit)):
                    raise
                reset_cohdl_state()
                text, exc = None, e
            rep.stats.programs += 1
            if exp == "reject":
                if text is None:
                    counts["reject-ok"] += 1
                    rep.stats.nontrivial.add(key)
                else:
                    drivers = _driver_report(text)
                    rep.violation(f"accepted|{_kinds(key)}", f"{key}: design with conflicting drivers / illegal sharing was accepted; {drivers}", {"source": src, "vhdl": text})
            else:
                if text is None:
                    rep.violation(f"rejected|{_kinds(key)}", f"{key}: conflict-free design rejected: {type(exc).__name__}: {str(exc)[:200]}", {"source": src})
                    continue
                try:
                    lib = VS.Library(text)
                    for d in lib.order:
                        VS.Sim(lib, top=d.name)
                    counts["accept-ok"] += 1
                    rep.stats.nontrivial.add(key)
                    rep.stats.hashes.add(text_hash(text))
                except Illegal as e:
                    rep.violation(f"illegal|{e.rule}|{_kinds(key)}", f"{key}: accepted design is not conflict-free / legal: {e}", {"source": src, "vhdl": text})
                except Unsupported:
                    # overlapping assignments inside ONE concurrent block: one context by construction, value given by
                    # the resolution function in VHDL -- outside the two-valued model, not judged
                    counts["accept-same-block-overlap"] = counts.get("accept-same-block-overlap", 0) + 1
        # (a) E-PY
        res, cpu = chrun.run_functions(epy_functions(), EPY_PRELUDE, per_cond=600 if tier == "quick" else 1800, chunk=1)
        epy = {"confirmed": 0}
        for fn, (status, msg) in sorted(res.items()):
            rep.stats.queries += 1
            if status == "confirmed":
                rep.stats.unsat += 1
                epy["confirmed"] += 1
            elif status == "counterexample":
                rep.stats.sat += 1
                m = re.search(r"calling \w+\(([^)]*)\)", msg)
                vals = [int(x.split("=")[-1]) for x in m.group(1).split(",")] if m else None
                c0, o0, c1 = (int(x) for x in fn.split("_")[2:5])
                if vals:
                    args = (c0, o0, vals[0], c1, vals[1], vals[2], vals[3], vals[4], 0)
                    if not c07_epy.placement_ok(*args):
                        rej = c07_epy.build_and_check(*args)
                        rep.violation(f"usage-check|{'accepted-conflict' if not rej else 'rejected-valid'}|objs={args[1]},{args[4]},{args[7]}",
                                      f"EntityTemplate usage check disagrees with the conflict predicate for writers (context, object, part) = {args[0:3]}, {args[3:6]}, {args[6:9]}: rejected={rej}", {"args": args, "crosshair": msg})
                        continue
                rep.inconclusive_query(f"{fn}: counterexample does not reproduce: {msg[:120]}")
            else:
                rep.stats.unknown += 1
                rep.inconclusive_query(f"{fn}: {msg[:120]}")
        rep.stats.units |= {"cohdl._core._ir._repr.EntityTemplate.__init__ (check_usage, instance loop)", "frontend ConvertInstance.apply (variables in concurrent contexts)", "backend VhdlScope.declare (scope rule)"}
        rep.assumptions += ["conflict predicate: input port written, or the same root object (any slice/element) written from two different contexts / instance outputs, or a variable/temporary used by two contexts",
                            "E-PY: three writers, 3 contexts, objects {2 signals, input port, variable}, parts {whole, bit, slice}; all 36 conditions must be 'Confirmed over all paths'"]
        return rep.finish({
            "explanation": "placement programs through the whole compiler (%d, reject-ok %d, accept-ok %d) + CrossHair on the IR usage check (%d conditions confirmed)" % (len(jobs), counts["reject-ok"], counts["accept-ok"], epy["confirmed"]),
            "evaluations": len(jobs) + len(res), "distinct_nontrivial": len(rep.stats.nontrivial),
            "placement_results": counts, "epy": epy,
            "samples": [{"placement": jobs[1][0], "expected": jobs[1][2]}, {"placement": jobs[-1][0], "expected": jobs[-1][2]}],
        })
    finally:
        wd.close()


def _kinds(key):
    return re.sub(r":(whole|low|high|bit)", "", key)


def _driver_report(text):
    try:
        lib = VS.Library(text)
        VS.Sim(lib)
        return "emitted text has no two drivers on one element (sub-element drivers from different contexts)"
    except Illegal as e:
        return f"emitted text: {e}"
    except Exception as e:
        return f"({type(e).__name__})"
