"""E-PY harness for C10 (argument binding part): the real FunctionDefinition.bind_args against
CPython's inspect.Signature.bind + apply_defaults for a bank of signatures and a symbolic call
shape (number of positional arguments 0..5, bitmask of keyword names incl. an unknown one)."""
from __future__ import annotations
import inspect
from cohdl._core._collect_ast_and_scope import FunctionDefinition


def f01(a, b):
    return None


def f02(a, b=2):
    return None


def f03(a, /, b):
    return None


def f04(a, /, b=2, *, c):
    return None


def f05(a=1, /, b=2, *, c=3):
    return None


def f06(*args):
    return None


def f07(a, *args):
    return None


def f08(a, *args, c):
    return None


def f09(a, *args, c=3, **kw):
    return None


def f10(**kw):
    return None


def f11(a, /, **kw):
    return None


def f12(a, b, /, c, d=4):
    return None


def f13(*, c, d=4):
    return None


def f14(a, b=2, *args, c, d=4, **kw):
    return None


def f15(a, /, b, *, c, **kw):
    return None


def f16(a=1, *args, **kw):
    return None


def f17():
    return None


def f18(a, b=2, /, c=3, *, d=4):
    return None


BANK = [f01, f02, f03, f04, f05, f06, f07, f08, f09, f10, f11, f12, f13, f14, f15, f16, f17, f18]
DEFS = [FunctionDefinition.from_callable(f) for f in BANK]
SIGS = [inspect.signature(f) for f in BANK]
KWNAMES = ["a", "b", "c", "d", "x"]


def conc(i, lo, hi):
    for k in range(lo, hi + 1):
        if i == k:
            return k
    return lo


def call_shape(npos, mask):
    npos, mask = conc(npos, 0, 5), conc(mask, 0, 31)
    args = [100 + i for i in range(npos)]
    kwargs = {n: 200 + j for j, n in enumerate(KWNAMES) if mask & (1 << j)}
    return args, kwargs


def bind_ok(fi, npos, mask) -> bool:
    args, kwargs = call_shape(npos, mask)
    sig, fd = SIGS[fi], DEFS[fi]
    try:
        bound = sig.bind(*args, **kwargs)
        bound.apply_defaults()
        expected = dict(bound.arguments)
    except TypeError:
        expected = None
    try:
        inst = fd.bind_args(list(args), dict(kwargs))
        got = inst.scope()
    except Exception:
        got = None
    if expected is None:
        return got is None
    if got is None:
        return False
    for name, val in expected.items():
        if name not in got:
            return False
        g = got[name]
        if isinstance(val, tuple):
            if tuple(g) != val:
                return False
        elif g != val:
            return False
    return True


def describe(fi, npos, mask):
    args, kwargs = call_shape(npos, mask)
    sig, fd = SIGS[fi], DEFS[fi]
    try:
        b = sig.bind(*args, **kwargs)
        b.apply_defaults()
        exp = dict(b.arguments)
    except TypeError as e:
        exp = f"TypeError({e})"
    try:
        got = {k: v for k, v in fd.bind_args(list(args), dict(kwargs)).scope().items() if k in sig.parameters}
    except Exception as e:
        got = f"{type(e).__name__}({e})"
    return f"{BANK[fi].__name__}{sig} called with {args} {kwargs}: CPython {exp}; cohdl {got}"


# ---------------------------------------------------------------- starred assignment targets
import ast as _ast
from cohdl._compiler.frontend._prepare_ast import PrepareAst

_UNPACK = {}
for _n in range(1, 5):
    for _s in range(-1, _n):
        _names = [f"t{i}" for i in range(_n)]
        _lhs = ", ".join(("*" + nm) if i == _s else nm for i, nm in enumerate(_names))
        _src = f"def u(seq):\n    {_lhs}{',' if _n == 1 else ''} = seq\n    return [{', '.join(_names)}]\n"
        _ns = {}
        exec(_src, _ns)
        _UNPACK[(_n, _s)] = (_ns["u"], _ast.parse(f"{_lhs}{',' if _n == 1 else ''} = seq").body[0].targets[0].elts)


def split_ok(n, s, L) -> bool:
    n = conc(n, 1, 4)
    s = conc(s, -1, 3)
    L = conc(L, 0, 6)
    if s >= n:
        return True
    fn, targets = _UNPACK[(n, s)]
    source = [300 + i for i in range(L)]
    try:
        expected = fn(list(source))
    except ValueError:
        expected = None
    try:
        got = PrepareAst._split_target(None, targets, list(source))
    except Exception:
        got = None
    if expected is None:
        return got is None
    if got is None:
        return False
    return [list(x) if isinstance(x, (list, tuple)) else x for x in got] == expected


# ---------------------------------------------------------------- trace evaluation of plain-Python programs
import re as _re
import cohdl as _cohdl
from cohdl import std as _std, Port as _Port, Unsigned as _Unsigned
from . import c10_progs as PROGS


def _make_entity(prog, a, b, c):
    class C10E(_cohdl.Entity):
        o = _Port.output(_Unsigned[16])

        def architecture(self):
            @_std.concurrent
            def logic():
                self.o <<= prog(a, b, c)

    return C10E


_LIT = _re.compile(r'buffer_o <= (?:unsigned\'\("([01]+)"\)|to_unsigned\((\d+), 16\))')


def cohdl_eval(pi, a, b, c):
    """-> int (literal the tracer computed) | None (rejected)"""
    from vfw.core import reset_cohdl_state
    try:
        text = _std.VhdlCompiler.to_string(_make_entity(PROGS.BANK[pi], a, b, c))
    except BaseException as e:
        if isinstance(e, (KeyboardInterrupt, SystemExit)):
            raise
        reset_cohdl_state()
        return None
    m = _LIT.search(text)
    if not m:
        return ("no-literal", text[-400:])
    return int(m.group(1), 2) if m.group(1) else int(m.group(2))


def python_eval(pi, a, b, c):
    try:
        r = PROGS.BANK[pi](a, b, c)
    except Exception:
        return None
    return r


def trace_ok_concrete(pi, a, b, c) -> bool:
    exp = python_eval(pi, a, b, c)
    got = cohdl_eval(pi, a, b, c)
    if got is None:
        return True  # rejected: allowed by the statement (counted separately by the native census)
    return got == exp


def trace_ok(pi, a, b, c) -> bool:
    a, b, c = conc(a, 0, 3), conc(b, 0, 3), conc(c, 0, 3)
    from crosshair.tracers import NoTracing
    with NoTracing():
        return trace_ok_concrete(pi, a, b, c)


def trace_describe(pi, a, b, c):
    return f"{PROGS.BANK[pi].__name__}({a}, {b}, {c}): CPython {python_eval(pi, a, b, c)!r}; cohdl compile-time value {cohdl_eval(pi, a, b, c)!r}"
