"""C19 -- fixed-point arithmetic is exact and resize follows the selected styles.
Raw values symbolic; specification in exact scaled-integer arithmetic (no floats)."""
from __future__ import annotations
import itertools
import random

from ..core import Reporter, Workdir
from ..cells import Cell, run_cells
from ..spec import Ty, U, S, BV, BIT, PyP


def formats(maxw):
    out = []
    for left in range(-2, 4):
        for right in range(-3, 3):
            w = left - right + 1
            if 1 <= w <= maxw:
                out.append((left, right))
    return out


def fx(kind, l, r):
    return f"std.{'SFixed' if kind == 'S' else 'UFixed'}[{l}:{r}]"


def raw_ty(kind, l, r):
    return Ty(kind, l - r + 1)


def result_format(kind, op, fa, fb):
    """format the implementation chooses (read from the running tree on constants)"""
    from cohdl import std
    T = std.SFixed if kind == "S" else std.UFixed
    a, b = T[fa[0]:fa[1]](0), T[fb[0]:fb[1]](0)
    r = {"add": lambda: a + b, "sub": lambda: a - b, "mul": lambda: a * b}[op]()
    return type(r).left(), type(r).right()


def arith_cells(fmts, rng, n_pairs):
    cs = []
    pairs = list(itertools.product(fmts, fmts))
    rng.shuffle(pairs)
    for fa, fb in pairs[:n_pairs]:
        for kind in ("S", "U"):
            wa, wb = fa[0] - fa[1] + 1, fb[0] - fb[1] + 1
            if kind == "S" and (wa < 2 or wb < 2):
                continue
            for op in ("add", "sub", "mul"):
                try:
                    L, R = result_format(kind, op, fa, fb)
                except Exception as e:
                    cs.append(None)
                    continue
                W = L - R + 1
                ra, rb = fa[1], fb[1]
                src = {"add": "+", "sub": "-", "mul": "*"}[op]

                def spec(P, a, b, op=op, ra=ra, rb=rb, R=R, W=W, kind=kind):
                    # exact value scaled by 2**-R
                    if op == "mul":
                        sh = ra + rb - R
                        if sh < 0:
                            return None
                        v = a * b * (1 << sh)
                    else:
                        sa, sb = ra - R, rb - R
                        if sa < 0 or sb < 0:
                            return None
                        x, y = a * (1 << sa), b * (1 << sb)
                        v = x + y if op == "add" else x - y
                    if kind == "U" and op == "sub":
                        return P.wrap(v, W, False)  # documented: wraps modulo the result range
                    return v

                if spec(PyP, 0, 0) is None:
                    # the chosen format is too coarse to be exact for any operand
                    cs.append(("format-too-coarse", kind, op, fa, fb, (L, R)))
                    continue
                body = (f"x = std.from_bits[{fx(kind, *fa)}]({{a}})\ny = std.from_bits[{fx(kind, *fb)}]({{b}})\n"
                        f"{{o}} <<= std.to_bits(x {src} y).{'signed' if kind == 'S' else 'unsigned'}")
                cs.append(Cell(f"{op}|{kind}|{fa[0]}:{fa[1]}|{fb[0]}:{fb[1]}", [("a", Ty("BV", wa)), ("b", Ty("BV", wb))], Ty(kind, W), body,
                               (lambda P, a, b, spec=spec, kind=kind, wa=wa, wb=wb: spec(P, _m(P, a, kind, wa), _m(P, b, kind, wb))),
                               range_check=not (kind == "U" and op == "sub")))
    return cs


def _m(P, bits, kind, w):
    return P.wrap(bits, w, True) if kind == "S" else bits


def resize_spec(P, raw, r_src, L, R, kind, rnd, sat):
    W = L - R + 1
    if r_src >= R:
        v = raw * (1 << (r_src - R))
    else:
        k = R - r_src
        q = P.shr(raw, k)  # floor
        if rnd:
            rem = raw - P.shl(q, k) if not isinstance(q, int) else raw - (q << k)
            half = 1 << (k - 1)
            odd = P.band(q, P.const(1)) == 1
            up = P.lor(rem > half, P.land(rem == half, odd))
            q = q + P.b2i(up)
        v = q
    lo, hi = (-(1 << (W - 1)), (1 << (W - 1)) - 1) if kind == "S" else (0, (1 << W) - 1)
    if sat:
        return P.ite(v < lo, lo, P.ite(v > hi, hi, v))
    return P.wrap(v, W, kind == "S")


def exact_scaled(P, raw, r_src, R, rnd):
    """exact (rounded / truncated) value in units of 2**R, before any overflow handling"""
    if r_src >= R:
        return raw * (1 << (r_src - R))
    k = R - r_src
    q = P.shr(raw, k)
    if rnd:
        rem = raw - P.shl(q, k) if not isinstance(q, int) else raw - (q << k)
        half = 1 << (k - 1)
        odd = P.band(q, P.const(1)) == 1
        up = P.lor(rem > half, P.land(rem == half, odd))
        q = q + P.b2i(up)
    return q


def resize_cells(fmts, rng, n_pairs):
    """saturating cells are split into three separately decided obligations (value in range / above
    the maximum / below the minimum) so that a finding names the exact case"""
    cs = []
    pairs = list(itertools.product(fmts, fmts))
    rng.shuffle(pairs)
    for fs, ft in pairs[:n_pairs]:
        for kind in ("S", "U"):
            ws, wt = fs[0] - fs[1] + 1, ft[0] - ft[1] + 1
            if kind == "S" and (ws < 2 or wt < 2):
                continue
            lo, hi = (-(1 << (wt - 1)), (1 << (wt - 1)) - 1) if kind == "S" else (0, (1 << wt) - 1)
            for rnd, sat in itertools.product((False, True), (False, True)):
                rs, os_ = f"std.FixedRoundStyle.{'ROUND' if rnd else 'TRUNCATE'}", f"std.FixedOverflowStyle.{'SATURATE' if sat else 'WRAP'}"
                # the three spellings of the same request: positional call, subscript form, keyword call (defaults left out)
                spelling = len(cs) % 3
                if spelling == 0:
                    call = f"x.resize({ft[0]}, {ft[1]}, {rs}, {os_})"
                elif spelling == 1:
                    call = f"x.resize[{ft[0]}:{ft[1]}](" + ", ".join(([f"round_style={rs}"] if rnd else []) + ([f"overflow_style={os_}"] if sat else [])) + ")"
                else:
                    call = f"x.resize({ft[0]}, {ft[1]}" + "".join(([f", round_style={rs}"] if rnd else []) + ([f", overflow_style={os_}"] if sat else [])) + ")"
                body = f"x = std.from_bits[{fx(kind, *fs)}]({{a}})\n{{o}} <<= std.to_bits({call}).{'signed' if kind == 'S' else 'unsigned'}"
                base = f"resize|{kind}|{fs[0]}:{fs[1]}->{ft[0]}:{ft[1]}|{'round' if rnd else 'trunc'}|{'sat' if sat else 'wrap'}"
                spec = lambda P, a, kind=kind, ws=ws, fs=fs, ft=ft, rnd=rnd, sat=sat: resize_spec(P, _m(P, a, kind, ws), fs[1], ft[0], ft[1], kind, rnd, sat)
                ev = lambda P, a, kind=kind, ws=ws, fs=fs, ft=ft, rnd=rnd: exact_scaled(P, _m(P, a, kind, ws), fs[1], ft[1], rnd)
                if not sat:
                    cs.append(Cell(base + "|any", [("a", Ty("BV", ws))], Ty(kind, wt), body, spec))
                else:
                    cs.append(Cell(base + "|in-range", [("a", Ty("BV", ws))], Ty(kind, wt), body, spec, assume=lambda P, a, ev=ev, lo=lo, hi=hi: P.land(ev(P, a) >= lo, ev(P, a) <= hi)))
                    cs.append(Cell(base + "|above-max", [("a", Ty("BV", ws))], Ty(kind, wt), body, spec, assume=lambda P, a, ev=ev, hi=hi: ev(P, a) > hi))
                    cs.append(Cell(base + "|below-min", [("a", Ty("BV", ws))], Ty(kind, wt), body, spec, assume=lambda P, a, ev=ev, lo=lo: ev(P, a) < lo))
    return cs


def ctor_cells(fmts, rng, n):
    cs = []
    # from other formats (representable: target left >= source left, target right <= source right)
    pairs = [(fs, ft) for fs in fmts for ft in fmts if ft[0] >= fs[0] and ft[1] <= fs[1] and ft != fs and ft[0] - ft[1] + 1 <= 6]
    rng.shuffle(pairs)
    for fs, ft in pairs[:n]:
        for kind in ("S", "U"):
            ws, wt = fs[0] - fs[1] + 1, ft[0] - ft[1] + 1
            if kind == "S" and ws < 2:
                continue
            body = f"x = std.from_bits[{fx(kind, *fs)}]({{a}})\n{{o}} <<= std.to_bits({fx(kind, *ft)}(x)).{'signed' if kind == 'S' else 'unsigned'}"
            cs.append(Cell(f"from-format|{kind}|{fs[0]}:{fs[1]}->{ft[0]}:{ft[1]}", [("a", Ty("BV", ws))], Ty(kind, wt), body,
                           lambda P, a, kind=kind, ws=ws, fs=fs, ft=ft: _m(P, a, kind, ws) * (1 << (fs[1] - ft[1])), range_check=True))
    # from Signed / Unsigned (integer valued: right <= 0)
    for (l, r) in [f for f in fmts if f[1] <= 0 and f[0] >= 1][:6]:
        w = l - r + 1
        iw = l + 1
        if iw >= 2:
            cs.append(Cell(f"from-signed|{l}:{r}", [("a", S(iw))], S(w), f"{{o}} <<= std.to_bits(std.SFixed[{l}:{r}]({{a}})).signed", lambda P, a, r=r: a * (1 << -r), range_check=True))
        if iw >= 2:
            cs.append(Cell(f"sfixed-from-unsigned|{l}:{r}", [("a", U(iw - 1))], S(w), f"{{o}} <<= std.to_bits(std.SFixed[{l}:{r}]({{a}})).signed", lambda P, a, r=r: a * (1 << -r), range_check=True))
        cs.append(Cell(f"ufixed-from-unsigned|{l}:{r}", [("a", U(iw))], U(w), f"{{o}} <<= std.to_bits(std.UFixed[{l}:{r}]({{a}})).unsigned", lambda P, a, r=r: a * (1 << -r), range_check=True))
    # from int constants
    for (l, r) in [f for f in fmts if f[1] <= 0 and f[0] >= 1][:4]:
        w = l - r + 1
        for k in (0, 1, (1 << l) - 1, -(1 << l)):
            cs.append(Cell(f"sfixed-from-int|{l}:{r}|{k}", [], S(w), f"{{o}} <<= std.to_bits(std.SFixed[{l}:{r}]({k})).signed", lambda P, k=k, r=r: P.const(k * (1 << -r))))
            if k >= 0:
                cs.append(Cell(f"ufixed-from-int|{l}:{r}|{k}", [], U(w), f"{{o}} <<= std.to_bits(std.UFixed[{l}:{r}]({k})).unsigned", lambda P, k=k, r=r: P.const(k * (1 << -r))))
    # equality on represented numbers
    for (l, r) in fmts[:6]:
        w = l - r + 1
        for kind in ("S", "U"):
            if kind == "S" and w < 2:
                continue
            body = f"x = std.from_bits[{fx(kind, l, r)}]({{a}})\ny = std.from_bits[{fx(kind, l, r)}]({{b}})\n{{o}} <<= (x == y)"
            cs.append(Cell(f"eq|{kind}|{l}:{r}", [("a", BV(w)), ("b", BV(w))], BIT, body, lambda P, a, b: a == b))
    # equality with integer constants: representable or not, in range or not -- compares the represented numbers
    wide = [f for f in fmts if f[0] - f[1] + 1 >= 2]
    for (l, r) in [f for f in wide if f[1] > 0][:4] + [f for f in wide if f[1] == 0][:3] + [f for f in wide if f[1] < 0][:4]:
        w = l - r + 1
        for kind in ("S", "U"):
            lo_m, hi_m = (-(1 << (w - 1)), (1 << (w - 1)) - 1) if kind == "S" else (0, (1 << w) - 1)
            hi_v = hi_m * 2 ** r
            ks = sorted({0, 1, 2, 3, 5, -1, -2, -3, int(hi_v), int(hi_v) + 1, int(lo_m * 2 ** r), int(lo_m * 2 ** r) - 1})
            for k in ks:
                if kind == "U" and k < 0 and k != -1:
                    continue
                def spec(P, a, kind=kind, w=w, r=r, k=k):
                    m = _m(P, a, kind, w)
                    return (m * (1 << r) == k) if r >= 0 else (m == k * (1 << -r))
                body = f"x = std.from_bits[{fx(kind, l, r)}]({{a}})\n{{o}} <<= (x == {k})"
                cs.append(Cell(f"eq-int|{kind}|{l}:{r}|{k}", [("a", BV(w))], BIT, body, spec))
    return cs


def run(tier: str) -> int:
    rep = Reporter("C19", tier, "translation_validation")
    wd = Workdir()
    counts = {}
    try:
        rng = random.Random(rep.seed)
        fmts = formats(4 if tier == "quick" else 5)
        n = len(fmts) ** 2
        cells = arith_cells(fmts, rng, n // 3 if tier == "quick" else n) + resize_cells(fmts, rng, n // 4 if tier == "quick" else n) + ctor_cells(fmts, rng, 25 if tier == "quick" else 200)
        real = []
        for c in cells:
            if c is None:
                continue
            if isinstance(c, tuple):
                rep.violation(f"{c[2]}|{c[1]}|format-too-coarse", f"result format {c[5]} of {c[2]} on {c[3]},{c[4]} cannot hold the exact result", {"cell": str(c)})
                continue
            real.append(c)
        for k in range(0, len(real), 30):
            for res in run_cells(rep, wd, real[k:k + 30], "concurrent", timeout_ms=60000):
                counts[res.status] = counts.get(res.status, 0) + 1
                key = res.cell.key
                parts = key.split("|")
                fam = "|".join(parts[:2]) if parts[0] != "resize" else f"resize|{parts[1]}|{parts[3]}|{parts[4]}|{parts[5]}"
                if res.status == "ok":
                    rep.stats.nontrivial.add(key)
                    if len(rep.stats.samples) < 4 and parts[0] in ("resize", "mul"):
                        rep.stats.sample({"cell": key, "body": res.cell.body, "verdict": "unsat: equals exact scaled-integer definition for all raw values"})
                elif res.status == "mismatch":
                    rep.violation(f"{fam}|{_shape(parts)}", f"{key}: raw {res.detail['inputs_math']} -> got {res.detail['got_bits']}, exact definition gives {res.detail['want_bits']}", res.detail)
                elif res.status == "rejected":
                    rep.violation(f"{fam}|rejected|{_shape(parts)}", f"{key} rejected: {res.detail}", {"detail": res.detail, "body": res.cell.body})
                elif res.status == "illegal":
                    rep.violation(f"{fam}|illegal", f"{key}: emitted VHDL illegal: {res.detail['msg']}", res.detail)
                elif res.status == "vacuous":
                    pass
                else:
                    rep.inconclusive_query(f"{key}: {res.detail}")
        kern = run_kernels(rep, tier)
        rep.stats.units |= {"SFixed/UFixed._adjust_val (AST -> QF_BVFP, right bounds -6..6)"}
        rep.stats.units |= {"cohdl.std._fixed.SFixed/UFixed.__add__/__sub__/__mul__ (result formats)", "SFixed/UFixed.resize_fn (overflow x shift x round style x overflow style)",
                            "SFixed/UFixed.__init__ (from int, Signed, Unsigned, other formats)", "__eq__", "_from_bits_/_to_bits_"}
        rep.assumptions += ["formats left in [-2..3], right in [-3..2], width <= %d; all raw values symbolic" % (4 if tier == "quick" else 5),
                            "construction from Python floats is outside (floating point)", "ROUND = round half to even on the exact value, then WRAP/SATURATE"]
        return rep.finish({
            "programs": rep.stats.programs, "cells": len(real), "cell_results": counts, "full_width_kernels": kern,
            "disagreements_checked": len(rep.violations) + len(rep.known_hits),
            "distinct_nontrivial": len(rep.stats.nontrivial), "evaluations": len(real),
            "rule": "one cell = operation x format pair x style combination, all raw values",
            "samples": rep.stats.samples or [{"cell": real[0].key, "body": real[0].body}],
        })
    finally:
        wd.close()


# ---------------------------------------------------------------- full-width kernel: number -> raw integer (`_adjust_val`)
def run_kernels(rep, tier):
    """SFixed/UFixed._adjust_val translated from its AST (vfw/pykernel.py) for every right bound in -6..6: an integer that the
    format can represent is mapped to exactly its raw value, for all raw values of up to 62 bits (the code divided through
    float64, which CrossHair models as reals)."""
    import inspect
    import time as _time
    import z3
    from cohdl import std
    from .. import pykernel as K
    N, RAWBITS = 80, 62
    counts, samples = {}, []
    for kind, cls in (("S", std.SFixed), ("U", std.UFixed)):
        fn = inspect.unwrap(cls.__dict__["_adjust_val"].__func__)
        for exp in range(-6, 7):
            m = z3.BitVec("m", N)
            lim = z3.BitVecVal(1 << RAWBITS, N)
            # representable integers: val = m * 2**exp for exp >= 0; for exp < 0 every integer val with raw = val * 2**-exp in range
            if exp >= 0:
                val, want, dom = m << exp, m, [m < lim, (m >= 0) if kind == "U" else (m > -lim)]
            else:
                val, want, dom = m, m << (-exp), [m < z3.BitVecVal(1 << (RAWBITS + exp), N), (m >= 0) if kind == "U" else (m > -z3.BitVecVal(1 << (RAWBITS + exp), N))]
            tr = K.Translator(N, {}, consts={"cls._exp": exp})
            key = f"{cls.__name__}._adjust_val|exp={exp}"
            try:
                got = tr.function(fn, {"val": ("int", val)})
            except K.Untranslatable as e:
                rep.inconclusive_query(f"kernel {key}: not translatable: {e}")
                continue
            if got[0] != "int":
                rep.inconclusive_query(f"kernel {key}: result is not an integer")
                continue
            sv = z3.Solver()
            sv.set("timeout", 300000 if tier == "quick" else 1200000)
            sv.add(*dom)
            t0 = _time.time()
            twin = str(sv.check())
            sv.add(got[1] != want)
            r = str(sv.check())
            rep.stats.queries += 1
            rep.stats.solver_s += _time.time() - t0
            counts[r] = counts.get(r, 0) + 1
            if r == "unsat" and twin == "sat":
                rep.stats.unsat += 1
                rep.stats.nontrivial.add("kernel|" + key)
                if len(samples) < 2:
                    samples.append({"kernel": key, "verdict": f"unsat: every representable integer with a raw value below 2**{RAWBITS} is converted exactly"})
            elif r == "sat":
                rep.stats.sat += 1
                mv = sv.model().eval(m, model_completion=True).as_signed_long()
                number = mv << exp if exp >= 0 else mv
                raw_want = mv if exp >= 0 else mv << (-exp)
                T = cls[exp + 63:exp]
                try:
                    raw_got = T(number)._val.to_int()
                except BaseException as e:
                    if isinstance(e, (KeyboardInterrupt, SystemExit)):
                        raise
                    raw_got = f"{type(e).__name__}: {str(e)[:80]}"
                if raw_got != raw_want:
                    rep.violation(f"kernel|{cls.__name__}._adjust_val", f"{cls.__name__}[{exp + 63}:{exp}]({number}) holds the raw value {raw_got}, the represented number needs {raw_want}",
                                  {"number": number, "exp": exp, "raw_got": str(raw_got), "raw_want": raw_want})
                else:
                    rep.inconclusive_query(f"kernel {key}: witness {number} does not reproduce")
            else:
                rep.stats.unknown += 1
                rep.inconclusive_query(f"kernel {key}: {r} (twin {twin})")
    return {"kernels": 26, "results": counts, "raw_bits": RAWBITS, "samples": samples}


def _shape(parts):
    """relation between source and target format: part of the finding key"""
    if parts[0] in ("resize", "from-format") and "->" in parts[2]:
        s, t = parts[2].split("->")
        sl, sr = map(int, s.split(":"))
        tl, tr = map(int, t.split(":"))
        pos = "target-above-source" if tr > sl else ("target-below-source" if tl < sr else "overlap")
        return f"{pos}|left{_rel(tl, sl)}|right{_rel(tr, sr)}"
    return "any"


def _rel(a, b):
    return "=" if a == b else (">" if a > b else "<")
