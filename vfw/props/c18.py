"""C18 -- std combinational helpers compute their mathematical definition.
Every helper of the statement in a concurrent wrapper; output proved equal to a bit-loop
specification for ALL input values (z3).  CRC: bitwise polynomial division, one-step inductive
(arbitrary register contents) for 1..3 bits per step."""
from __future__ import annotations
import itertools
import random

from ..core import Reporter, Workdir
from ..cells import Cell, run_cells
from ..spec import Ty, U, S, BV, BIT, PyP
from .. import spec as SP


def bit(P, x, i):
    return P.band(P.shr(x, i), P.const(1))


def popcount(P, x, w):
    s = P.const(0)
    for i in range(w):
        s = s + bit(P, x, i)
    return s


def from_bits_list(P, bits):
    """bits[0] = LSB"""
    r = P.const(0)
    for i, b in enumerate(bits):
        r = r + P.shl(b, i)
    return r


def cnt_while(P, conds):
    """number of leading true conditions"""
    r = P.const(len(conds))
    for i in range(len(conds) - 1, -1, -1):
        r = P.ite(conds[i], r, i)
    return r


def helper_cells(maxw, rng):
    cs = []
    W = range(1, maxw + 1)
    OW = 8
    for w in W:
        t = BV(w)
        for bs in (2, 3, 6):
            if bs != 6 and w < 3:
                continue
            cs.append(Cell(f"count_set_bits|{w}|bs{bs}", [("a", t)], U(OW), f"{{o}} <<= std.count_set_bits({{a}}, batch_size={bs})", lambda P, a, w=w: popcount(P, a, w)))
        cs.append(Cell(f"count_clear_bits|{w}", [("a", t)], U(OW), "{o} <<= std.count_clear_bits({a})", lambda P, a, w=w: w - popcount(P, a, w)))
        cs.append(Cell(f"ctz|{w}", [("a", t)], U(OW), "{o} <<= std.count_trailing_zeros({a})", lambda P, a, w=w: cnt_while(P, [bit(P, a, i) == 0 for i in range(w)])))
        cs.append(Cell(f"cto|{w}", [("a", t)], U(OW), "{o} <<= std.count_trailing_ones({a})", lambda P, a, w=w: cnt_while(P, [bit(P, a, i) == 1 for i in range(w)])))
        cs.append(Cell(f"clz|{w}", [("a", t)], U(OW), "{o} <<= std.count_leading_zeros({a})", lambda P, a, w=w: cnt_while(P, [bit(P, a, i) == 0 for i in range(w - 1, -1, -1)])))
        cs.append(Cell(f"clo|{w}", [("a", t)], U(OW), "{o} <<= std.count_leading_ones({a})", lambda P, a, w=w: cnt_while(P, [bit(P, a, i) == 1 for i in range(w - 1, -1, -1)])))
        cs.append(Cell(f"is_one_hot|{w}", [("a", t)], BIT, "{o} <<= std.is_one_hot({a})", lambda P, a, w=w: popcount(P, a, w) == 1))
        cs.append(Cell(f"reverse_bits|{w}", [("a", t)], t, "{o} <<= std.reverse_bits({a})", lambda P, a, w=w: from_bits_list(P, [bit(P, a, w - 1 - i) for i in range(w)])))
        for n in range(0, w + 1):
            cs.append(Cell(f"rol|{w}|{n}", [("a", t)], t, f"{{o}} <<= std.rol({{a}}, {n})", lambda P, a, w=w, n=n: from_bits_list(P, [bit(P, a, (i - n) % w) for i in range(w)])))
            cs.append(Cell(f"ror|{w}|{n}", [("a", t)], t, f"{{o}} <<= std.ror({{a}}, {n})", lambda P, a, w=w, n=n: from_bits_list(P, [bit(P, a, (i + n) % w) for i in range(w)])))
        # one_hot with run-time position
        k = max(1, (w - 1).bit_length())
        cs.append(Cell(f"one_hot|{w}", [("p", U(k))], t, f"{{o}} <<= std.one_hot({w}, {{p}})", lambda P, p, w=w: P.shl(1, p) if not isinstance(p, int) else (1 << p),
                       assume=lambda P, p, w=w: p < w))
        for fw in range(1, min(w, 3) + 1):
            cs.append(Cell(f"lshift_fill|{w}|{fw}", [("a", t), ("f", BV(fw))], t, "{o} <<= std.lshift_fill({a}, {f})", lambda P, a, f, w=w, fw=fw: P.wrap(P.shl(a, fw) + f, w, False)))
            cs.append(Cell(f"rshift_fill|{w}|{fw}", [("a", t), ("f", BV(fw))], t, "{o} <<= std.rshift_fill({a}, {f})", lambda P, a, f, w=w, fw=fw: P.shr(P.shl(f, w) + a, fw)))
        cs.append(Cell(f"lshift_fill_bit|{w}", [("a", t), ("f", BIT)], t, "{o} <<= std.lshift_fill({a}, {f})", lambda P, a, f, w=w: P.wrap(P.shl(a, 1) + f, w, False)))
        cs.append(Cell(f"rshift_fill_bit|{w}", [("a", t), ("f", BIT)], t, "{o} <<= std.rshift_fill({a}, {f})", lambda P, a, f, w=w: P.shr(P.shl(f, w) + a, 1)))
        for times in (1, 2, 3):
            if w * times > 12:
                continue
            cs.append(Cell(f"repeat|{w}|{times}", [("a", t)], BV(w * times), f"{{o}} <<= std.repeat({{a}}, {times})", lambda P, a, w=w, times=times: sum((P.shl(a, w * k) for k in range(1, times)), a)))
            cs.append(Cell(f"stretch|{w}|{times}", [("a", t)], BV(w * times), f"{{o}} <<= std.stretch({{a}}, {times})",
                           lambda P, a, w=w, times=times: from_bits_list(P, [bit(P, a, i // times) for i in range(w * times)])))
        for extra in (0, 1, 3):
            rw = w + extra
            cs.append(Cell(f"leftpad|{w}|{rw}", [("a", t)], BV(rw), f"{{o}} <<= std.leftpad({{a}}, {rw})", lambda P, a: a))
            cs.append(Cell(f"rightpad|{w}|{rw}", [("a", t)], BV(rw), f"{{o}} <<= std.rightpad({{a}}, {rw})", lambda P, a, extra=extra: P.shl(a, extra)))
            cs.append(Cell(f"leftpad_fill|{w}|{rw}", [("a", t), ("f", BIT)], BV(rw), f"{{o}} <<= std.leftpad({{a}}, {rw}, {{f}})",
                           lambda P, a, f, w=w, extra=extra: a + P.shl(f * ((1 << extra) - 1), w)))
            cs.append(Cell(f"rightpad_full|{w}|{rw}", [("a", t)], BV(rw), f"{{o}} <<= std.rightpad({{a}}, {rw}, Full)",
                           lambda P, a, extra=extra: P.shl(a, extra) + ((1 << extra) - 1)))
        cs.append(Cell(f"pad|{w}", [("a", t), ("f", BIT)], BV(w + 3), "{o} <<= std.pad({a}, left=1, right=2, fill={f})",
                       lambda P, a, f, w=w: P.shl(f, w + 2) + P.shl(a, 2) + f * 3))
        cs.append(Cell(f"apply_mask|{w}", [("a", t), ("b", t), ("m", t)], t, "{o} <<= std.apply_mask({a}, {b}, {m})",
                       lambda P, a, b, m, w=w: from_bits_list(P, [P.ite(bit(P, m, i) == 1, bit(P, b, i), bit(P, a, i)) for i in range(w)])))
        cs.append(Cell(f"Mask.apply|{w}", [("a", t), ("b", t), ("m", t)], t, "{o} <<= std.Mask({m}).apply({a}, {b})",
                       lambda P, a, b, m, w=w: from_bits_list(P, [P.ite(bit(P, m, i) == 1, bit(P, b, i), bit(P, a, i)) for i in range(w)])))
    # concat
    cs.append(Cell("concat|3", [("a", BV(2)), ("b", BIT), ("c", U(3))], BV(6), "{o} <<= std.concat({a}, {b}, {c})", lambda P, a, b, c: P.shl(a, 4) + P.shl(b, 3) + c))
    cs.append(Cell("concat|1bit", [("b", BIT)], BV(1), "{o} <<= std.concat({b})", lambda P, b: b))
    # batched / select_batch
    for n, cnt in ((2, 3), (3, 2), (1, 4)):
        w = n * cnt
        for k in range(cnt):
            cs.append(Cell(f"batched|{w}|{n}|{k}", [("a", BV(w))], BV(n), f"{{o}} <<= std.batched({{a}}, {n})[{k}]", lambda P, a, n=n, k=k: P.wrap(P.shr(a, n * k), n, False)))
        cs.append(Cell(f"select_batch|{w}|{n}", [("a", BV(w)), ("s", BV(cnt))], BV(n), f"{{o}} <<= std.select_batch({{a}}, {{s}}, {n})",
                       lambda P, a, s, n=n, cnt=cnt: _or_all(P, [P.ite(bit(P, s, k) == 1, P.wrap(P.shr(a, n * k), n, False), P.const(0)) for k in range(cnt)])))
    # min / max families (first extremum wins)
    for kind in ("U", "S"):
        for w in (2, 3):
            t = Ty(kind, w)
            ins = [("a", t), ("b", t), ("c", t), ("d", t)]
            lst = "[{a}, {b}, {c}, {d}]"
            cs.append(Cell(f"minimum|{t}", ins, t, f"{{o}} <<= std.minimum({lst})", lambda P, *v: _ext(P, v, lambda x, y: x < y)[1]))
            cs.append(Cell(f"maximum|{t}", ins, t, f"{{o}} <<= std.maximum({lst})", lambda P, *v: _ext(P, v, lambda x, y: x > y)[1]))
            cs.append(Cell(f"minimum_args|{t}", ins[:3], t, "{o} <<= std.minimum({a}, {b}, {c})", lambda P, *v: _ext(P, v, lambda x, y: x < y)[1]))
            cs.append(Cell(f"min_element_idx|{t}", ins, U(4), f"{{o}} <<= std.min_element({lst})[0]", lambda P, *v: _ext(P, v, lambda x, y: x < y)[0]))
            cs.append(Cell(f"min_element_val|{t}", ins, t, f"{{o}} <<= std.min_element({lst})[1]", lambda P, *v: _ext(P, v, lambda x, y: x < y)[1]))
            cs.append(Cell(f"max_element_idx|{t}", ins, U(4), f"{{o}} <<= std.max_element({lst})[0]", lambda P, *v: _ext(P, v, lambda x, y: x > y)[0]))
            cs.append(Cell(f"max_element_val|{t}", ins, t, f"{{o}} <<= std.max_element({lst})[1]", lambda P, *v: _ext(P, v, lambda x, y: x > y)[1]))
            cs.append(Cell(f"min_index|{t}", ins, U(4), f"{{o}} <<= std.min_index({lst})", lambda P, *v: _ext(P, v, lambda x, y: x < y)[0]))
            cs.append(Cell(f"max_index|{t}", ins, U(4), f"{{o}} <<= std.max_index({lst})", lambda P, *v: _ext(P, v, lambda x, y: x > y)[0]))
            cs.append(Cell(f"clamp|{t}", [("a", t), ("l", t), ("h", t)], t, "{o} <<= std.clamp({a}, {l}, {h})", lambda P, a, l, h: P.ite(a < l, l, P.ite(h < a, h, a)),
                           assume=lambda P, a, l, h: l <= h))
            cs.append(Cell(f"count_value|{t}", ins, U(4), f"{{o}} <<= std.count({lst}, {{a}})", lambda P, *v: sum((P.b2i(x == v[0]) for x in v[1:]), 1)))
            cs.append(Cell(f"count_check|{t}", ins, U(4), f"{{o}} <<= std.count({lst}, check=lambda x: x > {{b}})", lambda P, *v: sum((P.b2i(x > v[1]) for x in v), 0)))
            cs.append(Cell(f"count_while|{t}", ins, U(4), f"{{o}} <<= std.count_elements_while({lst}, {{a}})", lambda P, *v: cnt_while(P, [x == v[0] for x in v])))
            cs.append(Cell(f"count_until|{t}", ins, U(4), f"{{o}} <<= std.count_elements_until({lst}, {{d}})", lambda P, *v: cnt_while(P, [x != v[3] for x in v])))
            cs.append(Cell(f"count_while_cond|{t}", ins, U(4), f"{{o}} <<= std.count_elements_while({lst}, cond=lambda x: x < {{d}})", lambda P, *v: cnt_while(P, [x < v[3] for x in v])))
    # user supplied keys (not idempotent: key(key(x)) != key(x)) and predicate forms
    for w in (2, 3):
        t = U(w)
        top = (1 << w) - 1
        ins = [("a", t), ("b", t), ("c", t), ("d", t)]
        lst = "[{a}, {b}, {c}, {d}]"
        key = f"lambda x: Unsigned[{w}]({top}) - x"
        kf = lambda x, top=top: top - x
        cs.append(Cell(f"max_index_key|{t}", ins, U(4), f"{{o}} <<= std.max_index({lst}, key={key})", lambda P, *v, kf=kf: _ext(P, [kf(x) for x in v], lambda x, y: x > y)[0]))
        cs.append(Cell(f"min_index_key|{t}", ins, U(4), f"{{o}} <<= std.min_index({lst}, key={key})", lambda P, *v, kf=kf: _ext(P, [kf(x) for x in v], lambda x, y: x < y)[0]))
        cs.append(Cell(f"max_element_key_idx|{t}", ins, U(4), f"{{o}} <<= std.max_element({lst}, key={key})[0]", lambda P, *v, kf=kf: _ext(P, [kf(x) for x in v], lambda x, y: x > y)[0]))
        cs.append(Cell(f"min_element_key_val|{t}", ins, t, f"{{o}} <<= std.min_element({lst}, key={key})[1]",
                       lambda P, *v, kf=kf: _pick(P, v, _ext(P, [kf(x) for x in v], lambda x, y: x < y)[0])))
        cs.append(Cell(f"maximum_key|{t}", ins, t, f"{{o}} <<= std.maximum({lst}, key={key})", lambda P, *v, kf=kf: _pick(P, v, _ext(P, [kf(x) for x in v], lambda x, y: x > y)[0])))
        cs.append(Cell(f"minimum_key|{t}", ins, t, f"{{o}} <<= std.minimum({lst}, key={key})", lambda P, *v, kf=kf: _pick(P, v, _ext(P, [kf(x) for x in v], lambda x, y: x < y)[0])))
        cs.append(Cell(f"maximum_args_key|{t}", ins, t, f"{{o}} <<= std.maximum({{a}}, {{b}}, {{c}}, {{d}}, key={key})", lambda P, *v, kf=kf: _pick(P, v, _ext(P, [kf(x) for x in v], lambda x, y: x > y)[0])))
        cs.append(Cell(f"minimum_args_key|{t}", ins, t, f"{{o}} <<= std.minimum({{a}}, {{b}}, {{c}}, {{d}}, key={key})", lambda P, *v, kf=kf: _pick(P, v, _ext(P, [kf(x) for x in v], lambda x, y: x < y)[0])))
        cs.append(Cell(f"minimum_args2_key|{t}", ins[:2], t, f"{{o}} <<= std.minimum({{a}}, {{b}}, key={key})", lambda P, *v, kf=kf: _pick(P, v, _ext(P, [kf(x) for x in v], lambda x, y: x < y)[0])))
        cs.append(Cell(f"count_until_cond|{t}", ins, U(4), f"{{o}} <<= std.count_elements_until({lst}, cond=lambda x: x > {{d}})", lambda P, *v: cnt_while(P, [P.lnot(x > v[3]) for x in v])))
        cs.append(Cell(f"count_until_cond_eq|{t}", ins, U(4), f"{{o}} <<= std.count_elements_until({lst}, cond=lambda x: x == {{b}})", lambda P, *v: cnt_while(P, [x != v[1] for x in v])))
    for w in (3, 5):
        cs.append(Cell(f"count_until_cond_bits|{w}", [("a", BV(w))], U(4), "{o} <<= std.count_elements_until({a}, cond=lambda x: x == Bit(1))",
                       lambda P, a, w=w: cnt_while(P, [bit(P, a, i) == 0 for i in range(w)])))
        cs.append(Cell(f"count_while_cond_bits|{w}", [("a", BV(w))], U(4), "{o} <<= std.count_elements_while({a}, cond=lambda x: x == Bit(1))",
                       lambda P, a, w=w: cnt_while(P, [bit(P, a, i) == 1 for i in range(w)])))
    # selection helpers
    t = U(3)
    cs.append(Cell("choose_first", [("a", t), ("b", t), ("c", t), ("x", BIT), ("y", BIT)], t, "{o} <<= std.choose_first[Unsigned[3]](({x}, {a}), ({y}, {b}), default={c})",
                   lambda P, a, b, c, x, y: P.ite(x != 0, a, P.ite(y != 0, b, c))))
    cs.append(Cell("cond", [("a", t), ("b", t), ("x", BIT)], t, "{o} <<= std.cond[Unsigned[3]]({x}, {a}, {b})", lambda P, a, b, x: P.ite(x != 0, a, b)))
    cs.append(Cell("select", [("a", t), ("b", t), ("s", BV(2))], t, '{o} <<= std.select[Unsigned[3]]({s}, {{"01": {a}, "10": {b}}}, default=Unsigned[3](7))',
                   lambda P, a, b, s: P.ite(s == 1, a, P.ite(s == 2, b, 7))))
    # folds vs sequential left fold
    for n in (1, 2, 3, 5, 7):
        ins = [(f"v{i}", U(3)) for i in range(n)]
        lst = "[" + ", ".join(f"{{v{i}}}" for i in range(n)) + "]"
        for opn, src, f in (("add", "lambda x, y: x + y", lambda P, x, y: P.wrap(x + y, 3, False)), ("and", "lambda x, y: x & y", lambda P, x, y: P.band(x, y)),
                            ("xor", "lambda x, y: x ^ y", lambda P, x, y: P.bxor(x, y))):
            cs.append(Cell(f"binary_fold|{opn}|{n}", ins, U(3), f"{{o}} <<= std.binary_fold({src}, {lst})", lambda P, *v, f=f: _fold(P, f, v)))
            cs.append(Cell(f"binary_fold_right|{opn}|{n}", ins, U(3), f"{{o}} <<= std.binary_fold({src}, {lst}, right_fold=True)", lambda P, *v, f=f: _fold(P, f, v)))
            for bsz in (2, 3):
                cs.append(Cell(f"batched_fold|{opn}|{n}|{bsz}", ins, U(3), f"{{o}} <<= std.batched_fold({src}, {lst}, batch_size={bsz})", lambda P, *v, f=f: _fold(P, f, v)))
    for n in (2, 3, 4):
        ins = [(f"v{i}", BV(2)) for i in range(n)]
        lst = "[" + ", ".join(f"{{v{i}}}" for i in range(n)) + "]"
        cs.append(Cell(f"binary_fold|concat|{n}", ins, BV(2 * n), f"{{o}} <<= std.binary_fold(lambda x, y: x @ y, {lst})", lambda P, *v: _fold(P, lambda P, x, y: P.shl(x, 2) + y, v)))
        # non-commutative operators through the right fold: fn(v0, fn(v1, ...)) -- same operand order as the left fold
        cs.append(Cell(f"binary_fold_right|concat|{n}", ins, BV(2 * n), f"{{o}} <<= std.binary_fold(lambda x, y: x @ y, {lst}, right_fold=True)", lambda P, *v: _fold(P, lambda P, x, y: P.shl(x, 2) + y, v)))
        cs.append(Cell(f"binary_fold_right|sub|{n}", [(k, U(2)) for k, _ in ins], U(2), f"{{o}} <<= std.binary_fold(lambda x, y: x - y, {lst}, right_fold=True)",
                       lambda P, *v: _fold_right(P, lambda P, x, y: P.wrap(x - y, 2, False), v)))
        cs.append(Cell(f"binary_fold|sub|{n}", [(k, U(2)) for k, _ in ins], U(2), f"{{o}} <<= std.binary_fold(lambda x, y: x - y, {lst})",
                       lambda P, *v: _fold(P, lambda P, x, y: P.wrap(x - y, 2, False), v)))
        cs.append(Cell(f"batched_fold|concat|{n}", ins, BV(2 * n), f"{{o}} <<= std.batched_fold(lambda x, y: x @ y, {lst})", lambda P, *v: _fold(P, lambda P, x, y: P.shl(x, 2) + y, v)))
    return cs


def _fold_right(P, f, v):
    acc = v[-1]
    for x in reversed(v[:-1]):
        acc = f(P, x, acc)
    return acc


def _or_all(P, xs):
    r = xs[0]
    for x in xs[1:]:
        r = P.bor(r, x)
    return r


def _fold(P, f, v):
    r = v[0]
    for x in v[1:]:
        r = f(P, r, x)
    return r


def _pick(P, v, idx):
    r = v[-1]
    for i in range(len(v) - 2, -1, -1):
        r = P.ite(idx == i, v[i], r)
    return r


def _ext(P, v, better):
    """first extremum wins -> (index, value)"""
    idx, val = P.const(0), v[0]
    for i, x in enumerate(v[1:], 1):
        c = better(x, val)
        idx = P.ite(c, i, idx)
        val = P.ite(c, x, val)
    return idx, val


def crc_cells():
    """BitwiseCrc: one update from an ARBITRARY register value (inductive) vs polynomial division"""
    cs = []
    for pw, poly in ((3, 0b011), (4, 0b0011), (5, 0b00101), (5, 0b10101)):
        ps = format(poly, f"0{pw}b")

        def step(P, reg, d, pw=pw, poly=poly):
            msb = bit(P, reg, pw - 1)
            sh = P.wrap(P.shl(reg, 1), pw, False)
            return P.ite(P.bxor(msb, d) == 1, P.bxor(sh, P.const(poly)), sh)

        for nbits in (1, 2, 3):
            ins = [("r", BV(pw))] + [(f"d{i}", BIT) for i in range(nbits)]
            data = ", ".join(f"{{d{i}}}" for i in range(nbits))
            body = (f"crc{{cellno}} = std.crc.BitwiseCrc(BitVector[{pw}]('{ps}'))\n"
                    f"crc{{cellno}}._reg = Signal[BitVector[{pw}]]({{r}})\n")
            # (the register is replaced by a locally constructed signal initialised from the input: one step from any value)
            upd = f"crc{{cellno}}.update_multiple({data})" if nbits > 1 else f"crc{{cellno}}.update({data})"

            def spec(P, r, *d, step=step):
                for x in d:
                    r = step(P, r, x)
                return r
            cs.append(Cell(f"crc|{pw}|{ps}|{nbits}", ins, BV(pw),
                           f"{{o}} <<= c18_crc_step(BitVector[{pw}]('{ps}'), {{r}}, {data})",
                           spec, setup=_CRC_SETUP))
    return cs


_CRC_SETUP = '''
def c18_crc_step(poly, reg, *data):
    crc = std.crc.BitwiseCrc(poly)
    return crc._calc_steps(reg, *data)
'''


def run(tier: str) -> int:
    rep = Reporter("C18", tier, "translation_validation")
    wd = Workdir()
    counts = {}
    try:
        rng = random.Random(rep.seed)
        cells = helper_cells(5 if tier == "quick" else 8, rng) + crc_cells()
        # compile-time twins: the same helper called with literals is evaluated by the Python-level implementation
        # during compilation and must give the same defining function (sampled input patterns, no solver needed)
        from ..cells import constify
        twins = []
        for c in helper_cells(4, random.Random(1)):
            twins += constify(c, 8 if tier == "quick" else 32, rng)[: 3 if tier == "quick" else 12]
        cells = cells + twins
        for k in range(0, len(cells), 30):
            for res in run_cells(rep, wd, cells[k:k + 30], "concurrent", timeout_ms=60000):
                counts[res.status] = counts.get(res.status, 0) + 1
                key = res.cell.key
                fam = key.split("|")[0] if not key.startswith("const|") else "const|" + key.split("|")[1]
                if res.status == "ok":
                    rep.stats.nontrivial.add(key)
                    if len(rep.stats.samples) < 5 and fam in ("count_set_bits", "min_element_idx", "batched_fold", "crc"):
                        rep.stats.sample({"cell": key, "body": res.cell.body, "verdict": "unsat: output == definition for all inputs"})
                elif res.status == "mismatch":
                    rep.violation(f"{fam}|{key}", f"helper differs from its definition: inputs {res.detail['inputs_math']} -> got {res.detail['got_bits']}, want {res.detail['want_bits']}", res.detail)
                elif res.status == "rejected" and key.startswith("const|"):
                    # the helper does not accept plain (unqualified) constants: no value is produced, nothing to compare
                    counts["const-rejected"] = counts.get("const-rejected", 0) + 1
                    counts["rejected"] -= 1
                elif res.status == "rejected":
                    rep.violation(f"{fam}|rejected|{key}", f"helper call rejected: {res.detail}", {"detail": res.detail, "body": res.cell.body})
                elif res.status == "illegal":
                    rep.violation(f"{fam}|illegal|{key}", f"emitted VHDL illegal: {res.detail['msg']}", res.detail)
                elif res.status == "vacuous":
                    pass
                else:
                    rep.inconclusive_query(f"{key}: {res.detail}")
        rep.stats.units |= {"cohdl.std._core_utility (count_*_bits, count_leading/trailing_*, one_hot, is_one_hot, reverse_bits, rol, ror, *shift_fill, repeat, stretch, *pad, concat, apply_mask, Mask, batched, select_batch, parity, minimum/maximum, min/max_element, min/max_index, count, clamp, count_elements_while/until, choose_first, select, cond, binary_fold, batched_fold)",
                            "cohdl.std._crc.BitwiseCrc._calc_steps"}
        rep.assumptions += ["compile-time twins: %d helper calls with literal arguments (widths <= 4, sampled patterns incl. corners) must fold to the constant the definition gives" % len(twins),
                            "widths 1..%d, list lengths <= 7, batch sizes 2/3/6" % (5 if tier == "quick" else 8), "one_hot: position < width; clamp: low <= high",
                            "CRC: one step of 1..3 data bits from an arbitrary register value (inductive over message length) for 4 polynomials of width <= 5"]
        return rep.finish({
            "programs": rep.stats.programs, "cells": len(cells), "cell_results": counts,
            "disagreements_checked": counts.get("mismatch", 0) + counts.get("rejected", 0) + counts.get("illegal", 0),
            "distinct_nontrivial": len(rep.stats.nontrivial), "evaluations": len(cells),
            "rule": "one cell = helper x width/length/batch configuration, proved equal to its defining function for all inputs",
            "samples": rep.stats.samples or [{"cell": cells[0].key, "body": cells[0].body}],
        })
    finally:
        wd.close()
