"""Elaboration, static legality checks and event-driven (delta cycle) interpretation of the VHDL
subset -- DESIGN 2.3/2.4 and Appendix A.  One interpreter for both domains (see dom.py)."""
from __future__ import annotations
import itertools
import re
import z3
from . import dom as D
from . import vhdl_parse as P
from .vhdl_parse import Illegal, Unsupported
from .vhdl_types import (
    TStd, TBool, TInt, TStr, TVec, TEnum, TArr, STD, BOOL, INT, INT_W, V, norm_vec, width_of,
    v_ite, v_eq, fresh, default_value, is_concrete,
)
from .vhdl_eval import Evaluator, int_v, int_signed, PREDEFINED

_BUILTIN_TYPES = {
    "std_logic": STD, "std_ulogic": STD, "boolean": BOOL, "integer": INT, "natural": INT, "positive": INT,
    "std_logic_vector": "slv", "std_ulogic_vector": "slv", "unsigned": "unsigned", "signed": "signed",
}
_BUILTIN_FUNCS = {"resize", "to_integer", "to_unsigned", "to_signed", "shift_left", "shift_right",
                  "rising_edge", "falling_edge"}


def builtin_scope():
    sc = {}
    for k, t in _BUILTIN_TYPES.items():
        sc[k] = ("type", t)
    for f in _BUILTIN_FUNCS:
        sc[f] = ("builtin_func", f)
    sc["true"] = ("builtin_lit", V(BOOL, True, True))
    sc["false"] = ("builtin_lit", V(BOOL, False, True))
    for lib in ("ieee", "work", "std"):
        sc[lib] = ("library", lib)
    return sc


class Scope:
    def __init__(self, parent=None, what="scope"):
        self.parent = parent
        self.d = {}
        self.what = what

    def declare(self, name, entry, node=None, allow_hide=False):
        low = name.lower()
        if entry[0] == "enumlit" and low in self.d and self.d[low][0] == "enumlit":
            self.d[low] = ("enumlit", self.d[low][1] + entry[1])
            return
        if low in self.d:
            raise Illegal("duplicate-declaration", f"{name!r} declared twice in {self.what}", getattr(node, "line", None))
        if not allow_hide and self.parent is not None and isinstance(self.parent, Scope):
            p = self.parent.lookup(low)
            if p is not None and p[0] not in ("builtin_func", "builtin_lit", "type_builtin", "library") and not (p[0] == "type" and low in _BUILTIN_TYPES):
                raise Illegal("hiding", f"{name!r} in {self.what} hides an outer declaration", getattr(node, "line", None))
        self.d[low] = entry

    def lookup(self, low):
        s = self
        while s is not None:
            if low in s.d:
                return s.d[low]
            s = s.parent
        return None


class StaticEval(Evaluator):
    """evaluator for static contexts (declarations)"""

    class _Env:
        def __init__(self, scope):
            self.scope = scope

        def resolve(self, name, node=None):
            r = self.scope.lookup(name.lower())
            if r is None:
                raise Illegal("undeclared", f"identifier {name!r} is not declared", getattr(node, "line", None))
            return r

        def read_obj(self, r, node):
            raise Illegal("static", "object read in static expression", getattr(node, "line", None))

        def runtime_error(self, c, m):
            if c is True:
                raise Illegal("range", m)

        def edge(self, *a):
            raise Illegal("static", "edge in static expression")

        def call_function(self, *a):
            raise Unsupported("function call in static expression")

    def __init__(self, scope):
        super().__init__(StaticEval._Env(scope))


def resolve_type(tr: P.TypeRef, scope: Scope):
    r = scope.lookup(tr.name.lower())
    if r is None:
        raise Illegal("undeclared", f"type {tr.name!r} is not declared", tr.line)
    if r[0] != "type":
        raise Illegal("type", f"{tr.name!r} is not a type (hidden by a declaration?)", tr.line)
    t = r[1]
    if isinstance(t, str):
        if not tr.constrained:
            raise Unsupported("unconstrained vector object")
        se = StaticEval(scope)
        l, rr = se.static_int(tr.left), se.static_int(tr.right)
        if (tr.downto and l < rr) or (not tr.downto and l > rr):
            raise Unsupported("null range")
        if min(l, rr) < 0:
            raise Illegal("range", "negative index in NATURAL range", tr.line)
        return TVec(t, l, rr, tr.downto)
    if tr.constrained:
        raise Illegal("type", f"constraint on scalar type {tr.name}", tr.line)
    if tr.name.lower() == "string":
        raise Unsupported("string")
    return t


def _all_uninitialised(node):
    """initial value written as an explicit all-'U' literal: the same as no initial value in the two-valued model"""
    while isinstance(node, P.Paren):
        node = node.expr
    if isinstance(node, P.Qualified):
        return _all_uninitialised(node.expr)
    if isinstance(node, P.StrLit):
        return len(node.s) > 0 and set(node.s) == {"U"}
    if isinstance(node, P.CharLit):
        return node.ch == "U"
    return False


class ProcInfo:
    def __init__(self, label, node, scope, vars_, design):
        self.label = label
        self.node = node
        self.scope = scope
        self.vars = vars_  # name -> (type, init V|None)
        self.design = design
        self.sens = None  # list of signal names (lower) or 'all' / 'implicit'
        # filled by static walk
        self.reads = set()
        self.reads_unguarded = set()
        self.writes = set()
        self.has_edge = False
        self.var_rbw = set()  # variables possibly read before written in an activation


class Design:
    """one entity/architecture pair after static analysis"""

    def __init__(self, ent: P.Entity, arch: P.Architecture, library):
        self.name = ent.name
        self.ent, self.arch, self.library = ent, arch, library
        if arch.entity.lower() != ent.name.lower():
            raise Illegal("undeclared", f"architecture of unknown entity {arch.entity}")
        self.scope = Scope(Scope_builtin, what=f"entity/architecture {ent.name}")
        self.scope.parent = Scope_builtin
        self.ports = []  # (name, mode, type)
        self.signals = {}  # lower -> (name, type, initV|None, mode|None)
        self.procs: list[ProcInfo] = []
        self.insts: list[P.Instance] = []
        self.funcs = {}
        ctx_libs = {n.lower() for k, ns in ent.context if k == "library" for n in ns}
        ctx_use = [".".join(ns).lower() for k, ns in ent.context if k == "use"]
        if "ieee" not in ctx_libs or "ieee.std_logic_1164.all" not in ctx_use or "ieee.numeric_std.all" not in ctx_use:
            raise Illegal("undeclared", "context clause does not make std_logic_1164/numeric_std visible", ent.line)
        for p in ent.ports:
            if p.mode not in ("in", "out"):
                raise Unsupported(f"port mode {p.mode}")
            t = resolve_type(p.type, self.scope)
            if isinstance(t, TBool):
                pass
            init = None
            if p.init is not None:
                init = self._static_value(p.init, t)
            self.scope.declare(p.name, ("port", p.name.lower(), t, p.mode), p)
            self.ports.append((p.name, p.mode, t))
            self.signals[p.name.lower()] = (p.name, t, init, p.mode)
        for d in arch.decls:
            self._declare(d, self.scope, arch_level=True)
        anon = itertools.count()
        for st in arch.stmts:
            if isinstance(st, P.Process):
                label = st.label or f"<concurrent@{st.line}#{next(anon)}>"
                if st.label:
                    self.scope.declare(st.label, ("label", st.label), st)
                psc = Scope(self.scope, what=f"process {label}")
                vars_ = {}
                for d in st.decls:
                    if isinstance(d, P.ObjDecl) and d.kind == "variable":
                        t = resolve_type(d.type, psc)
                        init = self._static_value(d.init, t, psc) if d.init is not None and not _all_uninitialised(d.init) else None
                        psc.declare(d.name, ("variable", d.name.lower(), t), d)
                        vars_[d.name.lower()] = (t, init)
                    elif isinstance(d, (P.AttrSpec, P.AttrDecl, P.ArrayDecl, P.EnumDecl)):
                        self._declare(d, psc, arch_level=False)
                    else:
                        raise Unsupported(f"process declaration {type(d).__name__}")
                pi = ProcInfo(label, st, psc, vars_, self)
                if st.sens in ("all", "implicit"):
                    pi.sens = st.sens
                else:
                    sens = []
                    for s in st.sens:
                        if not isinstance(s, P.Name):
                            raise Unsupported("non-simple name in sensitivity list")
                        r = psc.lookup(s.id.lower())
                        if r is None:
                            raise Illegal("undeclared", f"sensitivity list: {s.id!r} is not declared", st.line)
                        if r[0] not in ("signal", "port"):
                            raise Illegal("sensitivity", f"sensitivity list: {s.id!r} is not a signal", st.line)
                        if r[0] == "port" and r[3] == "out":
                            raise Illegal("out-port-read", f"output port {s.id} in sensitivity list", st.line)
                        sens.append(r[1])
                    pi.sens = sens
                self.procs.append(pi)
            elif isinstance(st, P.SelectAssign):
                label = f"<select@{st.line}#{next(anon)}>"
                psc = Scope(self.scope, what=label)
                pi = ProcInfo(label, st, psc, {}, self)
                pi.sens = "implicit"
                self.procs.append(pi)
            elif isinstance(st, P.Instance):
                self.scope.declare(st.label, ("label", st.label), st)
                self.insts.append(st)
            else:
                raise Unsupported(type(st).__name__)

    def _static_value(self, node, t, scope=None):
        se = StaticEval(scope or self.scope)
        v = se.eval(node, t)
        return se.coerce(v, t, node, "initial value")

    def _declare(self, d, scope, arch_level):
        if isinstance(d, P.ObjDecl):
            t = resolve_type(d.type, scope)
            init = self._static_value(d.init, t, scope) if d.init is not None and not (_all_uninitialised(d.init) and d.kind != "constant") else None
            if d.kind == "signal":
                if not arch_level:
                    raise Illegal("syntax", "signal declared in process", d.line)
                scope.declare(d.name, ("signal", d.name.lower(), t), d)
                self.signals[d.name.lower()] = (d.name, t, init, None)
            elif d.kind == "constant":
                if init is None:
                    raise Illegal("syntax", "constant without value", d.line)
                scope.declare(d.name, ("constant", init), d)
            else:
                raise Illegal("syntax", "variable declared in architecture", d.line)
        elif isinstance(d, P.EnumDecl):
            t = TEnum(d.name, tuple(l.lower() for l in d.lits))
            scope.declare(d.name, ("type", t), d)
            for i, l in enumerate(d.lits):
                scope.declare(l, ("enumlit", [V(t, i, True)]), d)
        elif isinstance(d, P.ArrayDecl):
            se = StaticEval(scope)
            lo, hi = se.static_int(d.lo), se.static_int(d.hi)
            if not d.to:
                raise Unsupported("downto array")
            if lo > hi:
                raise Unsupported("null array")
            et = resolve_type(d.elem, scope)
            scope.declare(d.name, ("type", TArr(d.name, lo, hi, et)), d)
        elif isinstance(d, P.FuncDecl):
            scope.declare(d.name, ("func", d), d)
            self.funcs[d.name.lower()] = d
        elif isinstance(d, P.AttrDecl):
            r = scope.lookup(d.type.name.lower())
            if r is None or r[0] != "type":
                if d.type.name.lower() != "string":
                    raise Illegal("undeclared", f"attribute type {d.type.name}", d.line)
            scope.declare(d.name, ("attribute", d.name, d.type.name.lower()), d)
        elif isinstance(d, P.AttrSpec):
            ra = scope.lookup(d.name.lower())
            if ra is None or ra[0] != "attribute":
                raise Illegal("undeclared", f"attribute {d.name!r} is not declared", d.line)
            r = scope.lookup(d.target.lower())
            if r is None:
                raise Illegal("undeclared", f"attribute target {d.target!r} is not declared", d.line)
            # the entity class of the specification must be the class of the named object, and the object must be
            # declared in the same declarative part
            cls_of = {"signal": "signal", "port": "signal", "variable": "variable", "constant": "constant", "type": "type", "func": "function", "label": "label"}.get(r[0])
            if cls_of is not None and d.cls != cls_of:
                raise Illegal("attribute", f"attribute {d.name} of {d.target}: entity class {d.cls!r} but {d.target} is a {cls_of}", d.line)
            if d.target.lower() not in scope.d and r[0] != "port":
                raise Illegal("attribute", f"attribute {d.name} of {d.target}: {d.target} is not declared in this declarative part", d.line)
            # value of the attribute's type (string / integer / boolean literals as emitted)
            at = ra[2] if len(ra) > 2 else None
            v = d.value
            while isinstance(v, P.Paren):
                v = v.expr
            kind = "string" if isinstance(v, P.StrLit) else ("integer" if isinstance(v, P.IntLit) else None)
            if at in ("string", "integer") and kind is not None and kind != at:
                raise Illegal("type", f"attribute {d.name} of {d.target}: value of kind {kind} for attribute type {at}", d.line)
        else:
            raise Unsupported(type(d).__name__)


Scope_builtin = Scope(None, "predefined")
Scope_builtin.d = builtin_scope()


class Library:
    def block_of(self, label):
        """line of the `-- CONCURRENT BLOCK` marker that precedes an anonymous concurrent statement (label '<kind@LINE#n>')"""
        import bisect
        m = re.search(r"@(\d+)", label or "")
        if not m or not self.block_marks:
            return None
        k = bisect.bisect_right(self.block_marks, int(m.group(1))) - 1
        return self.block_marks[k] if k >= 0 else None

    def __init__(self, text: str):
        self.text = text
        self.block_marks = [i + 1 for i, ln in enumerate(text.splitlines()) if ln.strip().startswith("-- CONCURRENT BLOCK")]
        units = P.parse(text)
        self.designs: dict[str, Design] = {}
        self.order = []
        ents = {}
        for u in units:
            if isinstance(u, P.Entity):
                if u.name.lower() in ents:
                    raise Illegal("duplicate-declaration", f"entity {u.name} emitted twice")
                ents[u.name.lower()] = u
            else:
                e = ents.get(u.entity.lower())
                if e is None:
                    raise Illegal("undeclared", f"architecture {u.name} of unknown entity {u.entity}")
                if u.entity.lower() in self.designs:
                    raise Illegal("duplicate-declaration", f"second architecture for {u.entity}")
                d = Design(e, u, self)
                # sub-entities must have been analysed before their users
                for inst in d.insts:
                    if inst.entity.lower() not in self.designs:
                        raise Illegal("undeclared", f"entity {inst.entity} instantiated before it is analysed (order of units)", inst.line)
                self.designs[u.entity.lower()] = d
                self.order.append(d)
        for k in ents:
            if k not in self.designs:
                raise Illegal("undeclared", f"entity {k} has no architecture")
        self.top = self.order[-1] if self.order else None


# ======================================================================= flattening
class FlatProc:
    def __init__(self, pid, info: ProcInfo, prefix, sigmap):
        self.pid = pid
        self.info = info
        self.prefix = prefix
        self.sigmap = sigmap  # local signal name(lower) -> flat signal name
        self.sens = None  # set of flat names | 'all'
        self.reads = set()
        self.reads_unguarded = set()
        self.writes = set()
        self.has_edge = False
        self.var_rbw = set()
        self.wunits = {}
        self.pure = False

    @property
    def name(self):
        return self.prefix + self.info.label


class ImplicitAssign:
    """port association that is not a plain alias: dst <= expr (evaluated in scope of 'design')"""

    def __init__(self, label, design, sigmap, prefix, target_flat, expr=None, source_flat=None, target_node=None, tgt_design=None, tgt_sigmap=None):
        self.label = label
        self.design, self.sigmap, self.prefix = design, sigmap, prefix
        self.target_flat, self.expr, self.source_flat, self.target_node = target_flat, expr, source_flat, target_node


class _State:
    """mutable per-activation state of the symbolic executor"""
    __slots__ = ("vars", "pending", "ret", "retc")

    def __init__(self, vars_, pending, ret=None, retc=False):
        self.vars, self.pending, self.ret, self.retc = vars_, pending, ret, retc

    def copy(self):
        return _State(dict(self.vars), dict(self.pending), self.ret, self.retc)


class Sim:
    """Flattened design + simulation state.

    uninit: 'fresh'  -> objects without initial value hold an arbitrary (symbolic) pattern
            'zero'   -> ... hold zeros
    arbitrary_state=True -> *every* signal and variable starts with an arbitrary pattern,
            declared initial values ignored (superset of the reachable states).
    """

    def __init__(self, lib: Library, top: str | None = None, *, tag="", uninit="fresh", arbitrary_state=False, exact_events=False, check_only=False):
        self.lib = lib
        self.tag = tag
        self.uninit = uninit
        self.arbitrary_state = arbitrary_state
        self.exact_events = exact_events
        top_d = lib.designs[top.lower()] if top else lib.top
        self.top = top_d
        self.sig_t: dict[str, object] = {}
        self.sig_init: dict[str, V | None] = {}
        self.procs: list[FlatProc] = []
        self.constraints = []
        self.inputs = []  # flat names of top-level input ports
        self.outputs = []
        self.drivers: dict[str, list[str]] = {}
        self._flatten(top_d, "", {})
        for n, mode, t in top_d.ports:
            (self.inputs if mode == "in" else self.outputs).append(n.lower())
        # state
        self.sig: dict[str, V] = {}
        self.prev: dict[str, V] = {}
        self.event: dict[str, object] = {}
        self.var: dict[tuple, V] = {}
        self.obligations = []  # (cond_violated, message, where)   emitted VHDL assert statements
        self.errors = []  # (cond, message, where)  simulation errors (index range, div by zero, ...)
        self.init_syms = {}  # name -> V of fresh symbols created for uninitialised objects
        self.time = 0
        self._init_state()
        self._static_pass()

    # ------------------------------------------------------------------ flatten
    def _flatten(self, d: Design, prefix: str, alias: dict):
        """alias: local port name(lower) -> flat name in parent"""
        sigmap = {}
        for low, (name, t, init, mode) in d.signals.items():
            if low in alias:
                sigmap[low] = alias[low]
                continue
            flat = prefix + low
            sigmap[low] = flat
            self.sig_t[flat] = t
            self.sig_init[flat] = init
        for pi in d.procs:
            fp = FlatProc(len(self.procs), pi, prefix, sigmap)
            self.procs.append(fp)
        for inst in d.insts:
            r = d.scope.lookup(inst.lib.lower())
            if r is None or r[0] != "library":
                raise Illegal("undeclared", f"library name {inst.lib!r} is not visible (hidden?)", inst.line)
            if inst.lib.lower() != "work":
                raise Unsupported("instantiation from foreign library")
            cd = self.lib.designs.get(inst.entity.lower())
            if cd is None:
                raise Illegal("undeclared", f"entity {inst.entity} not found", inst.line)
            if inst.arch is not None and inst.arch.lower() != cd.arch.name.lower():
                raise Illegal("undeclared", f"architecture {inst.arch} of {inst.entity} not found", inst.line)
            if inst.generics:
                raise Unsupported("generic map")
            cprefix = f"{prefix}{inst.label.lower()}."
            calias = {}
            formals = {p[0].lower(): p for p in cd.ports}
            seen = set()
            post = []
            for formal, actual in inst.ports:
                fl = formal.lower()
                if fl not in formals:
                    raise Illegal("undeclared", f"{inst.entity} has no port {formal}", inst.line)
                if fl in seen:
                    raise Illegal("port-map", f"port {formal} associated twice", inst.line)
                seen.add(fl)
                _, mode, ft = formals[fl]
                conv = getattr(formal, "conv", None)
                if conv is not None:
                    # conversion in the formal part: only between closely related vector types, only for outputs here
                    ck = {"std_logic_vector": "slv", "unsigned": "unsigned", "signed": "signed"}.get(conv.lower())
                    rc = d.scope.lookup(conv.lower())
                    if ck is None or rc is None or rc[0] != "type":
                        raise Illegal("port-map", f"formal part {conv}({formal}): {conv!r} is not a visible vector type mark", inst.line)
                    if not isinstance(ft, TVec):
                        raise Illegal("type", f"formal part {conv}({formal}): {ft} cannot be converted to {conv}", inst.line)
                    if mode != "out":
                        raise Unsupported("type conversion in the formal part of an input port")
                    ft = TVec(ck, ft.left, ft.right, ft.downto)
                if actual == "open":
                    if mode == "in":
                        raise Illegal("port-map", f"input port {formal} left open", inst.line)
                    continue
                a = actual
                while isinstance(a, P.Paren):
                    a = a.expr
                if isinstance(a, P.Name) and conv is None:
                    r = d.scope.lookup(a.id.lower())
                    if r is None:
                        raise Illegal("undeclared", f"port map actual {a.id!r} is not declared", inst.line)
                    if r[0] not in ("signal", "port"):
                        raise Illegal("port-map", f"port map actual {a.id!r} is not a signal", inst.line)
                    at = r[2]
                    if not _same_type(at, ft):
                        raise Illegal("type", f"port {formal}: formal {ft} associated with actual {at}", inst.line)
                    if r[0] == "port":
                        if r[3] == "in" and mode == "out":
                            raise Illegal("in-port-written", f"instance output {formal} drives input port {a.id}", inst.line)
                        if r[3] == "out" and mode == "in":
                            raise Illegal("out-port-read", f"output port {a.id} read as actual of input {formal}", inst.line)
                    flat = sigmap[r[1]]
                    calias[fl] = flat
                else:
                    post.append((fl, mode, ft, a))
            missing = [p for p in formals if p not in seen and formals[p][1] == "in"]
            if missing:
                raise Illegal("port-map", f"input ports {missing} of {inst.entity} not associated", inst.line)
            self._flatten(cd, cprefix, calias)
            for fl, mode, ft, a in post:
                child_flat = cprefix + fl
                if mode == "in":
                    ia = ImplicitAssign(f"{cprefix}<in:{fl}>", d, sigmap, prefix, child_flat, expr=a)
                else:
                    ia = ImplicitAssign(f"{cprefix}<out:{fl}>", d, sigmap, prefix, None, source_flat=child_flat, target_node=a)
                ia.formal_type = ft
                fp = FlatProc(len(self.procs), None, prefix, sigmap)
                fp.implicit = ia
                self.procs.append(fp)

    # ------------------------------------------------------------------ state
    def _fresh(self, t, name):
        v, c = fresh(t, name + self.tag)
        self.constraints += c
        self.init_syms[name] = v
        return v

    def _init_obj(self, t, init, name):
        if self.arbitrary_state or (init is None and self.uninit == "fresh"):
            return self._fresh(t, name)
        if init is None:
            return default_value(t)
        return init

    def _init_state(self):
        for flat, t in self.sig_t.items():
            v = self._init_obj(t, self.sig_init[flat], f"s0!{flat}")
            self.sig[flat] = v
            self.prev[flat] = v
            self.event[flat] = False
        for fp in self.procs:
            if fp.info is None:
                continue
            for vn, (t, init) in fp.info.vars.items():
                self.var[(fp.pid, vn)] = self._init_obj(t, init, f"v0!{fp.name}!{vn}")

    # ------------------------------------------------------------------ static pass
    def _static_pass(self):
        """Run every process once on an all-symbolic scratch state with symbolic edges: type-checks
        every branch, collects read / write sets and the legality facts of DESIGN 2.3."""
        for fp in self.procs:
            ex = _Exec(self, fp, static=True)
            ex.run()
            fp.reads, fp.reads_unguarded, fp.writes = ex.reads, ex.reads_unguarded, ex.writes
            fp.has_edge = ex.saw_edge
            fp.var_rbw = ex.var_rbw
            label = fp.implicit.label if fp.info is None else fp.name
            fp.wunits = ex.wunits
            stmt = None if fp.info is None else re.sub(r"line=\d+", "", repr(fp.info.node))
            for w in fp.writes:
                self.drivers.setdefault(w, []).append((label, ex.wunits.get(w), (fp.prefix, stmt)))
            if fp.info is None or fp.info.sens == "implicit":
                fp.sens = set(fp.reads)
            elif fp.info.sens == "all":
                fp.sens = set(fp.reads)
            else:
                fp.sens = {fp.sigmap[s] for s in fp.info.sens}
                if not fp.sens:
                    raise Illegal("sensitivity", f"process {fp.name}: empty sensitivity list")
                missing = fp.reads_unguarded - fp.sens
                if missing:
                    raise Illegal("sensitivity", f"process {fp.name}: signals {sorted(missing)} are read outside a clock-edge guard but missing from the sensitivity list")
            fp.pure = (not fp.has_edge) and not fp.var_rbw and fp.reads <= fp.sens
        for s, ds in self.drivers.items():
            for i in range(len(ds)):
                for j in range(i + 1, len(ds)):
                    ui, uj = ds[i][1], ds[j][1]
                    if _units_overlap(ui, uj):
                        if ds[i][0].startswith("<") and ds[j][0].startswith("<") and ds[i][0].split("@")[0] in ("<concurrent", "<select") and ds[j][0].split("@")[0] in ("<concurrent", "<select"):
                            if ds[i][2][1] is not None and ds[i][2] == ds[j][2]:
                                continue  # textually identical concurrent statement repeated: both drivers carry the same 0/1 value
                            bi, bj = self.lib.block_of(ds[i][0]), self.lib.block_of(ds[j][0])
                            if bi is not None and bj is not None and bi != bj:
                                # the emitted text marks every concurrent context with a comment line: statements of two
                                # different contexts drive the same signal element
                                raise Illegal("multiple-drivers", f"signal {s} is driven from two concurrent blocks ({ds[i][0]} in block at line {bi}, {ds[j][0]} in block at line {bj})")
                            # two anonymous concurrent statements: legal for resolved types (value = resolution
                            # function); the two-valued model cannot represent a conflict
                            raise Unsupported(f"overlapping concurrent drivers on {s} (resolution function)")
                        raise Illegal("multiple-drivers", f"signal {s} is driven by {ds[i][0]} and {ds[j][0]}")
        for s in self.inputs:
            if s in self.drivers:
                raise Illegal("in-port-written", f"input port {s} is driven by {[d[0] for d in self.drivers[s]]}")
        # combinational loops: a pure process (transitively) sensitive to its own output
        self._levels = None

    # ------------------------------------------------------------------ simulation
    def _run_instant(self, triggered_all=False):
        """delta cycles until no process can be triggered"""
        first = True
        # a combinational design settles after at most as many delta cycles as its longest signal path, which is bounded by the
        # number of processes (deep generated hierarchies exceed a fixed small limit)
        for delta in range(64 + 2 * len(self.procs)):
            todo = []
            for fp in self.procs:
                if first and triggered_all:
                    trig = True
                else:
                    trig = False
                    for s in fp.sens:
                        trig = D.b_or(trig, self.event[s])
                        if trig is True:
                            break
                if trig is False:
                    continue
                if fp.pure and not self.exact_events:
                    trig = True
                todo.append((fp, trig))
            if not todo:
                return
            first = False
            results = []
            for fp, trig in todo:
                ex = _Exec(self, fp, static=False)
                ex.run()
                results.append((fp, trig, ex))
            new_event = {s: False for s in self.event}
            updates = {}
            for fp, trig, ex in results:
                for key, val in ex.st.vars.items():
                    old = self.var[(fp.pid, key)]
                    self.var[(fp.pid, key)] = val if trig is True else v_ite(trig, val, old)
                for flat, val in ex.st.pending.items():
                    old = self.sig[flat]
                    nv = val if trig is True else v_ite(trig, val, old)
                    if flat in updates:
                        nv = _merge_units(updates[flat], nv, fp.wunits.get(flat), self.sig_t[flat])
                    updates[flat] = nv
                for c, m, w in ex.obligations:
                    self.obligations.append((D.b_and(trig, c), m, w, self.time))
                for c, m, w in ex.errors:
                    self.errors.append((D.b_and(trig, c), m, w, self.time))
            for flat, nv in updates.items():
                old = self.sig[flat]
                ev = D.b_not(v_eq(nv, old))
                if ev is False:
                    continue
                new_event[flat] = ev
                # 'last_value: only meaningful for scalars used with edges
                if isinstance(self.sig_t[flat], TStd):
                    self.prev[flat] = old if ev is True else v_ite(ev, old, self.prev[flat])
                self.sig[flat] = nv
            self.event = new_event
        raise Unsupported("delta cycles do not settle (combinational loop?)")

    def elaborate(self, inputs: dict | None = None):
        """time 0: assign input ports, run every process once"""
        if inputs:
            for k, x in inputs.items():
                k = k.lower()
                self.sig[k] = V(self.sig_t[k], x)
                self.prev[k] = self.sig[k]
        self._run_instant(triggered_all=True)
        # time 0: objects without initial value are 'U' in VHDL (to_integer gives 0 with a warning, assertions on
        # metavalues are not meaningful); the arbitrary two-valued stand-in must not raise obligations here
        self.obligations, self.errors = [], []
        self.time += 1

    def instant(self, inputs: dict):
        """apply new values to (some) input ports, settle"""
        ev = {s: False for s in self.event}
        for k, x in inputs.items():
            k = k.lower()
            assert k in self.inputs, k
            t = self.sig_t[k]
            nv = V(t, x)
            old = self.sig[k]
            e = D.b_not(v_eq(nv, old))
            if e is False:
                continue
            ev[k] = e
            if isinstance(t, TStd):
                self.prev[k] = old if e is True else v_ite(e, old, self.prev[k])
            self.sig[k] = nv
        self.event = ev
        self._run_instant()
        self.time += 1

    def read(self, name) -> V:
        return self.sig[name.lower()]

    def proc_by_label(self, label):
        for fp in self.procs:
            if fp.info is not None and fp.name.lower() == label.lower():
                return fp
        raise KeyError(label)

    def registers(self):
        """signals written by edge-triggered processes, and all process variables of such"""
        regs = set()
        for fp in self.procs:
            if fp.has_edge:
                regs |= fp.writes
        return regs


def _units_overlap(u1, u2):
    for p in u1:
        for q in u2:
            n = min(len(p), len(q))
            if p[:n] == q[:n]:
                return True
    return False


def _merge_units(base: V, val: V, units, t):
    """take the written units (index paths) from val, everything else from base"""
    if units is None or () in units:
        return val
    if isinstance(t, TVec):
        m = 0
        for p in units:
            m |= 1 << p[0]
        w = t.width
        return V(t, D.v_or(D.v_and(base.x, (~m) & D.mask(w), w), D.v_and(val.x, m, w), w))
    if isinstance(t, TArr):
        out = []
        for i in range(t.count):
            sub = {p[1:] for p in units if p[0] == i}
            out.append(_merge_units(base.x[i], val.x[i], sub, t.elem) if sub else base.x[i])
        return V(t, out)
    return val


def _same_type(a, b):
    if isinstance(a, TVec) and isinstance(b, TVec):
        return a.kind == b.kind and a.width == b.width
    return a == b


class _Exec:
    """symbolic execution of one process activation"""

    def meta_literal(self, text, line):
        """payload of a vector literal containing metavalues: known bits as given, every metavalue an arbitrary fixed bit"""
        sim = self.sim
        key = f"lit!{line}!{text}"
        cache = sim.__dict__.setdefault("_meta_lits", {})
        if key not in cache:
            n = len(text)
            known = int("".join(c if c in "01" else ("1" if c == "H" else "0") for c in text), 2)
            mask = int("".join("0" if c in "01LH" else "1" for c in text), 2)
            if sim.uninit == "fresh" or sim.arbitrary_state:
                free = sim._fresh(TVec("slv", n - 1, 0), key).x
                cache[key] = D.v_or(known, D.v_and(free, mask, n), n)
            else:
                cache[key] = known
        return cache[key]

    def __init__(self, sim: Sim, fp: FlatProc, static: bool):
        self.sim, self.fp, self.static = sim, fp, static
        self.ev = Evaluator(self)
        self.path = True
        self.obligations, self.errors = [], []
        self.reads, self.reads_unguarded, self.writes = set(), set(), set()
        self.wunits = {}  # flat -> None (whole object) | set of bit positions / element indices
        self.saw_edge = False
        self.guard_depth = 0
        self.var_written = {}  # var -> condition "definitely written so far" (static mode)
        self.var_rbw = set()
        self.frames = []  # function call frames (local scopes)
        if fp.info is not None:
            self.scope = fp.info.scope
            vars_ = {vn: sim.var[(fp.pid, vn)] for vn in fp.info.vars}
        else:
            self.scope = fp.implicit.design.scope
            vars_ = {}
        if static:
            vars_ = {}
            for vn, (t, init) in (fp.info.vars.items() if fp.info else []):
                v, _ = fresh(t, f"static!{vn}")
                vars_[vn] = v
        self.st = _State(vars_, {})
        self._n = 0

    # ---- env interface for Evaluator
    def resolve(self, name, node=None):
        low = name.lower()
        for fr in reversed(self.frames):
            if low in fr:
                return ("local", low)
        r = self.scope.lookup(low)
        if r is None:
            raise Illegal("undeclared", f"identifier {name!r} is not declared", getattr(node, "line", None))
        return r

    def _sig_value(self, flat):
        if self.static:
            v, _ = fresh(self.sim.sig_t[flat], f"static!{flat}")
            return v
        return self.sim.sig[flat]

    def read_obj(self, r, node):
        k = r[0]
        if k == "local":
            return self.frames[-1][r[1]]
        if k == "variable":
            if self.static and r[1] not in self.var_written:
                self.var_rbw.add(r[1])
            return self.st.vars[r[1]]
        if k == "port" and r[3] == "out":
            raise Illegal("out-port-read", f"output port {r[1]} is read", getattr(node, "line", None))
        flat = self.fp.sigmap[r[1]]
        self.reads.add(flat)
        if self.guard_depth == 0:
            self.reads_unguarded.add(flat)
        return self._sig_value(flat)

    def edge(self, r, rising):
        self.saw_edge = True
        flat = self.fp.sigmap[r[1]]
        if self.static:
            self._n += 1
            return z3.Bool(f"static!edge{self._n}")
        sim = self.sim
        cur, prev = sim.sig[flat].x, sim.prev[flat].x
        want, other = (1, 0) if rising else (0, 1)
        return D.b_and(sim.event[flat], D.b_and(D.v_eq(cur, want, 1), D.v_eq(prev, other, 1)))

    def runtime_error(self, cond, msg):
        c = D.b_and(self.path, cond)
        if c is False:
            return
        if c is True and not self.static:
            # definite simulation error on a concrete run: keep as error, do not abort
            pass
        self.errors.append((c, msg, self.fp.name if self.fp.info else self.fp.implicit.label))

    def call_function(self, fd: P.FuncDecl, args, node, ev):
        if len(args) != len(fd.params):
            raise Illegal("type", f"{fd.name}: wrong number of arguments", node.line)
        frame = {}
        for (pn, pt), a in zip(fd.params, args):
            t = resolve_type(pt, self.scope)
            frame[pn.lower()] = self.ev.coerce(a, t, node, f"argument {pn}")
        if fd.decls:
            raise Unsupported("function local declarations")
        rt = resolve_type(fd.ret, self.scope)
        saved = (self.st, self.path)
        self.frames.append(frame)
        self.st = _State(dict(saved[0].vars), dict(saved[0].pending), None, False)
        self._fn_ret_type = rt
        try:
            self.block(fd.body)
            if self.st.retc is not True:
                if self.st.retc is False:
                    raise Illegal("function", f"function {fd.name} can end without return", fd.line)
                self.errors.append((D.b_and(saved[1], D.b_not(self.st.retc)), f"function {fd.name} ended without return", fd.name))
            res = self.st.ret
        finally:
            self.frames.pop()
            self.st, self.path = saved
        return res

    # ---- statements
    def run(self):
        fp = self.fp
        if fp.info is None:
            ia = fp.implicit
            if ia.expr is not None:
                t = self.sim.sig_t[ia.target_flat]
                v = self.ev.coerce(self.ev.eval(ia.expr, t), t, ia.expr, "port association")
                self.st.pending[ia.target_flat] = v
                self.writes.add(ia.target_flat)
            else:
                src = self._sig_value(ia.source_flat)
                ft = getattr(ia, "formal_type", None)
                if isinstance(ft, TVec) and isinstance(src.t, TVec) and ft.kind != src.t.kind:
                    src = V(ft, src.x)  # type conversion in the formal part (same bits)
                self.reads.add(ia.source_flat)
                self.reads_unguarded.add(ia.source_flat)
                self.assign_signal(ia.target_node, src, ia.target_node)
            return
        node = fp.info.node
        if isinstance(node, P.SelectAssign):
            self.select_assign(node)
        else:
            self.block(node.body)

    def block(self, stmts):
        for s in stmts:
            if self.st.retc is True:
                # unreachable code after return: still type-check in static mode
                if not self.static:
                    return
            getattr(self, "s_" + type(s).__name__)(s)

    def s_Null(self, s):
        pass

    def s_Return(self, s):
        if not self.frames:
            raise Illegal("syntax", "return outside function", s.line)
        v = self.ev.coerce(self.ev.eval(s.expr, self._fn_ret_type), self._fn_ret_type, s, "return")
        st = self.st
        if st.retc is False or st.ret is None:
            st.ret = v
        else:
            st.ret = v_ite(st.retc, st.ret, v)
        st.retc = True

    def s_Assert(self, s):
        c = self.ev.eval(s.cond)
        if not isinstance(c.t, TBool):
            raise Illegal("type", f"assert condition of type {c.t}", s.line)
        viol = D.b_and(self.path, D.b_not(c.x))
        if viol is not False:
            self.obligations.append((viol, s.msg or "assertion", self.fp.name))

    def s_If(self, s):
        self._if_chain(s.arms, s.orelse, s)

    def _contains_edge(self, node):
        if isinstance(node, P.Call) and isinstance(node.fn, P.Name) and node.fn.id.lower() in ("rising_edge", "falling_edge"):
            return True
        for f in ("expr", "lhs", "rhs", "arg"):
            c = getattr(node, f, None)
            if c is not None and isinstance(c, P.Node) and self._contains_edge(c):
                return True
        return False

    def _if_chain(self, arms, orelse, node):
        if not arms:
            if orelse:
                self.block(orelse)
            return
        (cond, body), rest = arms[0], arms[1:]
        c = self.ev.eval(cond)
        if not isinstance(c.t, TBool):
            raise Illegal("type", f"condition of type {c.t} (boolean required)", cond.line)
        edge = self._contains_edge(cond)
        cx = c.x
        if D.is_c(cx) and not self.static:
            if cx:
                self.block(body)
            else:
                self._if_chain(rest, orelse, node)
            return
        base, path0 = self.st, self.path
        w0 = dict(self.var_written)
        # then
        self.st = base.copy()
        self.path = D.b_and(path0, cx)
        if edge:
            self.guard_depth += 1
        self.block(body)
        if edge:
            self.guard_depth -= 1
        st_then, w_then = self.st, self.var_written
        # else
        self.st = base.copy()
        self.path = D.b_and(path0, D.b_not(cx))
        self.var_written = dict(w0)
        self._if_chain(rest, orelse, node)
        st_else, w_else = self.st, self.var_written
        self.path = path0
        self.var_written = {k: True for k in w_then if k in w_else}
        self.st = self._merge(cx, st_then, st_else)

    def _merge(self, c, a: _State, b: _State) -> _State:
        vars_ = {}
        for k in a.vars:
            va, vb = a.vars[k], b.vars[k]
            vars_[k] = va if va is vb else v_ite(c, va, vb)
        pending = {}
        for k in set(a.pending) | set(b.pending):
            cur = None
            va = a.pending.get(k)
            vb = b.pending.get(k)
            if va is None or vb is None:
                cur = self._sig_value_for_pending(k)
            va = cur if va is None else va
            vb = cur if vb is None else vb
            pending[k] = va if va is vb else v_ite(c, va, vb)
        # function return slots
        if a.retc is False and b.retc is False:
            ret, retc = None, False
        else:
            retc = D.b_ite(c, a.retc, b.retc)
            if a.ret is None:
                ret = b.ret
            elif b.ret is None:
                ret = a.ret
            else:
                ret = v_ite(c, a.ret, b.ret)
        return _State(vars_, pending, ret, retc)

    def _sig_value_for_pending(self, flat):
        if self.static:
            v, _ = fresh(self.sim.sig_t[flat], f"static!{flat}")
            return v
        return self.sim.sig[flat]

    def s_Case(self, s):
        sel = self.ev.eval(s.sel)
        if isinstance(sel.t, TStr):
            raise Illegal("type", "case selector type cannot be determined", s.line)
        if not isinstance(sel.t, (TVec, TEnum, TStd, TInt, TBool)):
            raise Illegal("type", f"case on {sel.t}", s.line)
        arms = self._check_choices(sel, s.arms, s)
        self._case_chain(sel, arms)

    def _check_choices(self, sel, arms, node):
        """-> list of (list of choice V | 'others', body); checks static, distinct, coverage"""
        seen = {}
        out = []
        has_others = False
        for i, (chs, body) in enumerate(arms):
            if chs == "others":
                if i != len(arms) - 1:
                    raise Illegal("case", "'others' must be the last alternative", node.line)
                has_others = True
                out.append(("others", body))
                continue
            vals = []
            for ch in chs:
                v = self.ev.eval(ch, sel.t if isinstance(sel.t, (TVec, TEnum)) else None)
                if isinstance(v.t, TStr):
                    if not isinstance(sel.t, TVec):
                        raise Illegal("type", f"string choice for selector {sel.t}", node.line)
                    if v.t.n != sel.t.width:
                        raise Illegal("width", f"case choice of length {v.t.n} for selector {sel.t}", node.line)
                    v = V(sel.t, v.x, True)
                elif isinstance(sel.t, TVec):
                    if not (isinstance(v.t, TVec) and v.t.kind == sel.t.kind):
                        raise Illegal("type", f"case choice {v.t} for selector {sel.t}", node.line)
                    if v.t.width != sel.t.width:
                        raise Illegal("width", f"case choice {v.t} for selector {sel.t}", node.line)
                elif type(v.t) is not type(sel.t) or (isinstance(sel.t, TEnum) and v.t != sel.t):
                    raise Illegal("type", f"case choice {v.t} for selector {sel.t}", node.line)
                if not (v.static and D.is_c(v.x)):
                    raise Illegal("case", "case choice is not locally static", node.line)
                key = v.x
                if key in seen:
                    raise Illegal("case", f"duplicate case choice {key}", node.line)
                seen[key] = True
                vals.append(v)
            out.append((vals, body))
        if not has_others:
            if isinstance(sel.t, TEnum):
                total = len(sel.t.lits)
            elif isinstance(sel.t, TBool):
                total = 2
            elif isinstance(sel.t, TStd):
                total = 2
            elif isinstance(sel.t, TVec):
                # strictly, choices of a std_logic based selector must also cover the metavalues ('others' needed).
                # The upstream reference designs rely on tools accepting full coverage of the 0/1 patterns, so this
                # is not reported (outside the claim: choice coverage of metavalues).
                total = 1 << sel.t.width
            else:
                total = None
            if total is None or len(seen) != total:
                raise Illegal("case", "case statement without 'others' does not cover all values", node.line)
        return out

    def _case_chain(self, sel, arms):
        if not arms:
            return
        (vals, body), rest = arms[0], arms[1:]
        if vals == "others":
            self.block(body)
            return
        cx = False
        for v in vals:
            cx = D.b_or(cx, v_eq(sel, v) if not isinstance(sel.t, TBool) else D.b_eq(sel.x, v.x))
        if D.is_c(cx) and not self.static:
            if cx:
                self.block(body)
            else:
                self._case_chain(sel, rest)
            return
        base, path0 = self.st, self.path
        w0 = dict(self.var_written)
        self.st = base.copy()
        self.path = D.b_and(path0, cx)
        self.block(body)
        st_then, w_then = self.st, self.var_written
        self.st = base.copy()
        self.path = D.b_and(path0, D.b_not(cx))
        self.var_written = dict(w0)
        self._case_chain(sel, rest)
        st_else, w_else = self.st, self.var_written
        self.path = path0
        self.var_written = {k: True for k in w_then if k in w_else}
        self.st = self._merge(cx, st_then, st_else)

    def select_assign(self, s: P.SelectAssign):
        sel = self.ev.eval(s.sel)
        if isinstance(sel.t, TStr):
            raise Illegal("type", "select expression type cannot be determined", s.line)
        arms = self._check_choices(sel, [(ch, e) for e, ch in s.arms], s)
        tt = self.target_type(s.target)
        res = None
        for vals, e in reversed(arms):
            v = self.ev.coerce(self.ev.eval(e, tt), tt, s, "selected assignment")
            if vals == "others" or res is None:
                # (without others the last arm is reached only when it matches: coverage was checked)
                res = v
                continue
            cx = False
            for cv in vals:
                cx = D.b_or(cx, v_eq(sel, cv) if not isinstance(sel.t, TBool) else D.b_eq(sel.x, cv.x))
            res = v_ite(cx, v, res)
        self.assign_signal(s.target, res, s)

    # ---- assignment targets
    def target_type(self, tnode):
        t, _ = self._target_info(tnode)
        return t

    def _target_info(self, tnode):
        """-> (type of target, root resolve tuple)"""
        while isinstance(tnode, P.Paren):
            tnode = tnode.expr
        if isinstance(tnode, P.Name):
            r = self.resolve(tnode.id, tnode)
            if r[0] not in ("signal", "port", "variable"):
                raise Illegal("type", f"{tnode.id} is not assignable", tnode.line)
            return r[2], r
        if isinstance(tnode, P.SliceN):
            bt, r = self._target_info(tnode.base)
            if not isinstance(bt, TVec):
                raise Illegal("type", f"slice of {bt} as target", tnode.line)
            l, rr = self.ev.static_int(tnode.left), self.ev.static_int(tnode.right)
            if tnode.downto != bt.downto:
                raise Illegal("range", "slice direction mismatch", tnode.line)
            if not (bt.in_range(l) and bt.in_range(rr)) or (tnode.downto and l < rr) or (not tnode.downto and l > rr):
                raise Illegal("range", f"target slice ({l},{rr}) outside {bt}", tnode.line)
            return TVec(bt.kind, l, rr, tnode.downto), r
        if isinstance(tnode, P.Call):
            bt, r = self._target_info(tnode.fn)
            if len(tnode.args) != 1:
                raise Unsupported("multi-dim target")
            if isinstance(bt, TVec):
                return STD, r
            if isinstance(bt, TArr):
                return bt.elem, r
            raise Illegal("type", f"indexing {bt} as target", tnode.line)
        raise Unsupported(f"target {type(tnode).__name__}")

    def _update(self, tnode, cur: V, val: V) -> V:
        """new value of the object rooted at tnode's root after writing val to the designated part"""
        while isinstance(tnode, P.Paren):
            tnode = tnode.expr
        if isinstance(tnode, P.Name):
            return self.ev.coerce(val, cur.t, tnode, "assignment")
        if isinstance(tnode, P.SliceN):
            def upd(base: V):
                bt = base.t
                l, rr = self.ev.static_int(tnode.left), self.ev.static_int(tnode.right)
                st = TVec(bt.kind, l, rr, tnode.downto)
                v = self.ev.coerce(val, st, tnode, "slice assignment")
                return V(bt, D.v_set_slice(base.x, bt.pos(l), bt.pos(rr), v.x, bt.width))
            return self._update_path(tnode.base, cur, upd)
        if isinstance(tnode, P.Call):
            idx = self.ev.eval(tnode.args[0])
            if not isinstance(idx.t, TInt):
                raise Illegal("type", f"index of type {idx.t}", tnode.line)

            def upd(base: V):
                bt = base.t
                if isinstance(bt, TVec):
                    v = self.ev.coerce(val, STD, tnode, "element assignment")
                    if D.is_c(idx.x):
                        i = int_signed(idx.x)
                        if not bt.in_range(i):
                            if idx.static:
                                raise Illegal("range", f"target index {i} outside {bt}", tnode.line)
                            self.runtime_error(True, f"target index {i} out of range for {bt}")
                            return base
                        p = bt.pos(i)
                        return V(bt, D.v_set_slice(base.x, p, p, v.x, bt.width))
                    lo, hi = (bt.right, bt.left) if bt.downto else (bt.left, bt.right)
                    self.runtime_error(D.b_or(D.v_slt(idx.x, lo & D.mask(INT_W), INT_W), D.v_slt(hi & D.mask(INT_W), idx.x, INT_W)), f"target index out of range for {bt}")
                    res = base.x
                    for i in range(lo, hi + 1):
                        p = bt.pos(i)
                        res = D.v_ite(D.v_eq(idx.x, i & D.mask(INT_W), INT_W), D.v_set_slice(base.x, p, p, v.x, bt.width), res, bt.width)
                    return V(bt, res)
                if isinstance(bt, TArr):
                    v = self.ev.coerce(val if not isinstance(val.t, TStr) else val, bt.elem, tnode, "element assignment")
                    if D.is_c(idx.x):
                        i = int_signed(idx.x)
                        if not (bt.lo <= i <= bt.hi):
                            if idx.static:
                                raise Illegal("range", f"target index {i} outside {bt}", tnode.line)
                            self.runtime_error(True, f"target index {i} out of range for {bt}")
                            return base
                        xs = list(base.x)
                        xs[i - bt.lo] = v
                        return V(bt, xs)
                    self.runtime_error(D.b_or(D.v_slt(idx.x, bt.lo & D.mask(INT_W), INT_W), D.v_slt(bt.hi & D.mask(INT_W), idx.x, INT_W)), f"target index out of range for {bt}")
                    xs = [v_ite(D.v_eq(idx.x, (i + bt.lo) & D.mask(INT_W), INT_W), v, e) for i, e in enumerate(base.x)]
                    return V(bt, xs)
                raise Illegal("type", f"indexing {bt} as target", tnode.line)
            return self._update_path(tnode.fn, cur, upd)
        raise Unsupported("target")

    def _update_path(self, base_node, cur_root: V, fn):
        """apply fn to the sub-object designated by base_node inside cur_root"""
        while isinstance(base_node, P.Paren):
            base_node = base_node.expr
        if isinstance(base_node, P.Name):
            return fn(cur_root)
        if isinstance(base_node, P.Call):
            # element of array then deeper
            idx = self.ev.eval(base_node.args[0])

            def upd(b: V):
                bt = b.t
                if not isinstance(bt, TArr):
                    raise Unsupported("nested target on non-array")
                if D.is_c(idx.x):
                    i = int_signed(idx.x)
                    if not (bt.lo <= i <= bt.hi):
                        if idx.static:
                            raise Illegal("range", f"target index {i} outside {bt}", base_node.line)
                        self.runtime_error(True, f"target index {i} out of range for {bt}")
                        return b
                    xs = list(b.x)
                    xs[i - bt.lo] = fn(xs[i - bt.lo])
                    return V(bt, xs)
                self.runtime_error(D.b_or(D.v_slt(idx.x, bt.lo & D.mask(INT_W), INT_W), D.v_slt(bt.hi & D.mask(INT_W), idx.x, INT_W)), f"target index out of range for {bt}")
                xs = [v_ite(D.v_eq(idx.x, (i + bt.lo) & D.mask(INT_W), INT_W), fn(e), e) for i, e in enumerate(b.x)]
                return V(bt, xs)
            return self._update_path(base_node.fn, cur_root, upd)
        raise Unsupported("nested slice target")

    def assign_signal(self, tnode, val_or_node, stmt):
        tt, r = self._target_info(tnode)
        if r[0] == "variable":
            raise Illegal("assign-kind", f"signal assignment '<=' to variable {r[1]}", stmt.line)
        if r[0] == "port" and r[3] == "in":
            raise Illegal("in-port-written", f"input port {r[1]} is assigned", stmt.line)
        val = val_or_node if isinstance(val_or_node, V) else self.ev.eval(val_or_node, tt)
        flat = self.fp.sigmap[r[1]]
        self.writes.add(flat)
        self.wunits.setdefault(flat, set()).update(self._units(tnode)[1])
        cur = self.st.pending.get(flat)
        if cur is None:
            cur = self._sig_value_for_pending(flat)
        self.st.pending[flat] = self._update(tnode, cur, val)

    def _units(self, tnode):
        """-> (type, set of static index paths designated by the target); () = whole object"""
        while isinstance(tnode, P.Paren):
            tnode = tnode.expr
        if isinstance(tnode, P.Name):
            r = self.resolve(tnode.id, tnode)
            return r[2], {()}
        if isinstance(tnode, P.SliceN):
            bt, paths = self._units(tnode.base)
            l, rr = self.ev.static_int(tnode.left), self.ev.static_int(tnode.right)
            a, b = bt.pos(l), bt.pos(rr)
            return TVec(bt.kind, l, rr, tnode.downto), {p + (k,) for p in paths for k in range(min(a, b), max(a, b) + 1)}
        bt, paths = self._units(tnode.fn)
        idx = self.ev.eval(tnode.args[0])
        et = STD if isinstance(bt, TVec) else bt.elem
        if not D.is_c(idx.x):
            return et, paths
        i = int_signed(idx.x)
        k = bt.pos(i) if isinstance(bt, TVec) else i - bt.lo
        return et, {p + (k,) for p in paths}

    def s_SigAssign(self, s):
        if self.frames:
            raise Illegal("function", "signal assignment in function", s.line)
        self.assign_signal(s.target, s.expr, s)

    def s_VarAssign(self, s):
        tt, r = self._target_info(s.target)
        if r[0] != "variable":
            raise Illegal("assign-kind", f"variable assignment ':=' to {r[0]} {r[1]}", s.line)
        val = self.ev.eval(s.expr, tt)
        cur = self.st.vars[r[1]]
        whole = isinstance(s.target, P.Name)
        self.st.vars[r[1]] = self._update(s.target, cur, val)
        if whole:
            self.var_written[r[1]] = True
        elif self.static and r[1] not in self.var_written:
            # partial write of a variable that was not yet fully written: rest is stale
            pass
