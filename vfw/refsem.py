"""Reference semantics R (DESIGN 2.2 / Appendix B): executes the Python source of a sequential
cohdl process -- the same text the compiler translates -- as a coroutine, generically over the
spec prelude (z3 bit-vectors or plain ints).

State of R = program counter (START or a suspension point) + one value per declared object.
One call of `activate` = one activation (one active clock edge without reset)."""
from __future__ import annotations
import ast
from dataclasses import dataclass, field

import z3

from . import spec as SP
from .spec import Ty, PyP, Z3P, INTT, BOOL, BIT


class RejectExpected(Exception):
    """the program contains a zero-time loop / construct that the compiler must reject"""


class RUnsupported(Exception):
    pass


@dataclass
class Obj:
    name: str
    ty: Ty
    kind: str  # in out signal var
    default: int | None = None  # mathematical default value (None: no default)
    noreset: bool = False
    local: bool = False  # constructed inside the process body


@dataclass
class RVal:
    ty: Ty
    v: object  # prelude integer (math value) or prelude boolean for bool


START = "START"


# --------------------------------------------------------------------------- CFG
class Node:
    _n = 0

    def __init__(self, kind, **kw):
        Node._n += 1
        self.id = Node._n
        self.kind = kind
        self.__dict__.update(kw)

    def __repr__(self):
        return f"<{self.kind}#{self.label if hasattr(self, 'label') else self.id}>"


class CFG:
    """kinds: op(stmt,next) cond(test,then,els) await(test|True|False,next,label)
    loopentry(head) head(test|True,body,exit,label) backedge(head) cont(head) end"""

    def __init__(self, fn: ast.AsyncFunctionDef | ast.FunctionDef, subs: dict, helpers: dict | None = None):
        self.subs = subs
        self.helpers = helpers or {}  # plain (non-async) local functions: straight-line statements + `return <expr>`
        self.labels = {}
        self.nlabel = 0
        self.end = Node("end")
        body = [s for s in fn.body if not isinstance(s, (ast.Nonlocal, ast.Global))]
        self.entry = self.block(body, self.end, None, None, depth=0)

    def _label(self, node, prefix):
        self.nlabel += 1
        lab = f"{prefix}{self.nlabel}"
        node.label = lab
        self.labels[lab] = node
        return lab

    def block(self, stmts, nxt, loop, ret, depth):
        for s in reversed(stmts):
            nxt = self.stmt(s, nxt, loop, ret, depth)
        return nxt

    def stmt(self, s, nxt, loop, ret, depth):
        if isinstance(s, ast.Pass):
            return nxt
        if isinstance(s, ast.Expr) and isinstance(s.value, ast.Await):
            return self.await_(s.value.value, nxt, loop, ret, depth)
        if isinstance(s, ast.Expr) and isinstance(s.value, ast.Constant):
            return nxt  # docstring
        if isinstance(s, (ast.AugAssign, ast.Assign, ast.AnnAssign)):
            return Node("op", stmt=s, next=nxt)
        if isinstance(s, ast.If):
            then = self.block(s.body, nxt, loop, ret, depth)
            els = self.block(s.orelse, nxt, loop, ret, depth)
            return Node("cond", test=s.test, then=then, els=els)
        if isinstance(s, ast.While):
            if s.orelse:
                raise RUnsupported("while-else")
            test = s.test
            const = _const_truth(test)
            if const is False:
                # constant-false loop: one clock delay (DESIGN B)
                n = Node("await", test=True, next=nxt, always_false_loop=True)
                self._label(n, "wf")
                return n
            head = Node("head", test=True if const is True else test, body=None, exit=nxt)
            self._label(head, "h")
            back = Node("backedge", head=head)
            head.body = self.block(s.body, back, (head, nxt), ret, depth)
            return Node("loopentry", head=head)
        if isinstance(s, ast.Break):
            if loop is None:
                raise RUnsupported("break outside loop")
            return loop[1]
        if isinstance(s, ast.Continue):
            if loop is None:
                raise RUnsupported("continue outside loop")
            return Node("cont", head=loop[0])
        if isinstance(s, ast.Return):
            if s.value is not None and not (isinstance(s.value, ast.Constant) and s.value.value is None):
                raise RUnsupported("return value")
            return ret if ret is not None else self.end
        raise RUnsupported(f"statement {type(s).__name__}")

    def await_(self, e, nxt, loop, ret, depth):
        # await sub() / await self.sub()
        if isinstance(e, ast.Call):
            fname = e.func.id if isinstance(e.func, ast.Name) else (e.func.attr if isinstance(e.func, ast.Attribute) else None)
            if fname in self.subs:
                if e.args or e.keywords:
                    raise RUnsupported("sub-coroutine arguments")
                if depth > 4:
                    raise RUnsupported("recursion")
                fn = self.subs[fname]
                body = [s for s in fn.body if not isinstance(s, (ast.Nonlocal, ast.Global))]
                # loops of the caller are not visible inside the callee; return jumps to nxt
                return self.block(body, nxt, None, nxt, depth + 1)
            if fname in self.helpers:
                # await helper(): the helper's statements run (in zero time) where the await is reached, then its
                # return value is awaited -- the process has executed something, so the await is no longer "first"
                if e.args or e.keywords:
                    raise RUnsupported("helper arguments")
                fn = self.helpers[fname]
                body = [s for s in fn.body if not isinstance(s, (ast.Nonlocal, ast.Global))]
                if not body or not isinstance(body[-1], ast.Return) or body[-1].value is None:
                    raise RUnsupported("helper without return value")
                for st in body[:-1]:
                    if not isinstance(st, (ast.AugAssign, ast.Pass)):
                        raise RUnsupported("helper statement " + type(st).__name__)
                n = self.await_(body[-1].value, nxt, loop, ret, depth)
                return self.block(body[:-1], n, None, None, depth + 1)
        const = _const_truth(e)
        n = Node("await", test=e if const is None else const, next=nxt)
        self._label(n, "a")
        return n


def _const_truth(e):
    """cohdl.true / cohdl.false / true / false / True / False literal -> bool, else None"""
    if isinstance(e, ast.Constant) and isinstance(e.value, bool):
        return e.value
    name = None
    if isinstance(e, ast.Name):
        name = e.id
    elif isinstance(e, ast.Attribute) and isinstance(e.value, ast.Name) and e.value.id == "cohdl":
        name = e.attr
    if name == "true":
        return True
    if name == "false":
        return False
    return None


# --------------------------------------------------------------------------- expressions
_BINOP = {ast.Add: "add", ast.Sub: "sub", ast.Mult: "mul", ast.BitAnd: "and", ast.BitOr: "or", ast.BitXor: "xor",
          ast.Mod: "mod", ast.LShift: "shl", ast.RShift: "shr", ast.MatMult: "concat"}
_CMP = {ast.Eq: "eq", ast.NotEq: "ne", ast.Lt: "lt", ast.LtE: "le", ast.Gt: "gt", ast.GtE: "ge"}


class Expr:
    def __init__(self, P, objs: dict, reader):
        self.P, self.objs, self.reader = P, objs, reader

    def truth(self, rv: RVal):
        if rv.ty.kind == "bool":
            return rv.v
        if rv.ty.kind in ("Bit", "int", "U", "S", "BV"):
            return rv.v != 0
        raise RUnsupported("truth of " + str(rv.ty))

    def ev(self, e) -> RVal:
        P = self.P
        if isinstance(e, ast.Constant):
            if isinstance(e.value, bool):
                return RVal(BOOL, e.value)
            if isinstance(e.value, int):
                return RVal(INTT, e.value)
            raise RUnsupported("constant")
        ct = _const_truth(e)
        if ct is not None:
            return RVal(BOOL, ct)
        if isinstance(e, ast.Name):
            if e.id in ("Null", "Full"):
                return RVal(Ty("fill"), 0 if e.id == "Null" else 1)
            return self.reader(e.id)
        if isinstance(e, ast.Attribute):
            if isinstance(e.value, ast.Name) and e.value.id == "self":
                return self.reader(e.attr)
            base = self.ev(e.value)
            if e.attr in ("unsigned", "signed", "bitvector"):
                name = e.attr
                tr = SP.UNOPS[name][1](base.ty)
                return RVal(tr, SP.UNOPS[name][2](P, base.v, base.ty, tr))
            raise RUnsupported("attribute " + e.attr)
        if isinstance(e, ast.BinOp):
            name = _BINOP.get(type(e.op))
            if name is None:
                raise RUnsupported("binop")
            a, b = self.ev(e.left), self.ev(e.right)
            tmpl, trule, vrule, nz = SP.BINOPS[name]
            tr = trule(a.ty, b.ty)
            if tr is None:
                raise RUnsupported(f"{name} on {a.ty},{b.ty}")
            av = P.const(a.v) if isinstance(a.v, int) and a.ty.kind == "int" and name not in ("shl", "shr") else a.v
            bv = P.const(b.v) if isinstance(b.v, int) and b.ty.kind == "int" and name not in ("shl", "shr") else b.v
            return RVal(tr, vrule(P, av, bv, a.ty, b.ty, tr))
        if isinstance(e, ast.UnaryOp):
            if isinstance(e.op, ast.Not):
                return RVal(BOOL, P.lnot(self.truth(self.ev(e.operand))) if P is Z3P else (not self.truth(self.ev(e.operand))))
            a = self.ev(e.operand)
            name = {ast.Invert: "invert", ast.USub: "neg"}.get(type(e.op))
            if name is None:
                raise RUnsupported("unary")
            if a.ty.kind == "int":
                return RVal(INTT, -a.v if name == "neg" else ~a.v)
            tr = SP.UNOPS[name][1](a.ty)
            return RVal(tr, SP.UNOPS[name][2](P, a.v, a.ty, tr))
        if isinstance(e, ast.Compare):
            res = None
            left = self.ev(e.left)
            for op, right in zip(e.ops, e.comparators):
                r = self.ev(right)
                name = _CMP.get(type(op))
                if name is None:
                    raise RUnsupported("compare op")
                lv, rv = left.v, r.v
                if left.ty.kind == "bool" or r.ty.kind == "bool":
                    raise RUnsupported("compare bool")
                c = SP.BINOPS[name][2](P, lv, rv, left.ty, r.ty, BOOL)
                res = c if res is None else _land(P, res, c)
                left = r
            return RVal(BOOL, res)
        if isinstance(e, ast.BoolOp):
            vals = [self.truth(self.ev(v)) for v in e.values]
            res = vals[0]
            for v in vals[1:]:
                res = _land(P, res, v) if isinstance(e.op, ast.And) else _lor(P, res, v)
            return RVal(BOOL, res)
        if isinstance(e, ast.IfExp):
            c = self.truth(self.ev(e.test))
            a, b = self.ev(e.body), self.ev(e.orelse)
            if a.ty != b.ty:
                raise RUnsupported("ifexp type merge")
            return RVal(a.ty, P.ite(c, a.v, b.v))
        if isinstance(e, ast.Call):
            f = e.func
            fname = f.id if isinstance(f, ast.Name) else (f.attr if isinstance(f, ast.Attribute) else None)
            if fname in ("expr", "bool") and len(e.args) == 1:
                r = self.ev(e.args[0])
                return RVal(BOOL, self.truth(r)) if fname == "bool" else r
            raise RUnsupported("call " + str(fname))
        if isinstance(e, ast.Subscript):
            base = self.ev(e.value)
            sl = e.slice
            if isinstance(sl, ast.Constant) and isinstance(sl.value, int):
                i = sl.value
                return RVal(BIT, P.band(P.shr(SP._bits(P, base.v, base.ty), i), P.const(1)))
            if isinstance(sl, ast.Slice) and isinstance(sl.lower, ast.Constant) and isinstance(sl.upper, ast.Constant):
                hi, lo = sl.lower.value, sl.upper.value
                w = hi - lo + 1
                return RVal(SP.BV(w), P.wrap(P.shr(SP._bits(P, base.v, base.ty), lo), w, False))
            raise RUnsupported("subscript")
        raise RUnsupported(f"expression {type(e).__name__}")


def _land(P, a, b):
    if isinstance(a, bool) and isinstance(b, bool):
        return a and b
    return P.land(a, b)


def _lor(P, a, b):
    if isinstance(a, bool) and isinstance(b, bool):
        return a or b
    return P.lor(a, b)


def _lnot(P, a):
    if isinstance(a, bool):
        return not a
    return P.lnot(a)


def convert(P, rv: RVal, tt: Ty):
    """value conversion on assignment (only the accepted cases of C05 are used by generators)"""
    k = rv.ty.kind
    if k == "fill":
        if tt.kind in ("Bit", "bool"):
            return rv.v
        return 0 if rv.v == 0 else (P.wrap((1 << tt.w) - 1, tt.w, tt.signed))
    if k == "int":
        return rv.v
    if k == "bool":
        return P.b2i(rv.v) if not isinstance(rv.v, bool) else (1 if rv.v else 0)
    f = SP.conv_assign(rv.ty, tt)
    if f is None or f == "outside":
        raise RUnsupported(f"conversion {rv.ty} -> {tt}")
    return f(P, rv.v)


# --------------------------------------------------------------------------- activation
@dataclass
class Path:
    guard: object
    pc: str
    env: dict  # full env after the activation on this path
    trace: list = field(default_factory=list)


class RefProc:
    """one sequential process"""

    def __init__(self, source: str, proc_name: str, objs: dict[str, Obj], sub_names=()):
        self.objs = objs
        tree = ast.parse(source)
        fns = {}
        for n in ast.walk(tree):
            if isinstance(n, (ast.AsyncFunctionDef, ast.FunctionDef)):
                fns[n.name] = n
        self.fn = fns[proc_name]
        self.cfg = CFG(self.fn, {k: v for k, v in fns.items() if k != proc_name and isinstance(v, ast.AsyncFunctionDef)},
                       {k: v for k, v in fns.items() if k.startswith("hlp") and isinstance(v, ast.FunctionDef)})
        self.push_targets = set()
        self._scan_push(self.fn)
        for k, v in fns.items():
            if k != proc_name:
                self._scan_push(v)
        self.pcs = [START] + list(self.cfg.labels)
        self.step_cond = None  # source text of std.sequential(step_cond=lambda: <expr>): when false the whole context holds

    def _with_step_cond(self, P, pc, env, inputs, paths):
        """std.sequential(..., step_cond=c): at an active edge without reset the process body (and reset_pushed) runs only
        when c is true; otherwise every object of the context, the suspension point and pushed signals keep their value"""
        if self.step_cond is None:
            return paths
        sig_env = dict(env)
        sig_env.update(inputs)
        objs = self.objs

        def reader(name):
            o = objs.get(name)
            if o is None:
                raise RUnsupported("unknown name " + name)
            return RVal(o.ty, sig_env[name])

        X = Expr(P, objs, reader)
        c = X.truth(X.ev(ast.parse(self.step_cond, mode="eval").body))
        out = []
        for pth in paths:
            g = _guard(P, pth.guard, c, True)
            if g is not False:
                out.append(Path(g, pth.pc, pth.env, pth.trace))
        hold = _guard(P, True, c, False)
        if hold is not False:
            out.append(Path(hold, pc, dict(env)))
        return out

    def _scan_push(self, fn):
        for n in ast.walk(fn):
            if isinstance(n, ast.AugAssign) and isinstance(n.op, ast.BitXor):
                self.push_targets.add(self._tname(n.target))

    @staticmethod
    def _tname(t):
        if isinstance(t, ast.Attribute) and isinstance(t.value, ast.Name) and t.value.id == "self":
            return t.attr
        if isinstance(t, ast.Name):
            return t.id
        raise RUnsupported("target")

    def initial_env(self, P):
        return {n: (o.default if o.default is not None else 0) for n, o in self.objs.items() if o.kind != "in"}

    def written(self):
        """names assigned anywhere in the process (targets of reset)"""
        out = set()
        fns = [self.fn] + list(self.cfg.subs.values()) + list(self.cfg.helpers.values())
        for fn in fns:
            for n in ast.walk(fn):
                if isinstance(n, ast.AugAssign):
                    try:
                        out.add(self._tname(n.target.value if isinstance(n.target, ast.Subscript) else n.target))
                    except RUnsupported:
                        pass
        return out

    def activate(self, P, pc: str, env: dict, inputs: dict, max_paths=4000) -> list[Path]:
        """env: name -> math value for every non-input object; inputs: name -> math value.
        Returns the paths of one activation started at pc (guards are mutually exclusive and exhaustive)."""
        paths: list[Path] = []
        objs = self.objs
        sig_env = dict(env)
        sig_env.update(inputs)

        def run(node, guard, fresh, varenv, pending, pushed, locals_now, heads_seen, resume):
            # iterative along straight-line code, recursive at forks
            while True:
                if len(paths) > max_paths:
                    raise RUnsupported("too many paths")
                k = node.kind

                def reader(name, varenv=varenv, locals_now=locals_now):
                    o = objs.get(name)
                    if o is None:
                        raise RUnsupported("unknown name " + name)
                    if o.kind == "var" or name in locals_now:
                        return RVal(o.ty, varenv[name])
                    return RVal(o.ty, sig_env[name])

                X = Expr(P, objs, reader)
                if k == "end":
                    finish(guard, START, varenv, pending, pushed)
                    return
                if k == "op":
                    s = node.stmt
                    if isinstance(s, ast.AugAssign) and isinstance(s.target, ast.Subscript):
                        # self.x[hi:lo] <<= v  /  self.x[i] <<= v   (signals, constant positions): the other bits keep
                        # what this activation has scheduled so far, else the current value
                        if not isinstance(s.op, ast.LShift):
                            raise RUnsupported("partial target with " + type(s.op).__name__)
                        tn = self._tname(s.target.value)
                        o = objs[tn]
                        if o.kind == "var":
                            raise RUnsupported("<<= on variable")
                        sl = s.target.slice
                        if isinstance(sl, ast.Constant) and isinstance(sl.value, int):
                            hi = lo = sl.value
                            part_t = BIT
                        elif isinstance(sl, ast.Slice) and isinstance(sl.lower, ast.Constant) and isinstance(sl.upper, ast.Constant):
                            hi, lo = sl.lower.value, sl.upper.value
                            part_t = SP.BV(hi - lo + 1)
                        else:
                            raise RUnsupported("partial target")
                        pv = convert(P, X.ev(s.value), part_t)
                        cur = SP._bits(P, pending[tn] if tn in pending else sig_env[tn], o.ty)
                        wpart = hi - lo + 1
                        mask = ((1 << wpart) - 1) << lo
                        keep = ((1 << o.ty.w) - 1) & ~mask
                        nb = P.bor(P.band(cur, P.const(keep)), P.shl(P.band(pv, P.const((1 << wpart) - 1)), lo))
                        pending = dict(pending)
                        pending[tn] = SP._from_bits(P, nb, o.ty)
                    elif isinstance(s, ast.AugAssign):
                        tn = self._tname(s.target)
                        o = objs[tn]
                        val = convert(P, X.ev(s.value), o.ty)
                        if isinstance(s.op, ast.LShift):  # <<=
                            if o.kind == "var":
                                raise RUnsupported("<<= on variable")
                            pending = dict(pending)
                            pending[tn] = val
                        elif isinstance(s.op, ast.MatMult):  # @=
                            if o.kind != "var":
                                raise RUnsupported("@= on signal")
                            varenv = dict(varenv)
                            varenv[tn] = val
                        elif isinstance(s.op, ast.BitXor):  # ^=
                            pending = dict(pending)
                            pending[tn] = val
                            pushed = pushed | {tn}
                        else:
                            raise RUnsupported("augassign")
                    elif isinstance(s, ast.Assign):
                        # local construction: name = Signal[T](init) / Variable[T](init)
                        if len(s.targets) != 1 or not isinstance(s.targets[0], ast.Name):
                            raise RUnsupported("assign")
                        tn = s.targets[0].id
                        o = objs.get(tn)
                        if o is None or not o.local or not isinstance(s.value, ast.Call):
                            raise RUnsupported("assign to " + tn)
                        if s.value.args:
                            val = convert(P, X.ev(s.value.args[0]), o.ty)
                            varenv = dict(varenv)
                            varenv[tn] = val
                            if o.kind != "var":
                                pending = dict(pending)
                                pending[tn] = val
                        else:
                            raise RUnsupported("local object without initial value")
                        locals_now = locals_now | {tn}
                    else:
                        raise RUnsupported("op")
                    fresh = False
                    node = node.next
                    continue
                if k == "cond":
                    c = X.truth(X.ev(node.test))
                    if not isinstance(c, bool):
                        fresh = False
                    for val, nxt in ((True, node.then), (False, node.els)):
                        g = _guard(P, guard, c, val)
                        if g is False:
                            continue
                        run(nxt, g, fresh if isinstance(c, bool) else False, varenv, pending, pushed, locals_now, heads_seen, False)
                    return
                if k == "await":
                    t = node.test
                    if not resume and not (fresh and not getattr(node, "always_false_loop", False)):
                        finish(guard, node.label, varenv, pending, pushed)
                        return
                    resume = False
                    if t is True:
                        # 'await true': one clock when not fresh (already paid), nothing when fresh
                        node = node.next
                        continue
                    if t is False:
                        finish(guard, node.label, varenv, pending, pushed)
                        return
                    c = X.truth(X.ev(t))
                    if isinstance(c, bool):
                        if c:
                            node = node.next
                            continue
                        finish(guard, node.label, varenv, pending, pushed)
                        return
                    gf = _guard(P, guard, c, False)
                    if gf is not False:
                        finish(gf, node.label, varenv, pending, pushed)
                    gt = _guard(P, guard, c, True)
                    if gt is False:
                        return
                    guard, fresh = gt, False
                    node = node.next
                    continue
                if k == "loopentry":
                    if not fresh:
                        finish(guard, node.head.label, varenv, pending, pushed)
                        return
                    fresh = False
                    node = node.head
                    resume = True
                    continue
                if k == "backedge":
                    finish(guard, node.head.label, varenv, pending, pushed)
                    return
                if k == "cont":
                    if node.head.id in heads_seen:
                        raise RejectExpected("continue reachable without suspension")
                    heads_seen = heads_seen | {node.head.id}
                    node = node.head
                    resume = True
                    continue
                if k == "head":
                    if not resume:
                        raise RUnsupported("head reached without entry")
                    resume = False
                    heads_seen = heads_seen | {node.id}
                    fresh = False
                    if node.test is True:
                        node = node.body
                        continue
                    c = X.truth(X.ev(node.test))
                    if isinstance(c, bool):
                        node = node.body if c else node.exit
                        continue
                    gt = _guard(P, guard, c, True)
                    if gt is not False:
                        run(node.body, gt, False, varenv, pending, pushed, locals_now, heads_seen, False)
                    gf = _guard(P, guard, c, False)
                    if gf is False:
                        return
                    guard = gf
                    node = node.exit
                    continue
                raise RUnsupported(k)

        def finish(guard, pc2, varenv, pending, pushed):
            new = dict(env)
            for n in self.push_targets:
                if n not in pushed:
                    o = objs[n]
                    new[n] = o.default if o.default is not None else env[n]
            for n, v in varenv.items():
                if objs[n].kind == "var":
                    new[n] = v
            for n, v in pending.items():
                new[n] = v
            paths.append(Path(guard, pc2, new))

        varenv0 = {n: env[n] for n, o in objs.items() if o.kind == "var" or o.local}
        if pc == START:
            run(self.cfg.entry, True, True, varenv0, {}, frozenset(), frozenset(n for n, o in objs.items() if o.local and False), frozenset(), False)
        else:
            node = self.cfg.labels[pc]
            # locals constructed earlier keep living across states: readable as ordinary objects
            locs = frozenset(n for n, o in objs.items() if o.local and o.kind == "var")
            run(node, True, False, varenv0, {}, frozenset(), locs, frozenset(), True)
        return self._with_step_cond(P, pc, env, inputs, paths)


def _guard(P, guard, c, val):
    """guard AND (c == val)"""
    if isinstance(c, bool):
        return guard if c == val else False
    cc = c if val else z3.Not(c)
    if guard is True:
        return cc
    return z3.And(guard, cc)


def merge_paths(P, paths: list[Path], names):
    """-> (dict pc -> guard, dict name -> merged value)"""
    pcs = {}
    for p in paths:
        if p.pc in pcs:
            pcs[p.pc] = _lor(P, pcs[p.pc], p.guard)
        else:
            pcs[p.pc] = p.guard
    env = {}
    for n in names:
        val = paths[-1].env[n]
        for p in reversed(paths[:-1]):
            if isinstance(val, list):
                val = [P.ite(p.guard, x, y) for x, y in zip(p.env[n], val)]
            else:
                val = P.ite(p.guard, p.env[n], val)
        env[n] = val
    return pcs, env
