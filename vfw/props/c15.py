"""C15 -- SyncFlag and Mailbox hand over every event exactly once.
BMC from power-up: per clock the producer's attempt, the consumer's readiness and the payload are
symbolic; delays 0..2 on either side; producer/consumer in two contexts or in one."""
from __future__ import annotations
import itertools

from ..core import Reporter, Workdir
from .. import dom as D
from .. import vhdl_sim as VS
from ..vhdl_parse import Illegal
from ..bmc import Monitor, run_bmc, compile_design
from .c16 import HEADER, mux, bit

PW = 2


def _delay_args(txd, rxd):
    a = []
    if txd is not None:
        a.append(f"tx_delay={txd}")
    if rxd is not None:
        a.append(f"rx_delay={rxd}")
    return ", ".join(a)


def flag_design(txd, rxd, contexts, dq=False, redundant_clear=False):
    lines = [HEADER, "class W(cohdl.Entity):", "    clk = Port.input(Bit)", "    reset = Port.input(Bit)",
             "    p_try = Port.input(Bit)", "    c_ready = Port.input(Bit)",
             "    obs_clear = Port.output(Bit, default=False)", "    obs_set = Port.output(Bit, default=False)", "    recv = Port.output(Bit, default=False)", "    def architecture(self):",
             "        ctx = std.SequentialContext(std.Clock(self.clk), std.Reset(self.reset))",
             f"        flag = std.SyncFlag({_delay_args(txd, rxd)})"]
    prod = ["self.obs_clear ^= flag.is_clear()", "if self.p_try:", "    flag.set()"]
    cons = ["if self.c_ready and flag.is_set():", "    flag.clear()", "    self.recv ^= True"]
    if redundant_clear:
        # clear() is also issued when the consumer sees nothing pending: it must have no effect (an event still travelling
        # through the delay line is neither lost nor observed early)
        cons = ["if self.c_ready:", "    if flag.is_set():", "        self.recv ^= True", "    flag.clear()"]
        prod = ["self.obs_clear ^= flag.is_clear()", "if self.p_try:", "    flag.set()"]
    if dq:
        # every side queries the flag more than once before it uses it (each query must see the same, driven, copy)
        prod = ["self.obs_clear ^= flag.is_clear()", "if self.p_try and flag.is_clear():", "    flag.set()"]
        cons = ["self.obs_set ^= flag.is_set()", "if self.c_ready and flag.is_set():", "    flag.clear()", "    self.recv ^= True"]
    if contexts == 2:
        lines += ["        @ctx", "        def producer():"] + ["            " + l for l in prod]
        lines += ["        @ctx", "        def consumer():"] + ["            " + l for l in cons]
    else:
        lines += ["        @ctx", "        def both():"] + ["            " + l for l in prod + cons]
    return "\n".join(lines) + "\n"


class FlagMonitor(Monitor):
    """set issued while the producer observes the flag as clear = effective; exactly one receive per effective set,
    producer sees clear again only after the receive, no receive without pending set"""

    def __init__(self, same_context=False):
        super().__init__()
        self.pending = False
        self.same = same_context

    def step(self, i, ins, outs):
        rst = bit(ins["reset"])
        obs_clear = D.b_and(bit(outs["obs_clear"]), D.b_not(rst))
        eff = D.b_and(D.b_and(bit(ins["p_try"]), obs_clear), D.b_not(rst))
        recv = bit(outs["recv"])
        # the producer may see 'clear' only when nothing is pending
        self.check(D.b_implies(obs_clear, D.b_not(self.pending)), "producer observed the flag clear while an event was pending (before the consumer cleared it)")
        # a receive needs a pending event (no duplicate / phantom observation)
        self.check(D.b_implies(recv, self.pending), "consumer observed a set that was not pending (duplicate or phantom event)")
        self.check(D.b_implies(rst, D.b_not(recv)), "receive during reset")
        nxt = D.b_or(D.b_and(self.pending, D.b_not(recv)), eff)
        self.pending = D.b_ite(rst, False, nxt)


def mailbox_design(txd, rxd, contexts, dq=False):
    lines = [HEADER, "class W(cohdl.Entity):", "    clk = Port.input(Bit)", "    reset = Port.input(Bit)",
             "    p_try = Port.input(Bit)", "    c_ready = Port.input(Bit)", f"    payload = Port.input(Unsigned[{PW}])",
             "    sent = Port.output(Bit, default=False)", "    recv = Port.output(Bit, default=False)", "    obs_clear = Port.output(Bit, default=False)", "    obs_set = Port.output(Bit, default=False)",
             f"    recv_data = Port.output(Unsigned[{PW}], default=Null)", "    def architecture(self):",
             "        ctx = std.SequentialContext(std.Clock(self.clk), std.Reset(self.reset))",
             f"        mb = std.Mailbox[Unsigned[{PW}]]({_delay_args(txd, rxd)})"]
    prod = ["if self.p_try and mb.is_clear():", "    mb.send(self.payload)", "    self.sent ^= True"]
    cons = ["if self.c_ready and mb.is_set():", "    self.recv_data <<= mb.data()", "    mb.clear()", "    self.recv ^= True"]
    if dq:
        prod = ["self.obs_clear ^= mb.is_clear()"] + prod
        cons = ["self.obs_set ^= mb.is_set()"] + cons
    if contexts == 2:
        lines += ["        @ctx", "        def producer():"] + ["            " + l for l in prod]
        lines += ["        @ctx", "        def consumer():"] + ["            " + l for l in cons]
    else:
        lines += ["        @ctx", "        def both():"] + ["            " + l for l in prod + cons]
    return "\n".join(lines) + "\n"


def mailbox_coro_design(txd, rxd, variant):
    """coroutine users: the flag is queried AFTER send() / clear() in program order in the same context"""
    lines = [HEADER, "class W(cohdl.Entity):", "    clk = Port.input(Bit)", "    reset = Port.input(Bit)",
             "    p_try = Port.input(Bit)", "    c_ready = Port.input(Bit)", f"    payload = Port.input(Unsigned[{PW}])",
             "    sent = Port.output(Bit, default=False)", "    recv = Port.output(Bit, default=False)", "    acked = Port.output(Bit, default=False)",
             f"    recv_data = Port.output(Unsigned[{PW}], default=Null)", "    def architecture(self):",
             "        ctx = std.SequentialContext(std.Clock(self.clk), std.Reset(self.reset))",
             f"        mb = std.Mailbox[Unsigned[{PW}]]({_delay_args(txd, rxd)})"]
    plain_prod = ["@ctx", "def producer():", "    if self.p_try and mb.is_clear():", "        mb.send(self.payload)", "        self.sent ^= True"]
    plain_cons = ["@ctx", "def consumer():", "    if self.c_ready and mb.is_set():", "        self.recv_data <<= mb.data()", "        mb.clear()", "        self.recv ^= True"]
    coro_prod = ["@ctx", "async def producer():", "    await self.p_try", "    mb.send(self.payload)", "    self.sent ^= True", "    await mb.is_clear()", "    self.acked ^= True"]
    coro_cons = ["@ctx", "async def consumer():", "    await self.c_ready", "    a = await mb.receive()", "    self.recv_data <<= a", "    self.recv ^= True",
                 "    b = await mb.receive()", "    self.recv_data <<= b", "    self.recv ^= True"]
    prod, cons = {"producer-ack": (coro_prod, plain_cons), "consumer-receive-twice": (plain_prod, coro_cons), "both-coroutines": (coro_prod, coro_cons)}[variant]
    lines += ["        " + l for l in prod + cons]
    return "\n".join(lines) + "\n"


class MailboxMonitor(Monitor):
    def __init__(self):
        super().__init__()
        self.pending = False
        self.data = 0
        self.last = 0

    def step(self, i, ins, outs):
        rst = bit(ins["reset"])
        sent, recv = bit(outs["sent"]), bit(outs["recv"])
        self.check(D.b_implies(sent, D.b_not(self.pending)), "send accepted while the previous message was still pending")
        self.check(D.b_implies(sent, bit(ins["p_try"])), "send without request")
        if "acked" in outs:
            self.check(D.b_implies(bit(outs["acked"]), D.b_not(self.pending)), "producer saw the mailbox clear (acknowledged) before the consumer had taken the message")
        self.check(D.b_implies(recv, self.pending), "receive without pending message (duplicate or phantom)")
        self.last = mux(rst, 0, mux(recv, self.data, self.last, PW), PW)
        self.check(D.v_eq(outs["recv_data"], self.last, PW), "received payload differs from the payload sent (or changed without receive)")
        self.data = mux(sent, ins["payload"], self.data, PW)
        self.pending = D.b_ite(rst, False, D.b_or(D.b_and(self.pending, D.b_not(recv)), sent))


class MailboxLiveness(MailboxMonitor):
    """bounded progress: with the consumer always ready and the producer always trying, at least one message
    is delivered within the horizon (guards against a design in which nothing ever moves)"""

    def __init__(self, K):
        super().__init__()
        self.K = K
        self.delivered = False

    def step(self, i, ins, outs):
        self.assume(bit(ins["p_try"]))
        self.assume(bit(ins["c_ready"]))
        self.assume(D.b_not(bit(ins["reset"])))
        super().step(i, ins, outs)
        self.delivered = D.b_or(self.delivered, bit(outs["recv"]))
        if i == self.K - 1:
            self.check(self.delivered, "no message delivered although producer and consumer were always willing")


def jobs(tier):
    js = []
    delays = [(None, None), (0, 0), (1, 0), (0, 1), (1, 1), (2, 1), (1, 2)] if tier == "quick" else \
        [(None, None)] + [(a, b) for a in range(4) for b in range(4)]
    K = 14 if tier == "quick" else 30
    for (txd, rxd), ctxs in itertools.product(delays, (2, 1)):
        if ctxs == 1 and (txd or rxd):
            continue  # delays are meant for two different contexts
        js.append((f"SyncFlag|tx={txd}|rx={rxd}|contexts={ctxs}", flag_design(txd, rxd, ctxs), {"reset": 1, "p_try": 1, "c_ready": 1}, ["obs_clear", "recv"], K, lambda c=ctxs: FlagMonitor(c == 1)))
        js.append((f"Mailbox|tx={txd}|rx={rxd}|contexts={ctxs}", mailbox_design(txd, rxd, ctxs), {"reset": 1, "p_try": 1, "c_ready": 1, "payload": PW}, ["sent", "recv", "recv_data"], K, MailboxMonitor))
        if ctxs == 2:
            js.append((f"SyncFlag|tx={txd}|rx={rxd}|redundant clear", flag_design(txd, rxd, ctxs, redundant_clear=True), {"reset": 1, "p_try": 1, "c_ready": 1}, ["obs_clear", "recv"], K, lambda: FlagMonitor(False)))
            js.append((f"SyncFlag|tx={txd}|rx={rxd}|repeated queries", flag_design(txd, rxd, ctxs, dq=True), {"reset": 1, "p_try": 1, "c_ready": 1}, ["obs_clear", "recv"], K, lambda: FlagMonitor(False)))
            js.append((f"Mailbox|tx={txd}|rx={rxd}|repeated queries", mailbox_design(txd, rxd, ctxs, dq=True), {"reset": 1, "p_try": 1, "c_ready": 1, "payload": PW}, ["sent", "recv", "recv_data"], K, MailboxMonitor))
        if ctxs == 2:
            for variant in ("producer-ack", "consumer-receive-twice", "both-coroutines"):
                js.append((f"Mailbox|tx={txd}|rx={rxd}|{variant}", mailbox_coro_design(txd, rxd, variant), {"reset": 1, "p_try": 1, "c_ready": 1, "payload": PW},
                           ["sent", "recv", "recv_data", "acked"], K, MailboxMonitor))
        js.append((f"Mailbox-progress|tx={txd}|rx={rxd}|contexts={ctxs}", mailbox_design(txd, rxd, ctxs), {"reset": 1, "p_try": 1, "c_ready": 1, "payload": PW}, ["sent", "recv", "recv_data"], 10, lambda: MailboxLiveness(10)))
    return js


def run(tier: str) -> int:
    rep = Reporter("C15", tier, "model_checking")
    wd = Workdir()
    counts = {}
    states = transitions = 0
    try:
        for key, src, inputs, outputs, K, mk in jobs(tier):
            text, exc = compile_design(wd, src, "W", "c15")
            rep.stats.programs += 1
            if text is None:
                rep.violation(f"rejected|{key}", f"{key}: wrapper rejected: {type(exc).__name__}: {str(exc)[:200]}", {"source": src})
                continue
            try:
                lib = VS.Library(text)
                VS.Sim(lib)
            except Illegal as e:
                rep.violation(f"illegal|{key}", f"{key}: emitted VHDL illegal: {e}", {"source": src, "vhdl": text})
                continue
            status, info = run_bmc(rep.stats, lib, inputs, outputs, K, mk, timeout_ms=300000)
            counts[status] = counts.get(status, 0) + 1
            transitions += K
            states += K + 1
            if status == "ok":
                rep.stats.nontrivial.add(key)
                rep.stats.sample({"design": key, "K": K, "verdict": "unsat: hand-over monitor holds at every clock for all schedules"}, limit=3)
            elif status == "violation":
                rep.violation(f"{key}", f"{key}: {info['failed'][0][0]} at clock {info['failed'][0][1]}; schedule {info['trace'][:info['failed'][0][1] + 1] if isinstance(info['failed'][0][1], int) else ''}",
                              {"source": src, "vhdl": text, **info})
                rep.stats.extra["traces_validated"] = rep.stats.extra.get("traces_validated", 0) + 1
            else:
                rep.inconclusive_query(f"{key}: {status} {info}")
        rep.stats.units |= {"cohdl.std.utility.SyncFlag (set/clear/is_set/is_clear, _cmp_rx/_cmp_tx, delay lines)", "cohdl.std.utility.Mailbox (send/data/clear)", "std._context.at_end_of_context"}
        rep.assumptions += ["BMC depth K from power-up; producer attempt, consumer readiness, payload and context reset symbolic at every clock; both contexts on one clock",
                            "delays (tx, rx) in 0..2; safety monitors (exactly-once, order, payload, producer sees clear only after consumer cleared) + bounded progress with both sides always willing"]
        return rep.finish({
            "states": states, "transitions": transitions, "traces_validated_against_impl": rep.stats.extra.get("traces_validated", 0),
            "designs": rep.stats.programs, "design_results": counts,
            "samples": rep.stats.samples or [{"design": "SyncFlag"}],
            "distinct_nontrivial": len(rep.stats.nontrivial), "evaluations": rep.stats.programs,
        })
    finally:
        wd.close()
