"""'coro' program family (DESIGN Appendix C): bounded grammar of coroutine bodies.

A body is a tree of statements; rendering gives the Python source the real compiler translates
and the reference semantics R interprets.  Each 'mark' statement is observable in the clock in
which it executes (unique trace value + a variable counter copied to an output), so a skipped or
doubled statement shows up as a data difference."""
from __future__ import annotations
import itertools
import random
from .refsem import Obj
from .spec import U, BIT, BV
from .seqcheck import SeqProgram

HEADER = '''from __future__ import annotations
import cohdl
from cohdl import Bit, BitVector, Unsigned, Signed, Port, Signal, Variable, Null, Full, std
from cohdl import true, false
'''

N_IN = 3
CONDS = ["self.in0", "self.in1", "cohdl.expr(self.in0 and self.in1)", "cohdl.expr(not self.in2)", "cohdl.expr(v == 2)"]
IFCONDS = ["self.in0", "self.in1", "self.in2", "not self.in1", "v == 1", "self.in0 and self.in2"]
LOOPCONDS = ["True", "self.in2", "v != 3", "self.in1"]


# statement constructors ------------------------------------------------------
def mark():
    return ("mark",)


def vinc():
    return ("vinc",)


def await_(c):
    return ("await", c)


def if_(c, a, b=None):
    return ("if", c, a, b)


def while_(c, body):
    return ("while", c, body)


def sub(k):
    return ("sub", k)


PULSE, PARTIAL = ("pulse",), ("partial",)


BREAK, CONTINUE, RETURN = ("break",), ("continue",), ("return",)


def await_call(c, with_mark=True):
    """await hlpN()  where hlpN is a plain local function that executes statements and returns the condition c"""
    return ("await_call", c, with_mark)


class Renderer:
    def __init__(self):
        self.n = 0
        self.helpers = []  # source lines of plain helper functions (architecture level)

    def block(self, stmts, ind):
        out = []
        for s in stmts:
            out += self.stmt(s, ind)
        if not out:
            out = [ind + "pass"]
        return out

    def stmt(self, s, ind):
        k = s[0]
        if k == "mark":
            self.n += 1
            return [f"{ind}self.trace <<= {self.n % 16}", f"{ind}cnt @= cnt + 1", f"{ind}self.seen <<= cnt"]
        if k == "vinc":
            return [f"{ind}v @= v + 1"]
        if k == "pulse":
            return [f"{ind}self.pulse ^= True"]
        if k == "partial":
            # a noreset object written through a slice and a single bit only
            return [f"{ind}self.keep[1:0] <<= cnt[1:0]", f"{ind}self.keep[2] <<= self.in0"]
        if k == "await":
            return [f"{ind}await {s[1]}"]
        if k == "await_call":
            name = f"hlp{len(self.helpers)}"
            body = self.stmt(("mark",), "    ") if s[2] else ["    pass"]
            self.helpers.append([f"def {name}():", "    nonlocal cnt, v"] + body + [f"    return {s[1]}"])
            return [f"{ind}await {name}()"]
        if k == "if":
            out = [f"{ind}if {s[1]}:"] + self.block(s[2], ind + "    ")
            if s[3] is not None:
                out += [f"{ind}else:"] + self.block(s[3], ind + "    ")
            return out
        if k == "while":
            return [f"{ind}while {s[1]}:"] + self.block(s[2], ind + "    ")
        if k == "sub":
            return [f"{ind}await sub{s[1]}()"]
        if k in ("break", "continue", "return"):
            return [f"{ind}{k}"]
        raise ValueError(k)


def render(body, subs=(), reset="sync", ename="Coro", active_low=False, falling=False, seen_kind="default",
           cnt_kind="default", on_reset=False, step_cond=None):
    """reset: none|sync|async; seen_kind/cnt_kind: default|nodefault|noreset"""
    r = Renderer()
    lines = [HEADER, f"class {ename}(cohdl.Entity):",
             "    clk = Port.input(Bit)"]
    if reset != "none":
        lines.append("    reset = Port.input(Bit)")
    for i in range(N_IN):
        lines.append(f"    in{i} = Port.input(Bit)")
    seen_decl = {"default": "Port.output(Unsigned[3], default=Null)", "nodefault": "Port.output(Unsigned[3])",
                 "noreset": "Port.output(Unsigned[3], default=Null, noreset=True)"}[seen_kind]
    cnt_decl = {"default": "Variable[Unsigned[3]](Null, name='cnt')", "nodefault": "Variable[Unsigned[3]](name='cnt')",
                "noreset": "Variable[Unsigned[3]](Null, name='cnt', noreset=True)"}[cnt_kind]
    lines += ["    trace = Port.output(Unsigned[4], default=Null)",
              f"    seen = {seen_decl}"]
    if on_reset:
        lines.append("    flag = Port.output(Unsigned[2], default=Null)")
    uses = repr((body, subs))
    if "'pulse'" in uses:
        lines.append("    pulse = Port.output(Bit, default=False)")     # only ever pushed
    if "'partial'" in uses:
        lines.append("    keep = Port.output(BitVector[3], default=Null, noreset=True)")   # written through slices / bits only
    lines += ["    def architecture(self):",
              f"        cnt = {cnt_decl}",
              "        v = Variable[Unsigned[2]](Null, name='v')"]
    for k, sb in enumerate(subs):
        lines.append(f"        async def sub{k}():")
        lines.append("            nonlocal cnt, v")
        lines += r.block(sb, "            ")
    if on_reset:
        lines += ["        def on_rst():", "            self.flag <<= 2"]
    clk = "std.Clock(self.clk" + (", active_edge=std.ClockEdge.FALLING" if falling else "") + ")"
    args = [clk]
    if reset != "none":
        ra = ["self.reset"]
        if active_low:
            ra.append("active_low=True")
        if reset == "async":
            ra.append("is_async=True")
        args.append(f"std.Reset({', '.join(ra)})")
    if on_reset:
        args.append("on_reset=[on_rst]")
    if step_cond:
        args.append(f"step_cond=lambda: {step_cond}")
    body_lines = r.block(body, "            ")
    for h in r.helpers:
        lines += ["        " + ln for ln in h]
    lines.append(f"        @std.sequential({', '.join(args)})")
    lines.append("        async def proc():")
    lines.append("            nonlocal cnt, v")
    lines += body_lines
    if on_reset:
        lines += ["            self.flag <<= 1"]
    src = "\n".join(lines) + "\n"
    objs = {f"in{i}": Obj(f"in{i}", BIT, "in") for i in range(N_IN)}
    if reset != "none":
        objs["reset"] = Obj("reset", BIT, "in")
    objs["trace"] = Obj("trace", U(4), "out", 0)
    objs["seen"] = Obj("seen", U(3), "out", None if seen_kind == "nodefault" else 0, noreset=seen_kind == "noreset")
    objs["cnt"] = Obj("cnt", U(3), "var", None if cnt_kind == "nodefault" else 0, noreset=cnt_kind == "noreset")
    objs["v"] = Obj("v", U(2), "var", 0)
    if on_reset:
        objs["flag"] = Obj("flag", U(2), "out", 0)
    if "'pulse'" in uses:
        objs["pulse"] = Obj("pulse", BIT, "out", 0)
    if "'partial'" in uses:
        objs["keep"] = Obj("keep", BV(3), "out", 0, noreset=True)
    return SeqProgram(source=src, objs=objs, proc="proc", reset="reset" if reset != "none" else None, entity=ename,
                      reset_active=0 if active_low else 1, reset_async=reset == "async", rising=not falling,
                      meta={"body": body, "subs": subs, "on_reset": [("flag", 2)] if on_reset else [], "step_cond": step_cond})


# enumeration -------------------------------------------------------------------
def _leafs(in_loop):
    out = [mark(), vinc(), await_("self.in0"), await_("true"), await_(CONDS[2])]
    if in_loop:
        out += [BREAK, CONTINUE]
    return out


def core_programs():
    """hand-picked exhaustive core: every construct of the statement in small combinations"""
    P = []
    A0, A1, AT = await_("self.in0"), await_("self.in1"), await_("true")
    M = mark()
    # straight-line combinations of up to 3 from {mark, await cond, await true, vinc}
    atoms = [M, A0, AT, vinc()]
    for n in (1, 2, 3):
        for combo in itertools.product(atoms, repeat=n):
            if not any(a[0] in ("mark",) for a in combo):
                continue
            P.append(list(combo))
    # if / else with awaits in either arm
    arms = [[M], [A0], [M, A0], [A0, M], [AT, M], []]
    for c in IFCONDS[:3]:
        for a, b in itertools.product(arms, arms):
            if not a and not b:
                continue
            P.append([M, if_(c, a, b if b else None), M])
            P.append([if_(c, a, b if b else None), M])
    # while loops
    bodies = [[M], [M, A0], [A0, M], [M, AT], [M, A0, if_("self.in1", [BREAK])], [M, A0, if_("self.in1", [CONTINUE]), M],
              [M, A0, if_("self.in1", [BREAK], [CONTINUE])], [vinc(), M, if_("self.in0", [BREAK])],
              [M, A0, if_("self.in1", [RETURN]), M], [if_("self.in0", [M, A1], [M]),]]
    for c in LOOPCONDS:
        for b in bodies:
            P.append([while_(c, b), M])
            P.append([M, while_(c, b), M, A1])
    # a loop whose condition is a build-time constant that is false: never entered, costs the clock of the loop entry (not placed at the
    # very start of the process, where the emitted machine and R treat the first wait differently: not judged)
    for b in ([M], [M, A0], [A0, M]):
        P.append([M, while_("0 > 0", b), M, A1])
        P.append([M, A0, while_("1 > 2", b), M])
    # nested loops
    P.append([M, while_("self.in0", [M, while_("self.in1", [M, A0 if False else AT]), M])])
    P.append([while_("True", [M, A0, while_("self.in1", [vinc(), if_("v == 2", [BREAK])]), M, if_("self.in2", [BREAK])]), M])
    # outer break placed after an inner loop; nested loops with break / continue on both levels
    P.append([while_("self.in0", [M, while_("self.in1", [M, A0]), if_("self.in2", [BREAK]), M, AT]), M])
    P.append([M, while_("True", [while_("self.in1", [M, AT, if_("self.in0", [BREAK])]), M, A0, if_("self.in2", [BREAK], [CONTINUE])]), M])
    # awaits whose operand is a plain helper call that executes statements first (first action, later, inside a loop;
    # a helper without statements leaves the await 'first')
    C0, C1, CN = await_call("self.in0"), await_call("self.in1"), await_call("self.in0", with_mark=False)
    P += [[C0, M], [C0, M, A1], [M, C0, M], [CN, M], [CN, M, AT, M], [A0, C1, M], [C0, C1, M],
          [while_("self.in2", [C0, M]), M], [M, if_("self.in1", [C0], [M]), M], [C0, if_("self.in1", [M, A0]), M]]
    # if / else with an await in one branch only, followed by common code that awaits again
    P += [[M, if_("self.in1", [M], [A0, M]), M, AT, M], [if_("self.in1", [M], [AT]), M, A0], [M, if_("self.in0", [A1], [M]), vinc(), M]]
    return P


def sub_programs():
    A0, A1, AT, M = await_("self.in0"), await_("self.in1"), await_("true"), mark()
    out = []
    subs_list = [
        ([M, A0, M],),
        ([A0],),
        ([M, if_("self.in1", [RETURN]), A0, M],),
        ([while_("True", [M, A0, if_("self.in1", [RETURN])])],),
        ([M], [A1, M]),
    ]
    # a helper that is left on two paths of the same state while a third path stays inside its loop
    W2 = [while_("True", [A0, if_("self.in1", [M, RETURN]), if_("self.in2", [vinc(), RETURN])])]
    out.append(([M, sub(0), M, AT, M], [W2]))
    out.append(([sub(0), M, A1, M], [W2]))
    out.append(([while_("self.in2", [M, sub(0), vinc()]), M], [W2]))
    W3 = [A0, if_("self.in1", [RETURN]), M, AT, if_("self.in2", [RETURN], [M])]
    out.append(([M, sub(0), M, sub(0), M], [W3]))
    for subs in subs_list:
        out.append(([sub(0), M], subs))
        out.append(([M, sub(0), M, sub(0)], subs))
        out.append(([while_("self.in2", [sub(0), M]), M], subs))
        if len(subs) > 1:
            out.append(([sub(0), sub(1), M, if_("self.in0", [sub(1)], [M])], subs))
    return out


def random_body(rng: random.Random, depth, in_loop=False, maxlen=4):
    n = rng.randint(1, maxlen)
    body = []
    for _ in range(n):
        r = rng.random()
        if depth > 0 and r < 0.22:
            c = rng.choice(IFCONDS)
            a = random_body(rng, depth - 1, in_loop, 3)
            b = random_body(rng, depth - 1, in_loop, 3) if rng.random() < 0.5 else None
            body.append(if_(c, a, b))
        elif depth > 0 and r < 0.40:
            c = rng.choice(LOOPCONDS)
            body.append(while_(c, random_body(rng, depth - 1, True, 4)))
        elif r < 0.62:
            body.append(mark())
        elif r < 0.70:
            body.append(vinc())
        elif r < 0.90:
            body.append(await_(rng.choice(CONDS + ["true", "self.in2"])))
        elif in_loop:
            body.append(if_(rng.choice(IFCONDS), [rng.choice([BREAK, CONTINUE])]))
        else:
            body.append(mark())
    return body


def programs(tier, seed):
    out = []
    for b in core_programs():
        out.append(render(b))
    for b, subs in sub_programs():
        out.append(render(b, subs))
    rng = random.Random(seed)
    n = 120 if tier == "quick" else 1500
    for _ in range(n):
        out.append(render(random_body(rng, 2 if tier == "quick" else 3)))
    # dedupe by source
    seen, res = set(), []
    for p in out:
        if p.source not in seen:
            seen.add(p.source)
            res.append(p)
    return res
