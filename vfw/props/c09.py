"""C09 -- compile-time evaluation of primitives agrees with the emitted run-time logic.

(a) E-PY: CrossHair executes the real Python methods of Unsigned/Signed/BitVector/Bit on symbolic
    operand values and compares type, width and value with the single-source spec (the same
    functions C02 proves the emitted logic against) -- 'Confirmed over all paths' only.
(b) folding path: designs whose operands are compile-time constants are compiled; the literal the
    compiler emits is compared (z3, trivial) with the spec value -- ties constant folding and
    format_literal to the same spec.
"""
from __future__ import annotations
import itertools
import random
import re

from ..core import Reporter, Workdir
from ..cells import Cell, run_cells
from .. import spec as SP
from ..spec import Ty, U, S, BV, BIT, INTT, PyP
from .. import chrun, pyside
from .c02 import vec_types, _out_ty

PRELUDE = '''from vfw import pyside as H
from vfw.spec import Ty
'''


def _ty_src(t: Ty):
    return f"Ty({t.kind!r}, {t.w})"


def _range(t: Ty, var, other: Ty | None = None):
    if t.kind == "int":
        return f"{other.lo()} <= {var} <= {other.hi()}"
    if t.kind == "Bit":
        return f"0 <= {var} <= 1"
    return f"{t.lo()} <= {var} <= {t.hi()}"


def harness_functions(widths):
    funcs = []  # (name, source, meta)
    tys = list(vec_types(widths)) + [BIT]
    n = 0
    for name, (tmpl, trule, vrule, nz) in SP.BINOPS.items():
        pairs = []
        for ta, tb in itertools.product(tys, tys):
            if trule(ta, tb) is not None:
                pairs.append((ta, tb))
        for tv in tys:
            if tv.kind in ("U", "S") and name not in ("concat",):
                if trule(tv, INTT) is not None:
                    pairs.append((tv, INTT))
                if name not in ("shl", "shr") and trule(INTT, tv) is not None:
                    pairs.append((INTT, tv))
        for ta, tb in pairs:
            n += 1
            fn = f"c09_{name}_{n}"
            pre = [_range(ta, "a", tb), _range(tb, "b", ta)]
            if name in ("shl", "shr"):
                pre[1] = f"0 <= b <= {ta.w + 1}" if tb.kind == "int" else pre[1]
            if nz:
                pre.append("b != 0")
            src = f"def {fn}(a: int, b: int) -> bool:\n    \"\"\"\n" + "".join(f"    pre: {p}\n" for p in pre) + \
                  f"    post: _\n    \"\"\"\n    return H.check_bin({name!r}, {_ty_src(ta)}, {_ty_src(tb)}, a, b)\n"
            funcs.append((fn, src, {"op": name, "ta": ta, "tb": tb, "kind": "bin"}))
    for name, (tmpl, trule, vrule) in SP.UNOPS.items():
        if name in ("bool", "not"):
            continue
        for ta in tys:
            if trule(ta) is None:
                continue
            n += 1
            fn = f"c09_{name}_{n}"
            src = f"def {fn}(a: int) -> bool:\n    \"\"\"\n    pre: {_range(ta, 'a')}\n    post: _\n    \"\"\"\n    return H.check_un({name!r}, {_ty_src(ta)}, a)\n"
            funcs.append((fn, src, {"op": name, "ta": ta, "kind": "un"}))
    for ta in vec_types(widths):
        n += 1
        fn = f"c09_index_{n}"
        src = f"def {fn}(a: int, i: int) -> bool:\n    \"\"\"\n    pre: {_range(ta, 'a')}\n    pre: 0 <= i < {ta.w}\n    post: _\n    \"\"\"\n    return H.check_index({_ty_src(ta)}, a, i)\n"
        funcs.append((fn, src, {"op": "index", "ta": ta, "kind": "index"}))
        n += 1
        fn = f"c09_slice_{n}"
        src = f"def {fn}(a: int, hi: int, lo: int) -> bool:\n    \"\"\"\n    pre: {_range(ta, 'a')}\n    pre: 0 <= lo <= hi < {ta.w}\n    post: _\n    \"\"\"\n    return H.check_slice({_ty_src(ta)}, a, hi, lo)\n"
        funcs.append((fn, src, {"op": "slice", "ta": ta, "kind": "slice"}))
        if ta.kind in ("U", "S"):
            n += 1
            fn = f"c09_resize_{n}"
            src = f"def {fn}(a: int, nw: int) -> bool:\n    \"\"\"\n    pre: {_range(ta, 'a')}\n    pre: {ta.w} <= nw <= {ta.w + 2}\n    post: _\n    \"\"\"\n    return H.check_resize({_ty_src(ta)}, a, nw)\n"
            funcs.append((fn, src, {"op": "resize", "ta": ta, "kind": "resize"}))
    return funcs


_ARGS = re.compile(r"calling \w+\(([^)]*)\)")


_PARAMS = {"bin": ["a", "b"], "un": ["a"], "index": ["a", "i"], "slice": ["a", "hi", "lo"], "resize": ["a", "nw"]}


def _parse_args(msg, kind="bin"):
    m = _ARGS.search(msg)
    if not m:
        return None
    try:
        def collect(*pos, **kw):
            d = dict(zip(_PARAMS[kind], pos))
            d.update(kw)
            return d
        return eval(f"collect({m.group(1)})", {"__builtins__": {}}, {"collect": collect})
    except Exception:
        return None


def _native(meta, args):
    """replay on the plain interpreter: -> (holds: bool, description)"""
    k = meta["kind"]
    if k == "bin":
        ok = pyside.check_bin(meta["op"], meta["ta"], meta["tb"], args["a"], args["b"])
        got = pyside.eval_bin(meta["op"], meta["ta"], meta["tb"], args["a"], args["b"])
        want = pyside.expected_bin(meta["op"], meta["ta"], meta["tb"], args["a"], args["b"])
        return ok, f"{meta['op']}({meta['ta']}={args['a']}, {meta['tb']}={args['b']}) -> {got}, documented {want}"
    if k == "un":
        return pyside.check_un(meta["op"], meta["ta"], args["a"]), f"{meta['op']}({meta['ta']}={args['a']}) -> {pyside.eval_un(meta['op'], meta['ta'], args['a'])}"
    if k == "index":
        return pyside.check_index(meta["ta"], args["a"], args["i"]), f"index {args}"
    if k == "slice":
        return pyside.check_slice(meta["ta"], args["a"], args["hi"], args["lo"]), f"slice {args}"
    return pyside.check_resize(meta["ta"], args["a"], args["nw"]), f"resize {args}"


def finding_key(meta):
    """groups counterexamples by call site: operator + operand kinds + width relation"""
    if meta["kind"] != "bin":
        return f"py|{meta['op']}|{meta['ta'].kind}"
    ta, tb = meta["ta"], meta["tb"]
    rel = "int" if "int" in (ta.kind, tb.kind) else ("wa>wb" if ta.w > tb.w else ("wa<wb" if ta.w < tb.w else "wa=wb"))
    return f"py|{meta['op']}|{ta.kind}|{tb.kind}|{rel}"


def fold_cells(widths, rng, per_cell_values):
    """constant operands: the compiler folds the operation in Python and emits a literal"""
    cells = []
    tys = [t for t in vec_types(widths)]
    for name, (tmpl, trule, vrule, nz) in SP.BINOPS.items():
        if name in ("shl", "shr"):
            continue
        for ta, tb in itertools.product(tys, tys):
            tr = trule(ta, tb)
            if tr is None:
                continue
            vals = list(itertools.product(range(ta.lo(), ta.hi() + 1), range(tb.lo(), tb.hi() + 1)))
            if nz:
                vals = [v for v in vals if v[1] != 0]
            if len(vals) > per_cell_values:
                vals = rng.sample(vals, per_cell_values)
            for a, b in vals:
                ea = _const_src(ta, a)
                eb = _const_src(tb, b)
                want = vrule(PyP, a, b, ta, tb, tr)
                want = (1 if want else 0) if isinstance(want, bool) else want
                cells.append(Cell(key=f"fold|{name}|{ta}={a}|{tb}={b}", ins=[], out=_out_ty(tr),
                                  body="{o} <<= " + tmpl.format(a=ea, b=eb), spec=lambda P, want=want: P.const(want)))
    return cells


def _const_src(t: Ty, m):
    if t.kind == "U":
        return f"Unsigned[{t.w}]({m})"
    if t.kind == "S":
        return f"Signed[{t.w}]({m})"
    return f"BitVector[{t.w}]('{pyside._bits_str(m, t.w)}')"


def run(tier: str) -> int:
    rep = Reporter("C09", tier, "translation_validation")
    widths = [1, 2] if tier == "quick" else [1, 2, 3]
    funcs = harness_functions(widths)
    meta = {f[0]: f[2] for f in funcs}
    per_cond = 120 if tier == "quick" else 600
    res, ch_cpu = chrun.run_functions([(f[0], f[1]) for f in funcs], PRELUDE, per_cond=per_cond, chunk=6)
    confirmed = 0
    for fn, (status, msg) in sorted(res.items()):
        m = meta[fn]
        rep.stats.queries += 1
        if status == "confirmed":
            confirmed += 1
            rep.stats.unsat += 1
            rep.stats.nontrivial.add(fn)
            continue
        if status == "counterexample":
            rep.stats.sat += 1
            args = _parse_args(msg, m['kind'])
            if args is None:
                rep.inconclusive_query(f"{fn}: unparsable counterexample {msg[:120]}")
                continue
            try:
                holds, desc = _native(m, args)
            except Exception as e:  # harness raised natively: not a verdict
                rep.inconclusive_query(f"{fn}: replay raised {type(e).__name__}: {e}")
                continue
            if holds:
                rep.inconclusive_query(f"{fn}: counterexample {args} does not reproduce natively")
                continue
            rep.violation(finding_key(m), f"compile-time (Python) result differs from documented/run-time value: {desc}",
                          {"function": fn, "args": args, "crosshair": msg, "description": desc})
        else:
            rep.stats.unknown += 1
            rep.inconclusive_query(f"{fn} ({m['op']} {m.get('ta')} {m.get('tb', '')}): {msg[:100]}")
    # (b) folding path through the whole compiler
    wd = Workdir()
    fold_counts = {}
    try:
        rng = random.Random(rep.seed)
        cells = fold_cells([1, 2] if tier == "quick" else [1, 2, 3], rng, 6 if tier == "quick" else 16)
        for k in range(0, len(cells), 60):
            for r in run_cells(rep, wd, cells[k:k + 60], "concurrent"):
                fold_counts[r.status] = fold_counts.get(r.status, 0) + 1
                if r.status == "mismatch":
                    op, ta, tb = r.cell.key.split("|")[1], r.cell.key.split("|")[2].split("=")[0], r.cell.key.split("|")[3].split("=")[0]
                    rep.violation(f"fold|{op}|{ta[0]}|{tb[0]}", f"folded constant differs from documented value: {r.cell.key} got {r.detail['got_bits']} want {r.detail['want_bits']}", r.detail)
                elif r.status == "rejected":
                    op, ta, tb = r.cell.key.split("|")[1], r.cell.key.split("|")[2].split("=")[0], r.cell.key.split("|")[3].split("=")[0]
                    rep.violation(f"fold-rejected|{op}|{ta[0]}|{tb[0]}", f"constant expression rejected although run-time logic is defined: {r.cell.key}: {r.detail}", {"detail": r.detail})
                elif r.status == "illegal":
                    rep.violation(f"fold-illegal|{r.cell.key}", f"illegal VHDL: {r.detail['msg']}", r.detail)
                elif r.status in ("inconclusive", "error"):
                    rep.inconclusive_query(f"{r.cell.key}: {r.detail}")
                else:
                    rep.stats.nontrivial.add(r.cell.key)
    finally:
        wd.close()
    # (c) full-width integer kernels (division / remainder code paths that went through float64)
    from . import c09_kernels
    kern = c09_kernels.run_kernels(rep, tier)
    rep.stats.units |= {"cohdl._core._op.truncdiv/rem/floordiv/mod (int operands)", "Signed/Unsigned/Integer _cohdl_truncdiv_/_cohdl_rem_/__mod__ kernels incl. module-level helpers (AST -> QF_BVFP)"}
    rep.assumptions += ["kernels: operands in the 64-bit signed range (Unsigned: non-negative), divisor != 0; int / int = correctly rounded exact quotient (binary128 then binary64), int(float) truncates; "
                        "the role of a kernel (truncating quotient / remainder / floor quotient / modulus) is the one its function names, checked on 7 small operand pairs"]
    rep.stats.units |= {"cohdl._core._unsigned.Unsigned (add/sub/__mul__/__rmul__/_cohdl_truncdiv_/__mod__/_cohdl_rem_/shifts/compare)",
                        "cohdl._core._signed.Signed (same)", "cohdl._core._bit_vector.BitVector (and/or/xor/invert/concat/index/slice/views)",
                        "cohdl._core._bit.Bit", "backend format_literal (folding path)"}
    rep.assumptions += ["operand widths <= %d bits (CrossHair explores one path per operand valuation)" % max(widths),
                        "divisor != 0", "integer operands representable in the vector operand's type",
                        "agreement with the emitted logic follows from C02 proving the run-time side against the same spec functions"]
    return rep.finish({
        "programs": len(funcs) + rep.stats.programs,
        "disagreements_checked": len(rep.violations) + len(rep.known_hits),
        "crosshair_conditions": len(funcs),
        "crosshair_confirmed": confirmed,
        "crosshair_cpu_s": round(ch_cpu, 1),
        "fold_cells": fold_counts,
        "full_width_kernels": kern,
        "distinct_nontrivial": len(rep.stats.nontrivial),
        "evaluations": len(funcs) + sum(fold_counts.values()),
        "rule": "one CrossHair condition = one operator x operand-type pair x width pair, all operand values symbolic; one fold cell = one constant expression compiled through the whole pipeline",
        "samples": [{"condition": f[0], "source": f[1]} for f in funcs[:2]] + [{"fold_cell": c.key, "body": c.body} for c in cells[:2]],
        "bounds": {"widths": widths, "per_condition_timeout_s": per_cond},
    })
