"""C08 -- intermediate values are written before read within every activation.
(1) 2-safety (noninterference) query on every emitted process of the seqbody / coro / def-use
    families: outputs may not depend on the pre-activation contents of compiler temporaries.
(2) rejection direction: programs in which a Python-level intermediate is bound on some paths
    only and used afterwards must be rejected (the reference interpreter finds the unbound use)."""
from __future__ import annotations
import time
from ..core import Reporter, Workdir
from .. import gen_seq, gen_coro
from ..refseq import RefSeq
from ..refsem import RefProc
from ..seqcheck import noninterference, replay_stale
from .c01 import check_program, hash_body

DEFUSE = [
    # (key, body, expectation)   expectation: 'reject' | 'any'
    ("if-no-else", ["if self.c:", "    t = self.a | self.b", "self.o1 <<= t"], "reject"),
    ("if-nested", ["if self.c:", "    if self.d:", "        t = self.a | self.b", "self.o1 <<= t"], "reject"),
    ("elif-chain", ["if self.c:", "    t = self.a | self.b", "elif self.d:", "    pass", "else:", "    self.o2 <<= 1", "self.o1 <<= t"], "reject"),
    ("match-no-default", ["match self.sel:", '    case "00":', "        t = self.a | self.b", '    case "01":', "        pass", "self.o1 <<= t"], "reject"),
    ("match-no-default-all-arms-define", ["match self.sel:", '    case "00":', "        t = self.a | self.b", "self.o1 <<= t"], "reject"),
    ("match-default-missing-def", ["match self.sel:", '    case "00":', "        t = self.a | self.b", "    case _:", "        pass", "self.o1 <<= t"], "reject"),
    ("match-second-arm-only", ["match self.sel:", '    case "00":', "        pass", '    case "01":', "        t = self.a ^ self.b", "    case _:", "        pass", "self.o1 <<= t"], "reject"),
    ("for-break", ["for bit, val in zip([self.c, self.d], [self.a, self.b]):", "    if bit:", "        t = val + 1", "        break", "self.o1 <<= t"], "reject"),
    ("for-break-else-no-def", ["for bit, val in zip([self.c, self.d], [self.a, self.b]):", "    if bit:", "        t = val + 1", "        break", "else:", "    pass", "self.o1 <<= t"], "reject"),
    ("sibling-else-use", ["if self.c:", "    t = self.a | self.b", "    self.o2 <<= t", "else:", "    self.o1 <<= t"], "reject"),
    ("sibling-elif-use", ["if self.c:", "    t = self.a | self.b", "    self.o2 <<= t", "elif self.d:", "    self.o1 <<= t + 1"], "reject"),
    ("sibling-nested-else-use", ["if self.c:", "    t = self.a | self.b", "    self.o2 <<= t", "else:", "    if self.d:", "        self.o1 <<= t"], "reject"),
    ("sibling-match-arm-use", ["match self.sel:", '    case "00":', "        t = self.a | self.b", "        self.o2 <<= t", '    case "01":', "        self.o1 <<= t", "    case _:", "        pass"], "reject"),
    ("use-in-defining-branch", ["if self.c:", "    t = self.a | self.b", "    self.o1 <<= t"], "any"),
    ("def-before-branch", ["t = self.a | self.b", "if self.c:", "    self.o1 <<= t", "else:", "    self.o2 <<= t"], "any"),
    ("match-all-define-use-inside", ["match self.sel:", '    case "00":', "        t = self.a | self.b", "        self.o1 <<= t", "    case _:", "        u = self.a & self.b", "        self.o1 <<= u"], "any"),
    ("helper-value-partial", ["if self.c:", "    t = helper0(self.a, self.b, self.d)", "self.o2 <<= t"], "reject"),
]

# decided by the compile result and the 2-safety query only (constructs outside the reference interpreter)
NONINTERFERENCE_ONLY = [
    ("temp-slice-read", ["t = self.a ^ self.b", "self.ov[1:0] <<= t[1:0]", "self.ob <<= t[2]"]),
    ("temp-bit-read-in-branch", ["t = self.a + self.b", "if t[0]:", "    self.o1 <<= t"]),
    ("select-no-default", ['self.o1 <<= std.select[Unsigned[3]](self.sel, {"00": self.a, "01": self.b})']),
    ("select_with-no-default", ['self.o1 <<= select_with(self.sel, {"00": self.a, "11": self.b})']),
    ("select_with-default", ['self.o1 <<= select_with(self.sel, {"00": self.a, "11": self.b}, default=x)']),
    ("choose_first", ["self.o1 <<= std.choose_first[Unsigned[3]]((self.c, self.a), (self.d, self.b), default=x)"]),
]

# must be rejected; outside the reference interpreter, decided by the compile result (an accepted design is shown stale by the 2-safety query)
REJECT_COMPILE_ONLY = [
    # select_with without default must cover every value of the selector: 6 of 8 values of a 3 bit selector are not enough
    ("select_with-no-default-3bit-partial", ['self.o1 <<= select_with(self.a.bitvector, {"000": self.a, "001": self.b, "010": x, "011": self.a, "100": self.b, "101": x})']),
    ("select_with-no-default-3bit-unsigned-partial", ["self.o1 <<= select_with(self.a, {0: self.a, 1: self.b, 2: x, 3: self.a, 4: self.b, 5: x, 6: self.a})"]),
]
ACCEPT_COMPILE_ONLY = [
    ("select_with-no-default-3bit-complete", ['self.o1 <<= select_with(self.a.bitvector, {"000": self.a, "001": self.b, "010": x, "011": self.a, "100": self.b, "101": x, "110": self.a, "111": self.b})']),
]


def _edge_process(body_after_edge):
    """a process with its own clock-edge test: intermediates bound inside the edge-if must not be used after it (they are not
    assigned on activations without an edge)"""
    from ..seqcheck import SeqProgram
    p = gen_seq.render(["pass"], reset="none")
    head = p.source.split("        @std.sequential", 1)[0]
    src = head + "        @std.sequential\n        def proc():\n            nonlocal x, y\n            if cohdl.rising_edge(self.clk):\n                t = self.a + self.b\n" + \
        "".join("            " + ln + "\n" for ln in body_after_edge)
    return SeqProgram(source=src, objs=p.objs, proc="proc", reset=None, entity=p.entity, meta={"body": body_after_edge})


CORO_DEFUSE = [
    ("coro-cross-state", ["t = self.in0 & self.in1", "await self.in2", "self.trace <<= 1", "if t:", "    self.seen <<= 3"], "reject"),
    ("coro-same-state", ["await self.in2", "t = self.in0 & self.in1", "if t:", "    self.seen <<= 3"], "any"),
    # accepted or not is cohdl's choice here; if accepted the 2-safety query must hold (no state reads what another state computed)
    ("coro-await-dynamic-index", ["await self.trace[v]", "self.seen <<= 3"], "any"),
    ("coro-await-dynamic-index-later", ["self.trace <<= 5", "await self.in0", "v @= v + 1", "await self.trace[v]", "self.seen <<= 3"], "any"),
    ("coro-explicit-temporary-across-await", ["t = cohdl.Temporary[Unsigned[3]](cnt + 1, maybe_uninitialized=True)", "await self.in2", "self.seen <<= t"], "any"),
    ("coro-explicit-temporary-same-state", ["await self.in2", "t = cohdl.Temporary[Unsigned[3]](cnt + 1, maybe_uninitialized=True)", "self.seen <<= t"], "any"),
    ("coro-loop-temporary-continue", ["while True:", "    t = cnt + 1", "    await self.in0", "    if self.in1:", "        continue", "    self.seen <<= t"], "any"),
    ("coro-loop-temporary-break", ["while self.in2:", "    t = cnt + 1", "    await self.in0", "    if self.in1:", "        break", "    self.seen <<= t", "self.trace <<= 3"], "any"),
    ("coro-loop-temporary-after-loop", ["while self.in2:", "    t = cnt + 1", "    await self.in0", "self.seen <<= t"], "reject"),
    ("coro-branch-def-then-await", ["if self.in0:", "    t = self.in1 | self.in2", "    await self.in2", "    if t:", "        self.trace <<= 2"], "reject"),
]


def run(tier: str) -> int:
    rep = Reporter("C08", tier, "translation_validation")
    wd = Workdir()
    counts = {"stale-free": 0, "rejected": 0, "outside": 0}
    pairs_checked = 0
    try:
        jobs = []
        for key, body, exp in DEFUSE:
            jobs.append((key, gen_seq.render(body), RefSeq, exp))
        for key, body, exp in CORO_DEFUSE:
            jobs.append((key, _coro(body), None, exp))
        for key, body in NONINTERFERENCE_ONLY:
            jobs.append((key, gen_seq.render(body), None, "any"))
        for key, body in REJECT_COMPILE_ONLY:
            jobs.append((key, gen_seq.render(body), None, "reject"))
        for key, body in ACCEPT_COMPILE_ONLY:
            jobs.append((key, gen_seq.render(body), None, "any"))
        # select_with without default on an integer selector can never cover every value (design with an int port, compile result only)
        from ..seqcheck import SeqProgram
        p0 = gen_seq.render(["self.o1 <<= select_with(self.isel, {0: self.a, 1: self.b})"])
        src_int = p0.source.replace("    sel = Port.input(BitVector[2])", "    sel = Port.input(BitVector[2])\n    isel = Port.input(int)", 1)
        text_int, exc_int = None, None
        try:
            from ..core import try_compile, reset_cohdl_state
            mod = wd.load(src_int, "c08i")
            text_int, exc_int = try_compile(getattr(mod, p0.entity))
        except BaseException as e:
            if isinstance(e, (KeyboardInterrupt, SystemExit)):
                raise
            reset_cohdl_state()
        rep.stats.programs += 1
        if text_int is not None:
            rep.violation("accepted|select_with-no-default-int-selector", "select_with without default on an integer selector accepted: for selector values without a branch the result temporary keeps a stale value", {"source": src_int, "vhdl": text_int})
        else:
            counts["rejected"] += 1
        jobs.append(("edge-if-temporary-used-after", _edge_process(["self.o1 <<= t"]), None, "reject"))
        jobs.append(("edge-if-temporary-used-inside", _edge_process(["    self.o1 <<= t"]), None, "any"))
        n_seq = 60 if tier == "quick" else 1200
        n_coro = 80 if tier == "quick" else 800
        for p in gen_seq.programs(tier, rep.seed)[:n_seq]:
            jobs.append(("seq|" + hash_body(p), p, RefSeq, "any"))
        for p in gen_coro.programs(tier, rep.seed)[:n_coro]:
            jobs.append(("coro|" + hash_body(p), p, RefProc, "any"))
        budget = 170 if tier == "quick" else 2400
        t0 = time.time()
        done = 0
        for key, prog, ref_cls, exp in jobs:
            if time.time() - t0 > budget:
                break
            done += 1
            if ref_cls is None:
                # coroutine def/use shapes use python-level temporaries that R (coroutines) does not model:
                # decided by the compile result and the 2-safety query only
                r = _compile_only(rep, wd, prog)
            else:
                r = check_program(rep, wd, prog, 4, ref_cls=ref_cls)
            s = r["status"]
            if s == "rejected":
                counts["rejected"] += 1
                continue
            if s == "illegal":
                rep.violation(f"illegal|{key}", f"emitted VHDL illegal: {r['why']}", {"source": prog.source, "vhdl": r.get("vhdl")})
                continue
            if exp == "reject" or s == "must-reject":
                why = r.get("why", "intermediate defined on some paths only and used afterwards")
                # accepted although it must be rejected: show the consequence with the 2-safety query
                bad = noninterference(rep.stats, prog, r["lib"], r["vm"], _pairs(r)) if "lib" in r else []
                detail = {"source": prog.source, "vhdl": r.get("vhdl") or r.get("text"), "why": why, "stale": [b for b in bad if b["kind"] == "stale"][:1]}
                rep.violation(f"accepted|{key.split('|')[0] if exp == 'reject' else 'generated'}|{key}", f"program accepted although an intermediate is used that is not defined on every path ({why})", detail)
                continue
            if s in ("outside", "inconclusive"):
                counts["outside"] += 1
                if s == "inconclusive":
                    rep.inconclusive_query(f"{key}: {r['why']}")
                continue
            if "lib" not in r:
                continue
            prs = _pairs(r)
            bad = noninterference(rep.stats, prog, r["lib"], r["vm"], prs)
            pairs_checked += len(prs)
            ok = True
            for b in bad:
                if b["kind"] == "inconclusive":
                    rep.inconclusive_query(f"{key}: {b}")
                    continue
                differs, runs = replay_stale(prog, r["lib"], r["vm"], b)
                if not differs:
                    rep.inconclusive_query(f"{key}: stale dependence {b['stale_contents']} does not reproduce concretely")
                    continue
                ok = False
                rep.violation(f"stale|{key}", f"an output depends on a value left over from an earlier activation: stale {b['stale_contents']} -> {runs}",
                              {"source": prog.source, "vhdl": r.get("text"), "finding": b, "runs": runs})
            if ok:
                counts["stale-free"] += 1
                rep.stats.nontrivial.add(r.get("hash", key))
                if len(rep.stats.samples) < 3:
                    rep.stats.sample({"program": key, "pairs": [list(p) for p in prs][:6], "verdict": "unsat: no declared object depends on stale temporaries"})
        rep.stats.units |= {"cohdl._compiler.frontend._generate_ir.ConvertInstance.detect_uninitialized_temporaries", "cohdl._core._ir._repr.StatemachineContext._check_temporaries",
                            "cleanup_unused / cleanup_bool_cast"}
        rep.assumptions += ["stale contents = arbitrary pre-activation values of every variable/signal of the emitted process that is not a declared object",
                            "families: def/use shapes (if, match +- default, for-break, nested, coroutine states) + seqbody + coro programs"]
        return rep.finish({
            "programs": done, "program_results": counts, "control_pairs_checked": pairs_checked,
            "disagreements_checked": len(rep.violations) + len(rep.known_hits),
            "distinct_nontrivial": len(rep.stats.nontrivial), "evaluations": done,
            "rule": "one program; non-trivial = accepted, 2-safety query discharged for each of its control states",
            "samples": rep.stats.samples or [{"defuse": DEFUSE[0][1]}],
        }, max_inconclusive=1)
    finally:
        wd.close()


def _pairs(r):
    if "pairs" in r and r["pairs"]:
        return r["pairs"]
    vm = r["vm"]
    return [("?", k) for k in range(vm.nstates)]


def _coro(body):
    from ..seqcheck import SeqProgram
    p = gen_coro.render([gen_coro.mark()])
    head, _ = p.source.split("            nonlocal cnt, v\n", 1)
    src = head + "            nonlocal cnt, v\n" + "".join("            " + ln + "\n" for ln in body)
    return SeqProgram(source=src, objs=p.objs, proc="proc", reset="reset", entity="Coro", meta={"body": body})


def _compile_only(rep, wd, prog):
    from ..core import try_compile, reset_cohdl_state, text_hash
    from .. import vhdl_sim as VS
    from ..vhdl_parse import Illegal
    from ..seqcheck import VModel
    try:
        mod = wd.load(prog.source, "c08")
        text, exc = try_compile(getattr(mod, prog.entity))
    except BaseException as e:
        if isinstance(e, (KeyboardInterrupt, SystemExit)):
            raise
        reset_cohdl_state()
        text, exc = None, e
    rep.stats.programs += 1
    if text is None:
        return {"status": "rejected", "why": str(exc)[:200]}
    try:
        lib = VS.Library(text)
        vm = VModel(prog, lib)
    except Illegal as e:
        return {"status": "illegal", "why": str(e), "vhdl": text}
    return {"status": "closed", "lib": lib, "vm": vm, "text": text, "hash": text_hash(text), "pairs": []}
