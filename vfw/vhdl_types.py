"""Types and values of the VHDL subset."""
from __future__ import annotations
from dataclasses import dataclass
import z3
from . import dom as D


@dataclass(frozen=True)
class TStd:
    def __str__(self):
        return "std_logic"


@dataclass(frozen=True)
class TBool:
    def __str__(self):
        return "boolean"


@dataclass(frozen=True)
class TInt:
    def __str__(self):
        return "integer"


@dataclass(frozen=True)
class TStr:
    """string literal whose vector type is fixed by context"""
    n: int

    def __str__(self):
        return f"<string literal of length {self.n}>"


@dataclass(frozen=True)
class TVec:
    kind: str  # slv unsigned signed
    left: int
    right: int
    downto: bool = True

    @property
    def width(self):
        return (self.left - self.right + 1) if self.downto else (self.right - self.left + 1)

    def pos(self, idx: int):
        """element index -> bit position (0 = rightmost element = LSB)"""
        return idx - self.right if self.downto else self.right - idx

    def in_range(self, idx: int):
        lo, hi = (self.right, self.left) if self.downto else (self.left, self.right)
        return lo <= idx <= hi

    def __str__(self):
        n = {"slv": "std_logic_vector", "unsigned": "unsigned", "signed": "signed"}[self.kind]
        return f"{n}({self.left} {'downto' if self.downto else 'to'} {self.right})"


@dataclass(frozen=True)
class TEnum:
    name: str
    lits: tuple

    @property
    def width(self):
        return max(1, (len(self.lits) - 1).bit_length())

    def __str__(self):
        return self.name


@dataclass(frozen=True)
class TArr:
    name: str
    lo: int
    hi: int
    elem: object

    @property
    def count(self):
        return self.hi - self.lo + 1

    def __str__(self):
        return self.name


STD, BOOL, INT = TStd(), TBool(), TInt()
INT_W = 32


def norm_vec(kind, w):
    return TVec(kind, w - 1, 0, True)


class V:
    """typed value; x = payload (int / z3 / list of V for arrays / bool for boolean)"""
    __slots__ = ("t", "x", "static")

    def __init__(self, t, x, static=False):
        self.t = t
        self.x = x
        self.static = static  # locally static (literal / constant expression)

    def __repr__(self):
        return f"V({self.t}, {self.x})"


def width_of(t):
    if isinstance(t, TStd):
        return 1
    if isinstance(t, TVec):
        return t.width
    if isinstance(t, TEnum):
        return t.width
    if isinstance(t, TInt):
        return INT_W
    raise TypeError(t)


def fresh(t, name):
    """fresh symbolic value of type t; returns (V, constraints)"""
    if isinstance(t, TBool):
        return V(t, z3.Bool(name)), []
    if isinstance(t, TArr):
        elems, cons = [], []
        for i in range(t.count):
            v, c = fresh(t.elem, f"{name}[{i}]")
            elems.append(v)
            cons += c
        return V(t, elems), cons
    w = width_of(t)
    x = z3.BitVec(name, w)
    cons = []
    if isinstance(t, TEnum) and len(t.lits) != (1 << w):
        cons.append(z3.ULT(x, z3.BitVecVal(len(t.lits), w)))
    return V(t, x), cons


def default_value(t):
    """two-valued stand-in for the VHDL default initial value (T'left): callers that want
    'arbitrary' uninitialised contents use fresh() instead"""
    if isinstance(t, TBool):
        return V(t, False)
    if isinstance(t, TArr):
        return V(t, [default_value(t.elem) for _ in range(t.count)])
    return V(t, 0)


def v_ite(c, a: V, b: V) -> V:
    assert type(a.t) is type(b.t), (a.t, b.t)
    t = a.t
    if isinstance(t, TBool):
        return V(t, D.b_ite(c, a.x, b.x))
    if isinstance(t, TArr):
        return V(t, [v_ite(c, x, y) for x, y in zip(a.x, b.x)])
    return V(t, D.v_ite(c, a.x, b.x, width_of(t)))


def v_eq(a: V, b: V):
    t = a.t
    if isinstance(t, TBool):
        return D.b_eq(a.x, b.x)
    if isinstance(t, TArr):
        r = True
        for x, y in zip(a.x, b.x):
            r = D.b_and(r, v_eq(x, y))
        return r
    return D.v_eq(a.x, b.x, width_of(t))


def is_concrete(v: V):
    if isinstance(v.t, TArr):
        return all(is_concrete(e) for e in v.x)
    return D.is_c(v.x)


def to_py(v: V):
    """concrete value -> plain python (ints / bools / lists)"""
    if isinstance(v.t, TArr):
        return [to_py(e) for e in v.x]
    return v.x


def eval_model(model, v: V):
    """evaluate a (possibly symbolic) value under a z3 model -> python"""
    if isinstance(v.t, TArr):
        return [eval_model(model, e) for e in v.x]
    if D.is_c(v.x):
        return v.x
    r = model.eval(v.x, model_completion=True)
    if z3.is_bool(r):
        return z3.is_true(r)
    return r.as_long()
