"""C05 -- type conversions on assignment preserve the value or are rejected.
Matrix: ordered (source type, target type) pairs x assignment forms.  Oracle = the statement
(spec.conv_assign): must-accept cells are proved value-preserving for all source values (z3);
must-reject cells have to be rejected at compile time."""
from __future__ import annotations
import itertools

from ..core import Reporter, Workdir
from ..cells import Cell, run_cells, port_type_src
from ..spec import Ty, U, S, BV, BIT, BOOL, PyP
from .. import spec as SP


def types(widths):
    out = [BIT, BOOL]
    for w in widths:
        out += [BV(w), U(w), S(w)]
    return out


def src_expr(ts: Ty):
    """(inputs, python expression, math-of-source function)"""
    if ts.kind == "bool":
        return [("a", BIT)], "(not {a})", lambda P, a: 1 - a
    return [("a", ts)], "{a}", lambda P, a: a


FORMS = {
    # name: (context, body template using {src}, local decl template or "", needs default)
    "next-op": ("concurrent", "{o} <<= {src}", ""),
    "next-op-clocked": ("clocked", "{o} <<= {src}", ""),
    "next-attr": ("clocked", "{o}.next = {src}", ""),
    "push-op": ("clocked", "{o} ^= {src}", ""),
    "push-attr": ("clocked", "{o}.push = {src}", ""),
    "value-op": ("clocked", "c05v{cellno} @= {src}\n{o} <<= c05v{cellno}", "c05v{cellno} = Variable[{T}](name='c05v{cellno}')"),
    "value-attr": ("clocked", "c05v{cellno}.value = {src}\n{o} <<= c05v{cellno}", "c05v{cellno} = Variable[{T}](name='c05v{cellno}')"),
    "init-signal": ("clocked", "c05s{cellno} = Signal[{T}]({src})\n{o} <<= c05s{cellno}", ""),
    "init-variable": ("clocked", "c05w{cellno} = Variable[{T}]({src})\n{o} <<= c05w{cellno}", ""),
    # arrays: element-wise initial values and element targets follow the element type's rules
    "array-init": ("clocked", "c05a{cellno} = Variable[Array[{T}, 2]]([{src}, {src}])\n{o} <<= c05a{cellno}[1]", ""),
    "array-elem-value": ("clocked", "c05e{cellno}[1] @= {src}\n{o} <<= c05e{cellno}[1]", "c05e{cellno} = Variable[Array[{T}, 2]](name='c05e{cellno}')"),
    "array-elem-next": ("clocked2", "c05g{cellno}[0] <<= {src}\n{o} <<= c05g{cellno}[0]", "c05g{cellno} = Signal[Array[{T}, 2]](name='c05g{cellno}')"),
    "array-init-tuple": ("clocked", "c05b{cellno} = Variable[Array[{T}, 2]](({src}, {src}))\n{o} <<= c05b{cellno}[0]", ""),
    # delayed_init: the initialisation behaves like a signal assignment (value visible one clock later)
    "init-signal-delayed": ("clocked2", "c05d{cellno} = Signal[{T}]({src}, delayed_init=True)\n{o} <<= c05d{cellno}", ""),
}


def pair_cells(widths, forms):
    accept, reject = [], []
    for ts, tt in itertools.product(types(widths), types(widths)):
        if tt.kind == "bool":
            continue  # bool targets do not exist as ports/signals of their own in this family
        conv = SP.conv_assign(ts, tt)
        if conv == "outside":
            continue
        ins, sx, smath = src_expr(ts)
        for fname in forms:
            ctx, body, local = FORMS[fname]
            T = port_type_src(tt)
            b = body.replace("{src}", sx).replace("{T}", T)
            loc = local.replace("{T}", T)
            key = f"{fname}|{ts}->{tt}"
            extra = dict(local=loc, out_default="Null" if fname.startswith("push") else "",
                         nonlocals=("c05v{cellno}",) if fname.startswith("value") else (("c05e{cellno}",) if fname == "array-elem-value" else ()))
            if conv is None:
                reject.append((ctx, Cell(key, ins, tt, b, lambda P, a: a, **extra)))
            else:
                spec = (lambda P, a, conv=conv, smath=smath: conv(P, smath(P, a)))
                accept.append((ctx, Cell(key, ins, tt, b, spec, range_check=tt.kind in ("U", "S") and ts.kind in ("U", "S"), **extra)))
    return accept, reject


def literal_cells(widths):
    accept, reject = [], []
    for w in widths:
        for tt in (U(w), S(w), BV(w)):
            T = port_type_src(tt)
            for fill, val in (("Null", 0), ("Full", (1 << w) - 1)):
                want = val if tt.kind != "S" else PyP.wrap(val, w, True)
                accept.append(("concurrent", Cell(f"fill|{fill}->{tt}", [], tt, f"{{o}} <<= {fill}", lambda P, want=want: P.const(want))))
                accept.append(("clocked", Cell(f"fill-init|{fill}->{tt}", [], tt, f"c05f{{cellno}} = Signal[{T}]({fill})\n{{o}} <<= c05f{{cellno}}", lambda P, want=want: P.const(want))))
            if tt.kind in ("U", "S"):
                lo, hi = tt.lo(), tt.hi()
                for k in sorted({lo, hi, 0, lo - 1, hi + 1, -1, 1 << w}):
                    cell = Cell(f"int|{k}->{tt}", [], tt, f"{{o}} <<= {k}", lambda P, k=k: P.const(k))
                    (accept if lo <= k <= hi else reject).append(("concurrent", cell))
                    cell2 = Cell(f"int-value|{k}->{tt}", [], tt, f"c05i{{cellno}} @= {k}\n{{o}} <<= c05i{{cellno}}", lambda P, k=k: P.const(k),
                                 local=f"c05i{{cellno}} = Variable[{T}](name='c05i{{cellno}}')", nonlocals=("c05i{cellno}",))
                    (accept if lo <= k <= hi else reject).append(("clocked", cell2))
            if tt.kind == "BV":
                for s in ("1" * w, "0" * w, "10" * w, "1" * (w + 1), "1" * (w - 1) if w > 1 else "11"):
                    ok = len(s) == w
                    cell = Cell(f"str|{s}->{tt}", [], tt, f'{{o}} <<= "{s}"', lambda P, s=s: P.const(int(s, 2)))
                    (accept if ok else reject).append(("concurrent", cell))
    for fill, val in (("Null", 0), ("Full", 1)):
        accept.append(("concurrent", Cell(f"fill|{fill}->Bit", [], BIT, f"{{o}} <<= {fill}", lambda P, val=val: P.const(val))))
    for lit, val in (("True", 1), ("False", 0)):
        accept.append(("concurrent", Cell(f"boollit|{lit}->Bit", [], BIT, f"{{o}} <<= {lit}", lambda P, val=val: P.const(val))))
    return accept, reject


def part_cells(widths):
    """slice and element targets: a slice of any vector takes equal-width vectors (bit copy), a bit takes Bit/bool"""
    accept, reject = [], []
    W = 4
    for tk in ("BV", "U", "S"):
        tt = Ty(tk, W)
        for ts in types(widths):
            ins, sx, smath = src_expr(ts)
            # slice [2:1] (width 2)
            if ts.kind in ("BV", "U", "S"):
                cell = Cell(f"slice-target|{ts}->{tt}[2:1]", ins + [("z", tt)], tt, "{o} <<= {z}\n{o}[2:1] <<= " + sx,
                            lambda P, a, z, ts=ts, tt=tt: SP._from_bits(P, _set(P, SP._bits(P, z, tt), 2, 1, SP._bits(P, a, ts), W), tt))
                if ts.w == 2 and ts.kind == "BV":
                    accept.append(("clocked", cell))
                elif ts.w != 2:
                    reject.append(("clocked", cell))
                # equal-width U/S into a slice: statement silent about slices of typed vectors -> outside
            else:
                cell = Cell(f"slice-target|{ts}->{tt}[2:1]", ins + [("z", tt)], tt, "{o} <<= {z}\n{o}[2:1] <<= " + sx, lambda P, a, z: z)
                reject.append(("clocked", cell))
            # element [3]
            if ts.kind in ("Bit", "bool"):
                cell = Cell(f"bit-target|{ts}->{tt}[3]", ins + [("z", tt)], tt, "{o} <<= {z}\n{o}[3] <<= " + sx,
                            lambda P, a, z, smath=smath, tt=tt: SP._from_bits(P, _set(P, SP._bits(P, z, tt), 3, 3, smath(P, a), W), tt))
                accept.append(("clocked", cell))
            else:
                cell = Cell(f"bit-target|{ts}->{tt}[3]", ins + [("z", tt)], tt, "{o} <<= {z}\n{o}[3] <<= " + sx, lambda P, a, z: z)
                reject.append(("clocked", cell))
    return accept, reject


def _set(P, bits, hi, lo, val, w):
    mask = ((1 << (hi - lo + 1)) - 1) << lo
    keep = ((1 << w) - 1) & ~mask
    return P.bor(P.band(bits, P.const(keep)), P.shl(P.band(val, P.const((1 << (hi - lo + 1)) - 1)), lo))


def merge_cells(widths):
    """if-expression and function-return merges: accepted => the selected operand's NUMBER is preserved"""
    cs = []
    for ts, tt in itertools.product(types(widths), types(widths)):
        if tt.kind in ("bool", "Bit") or ts.kind in ("bool", "Bit") or ts == tt:
            continue
        for form, body, setup in (
            ("ifexpr-merge", "{o} <<= {a} if {c} else {b}", ""),
            ("return-merge", "{o} <<= c05_pick({a}, {b}, {c})", "def c05_pick(x, y, c):\n    if c:\n        return x\n    return y\n"),
        ):
            def spec(P, a, b, c, ts=ts, tt=tt):
                # numbers for U/S, bit patterns for BitVector targets
                if tt.kind == "BV":
                    return P.ite(c != 0, SP._bits(P, a, ts), b)
                av = a if ts.kind in ("U", "S") else SP._from_bits(P, a, tt)
                return P.ite(c != 0, av, b)
            cs.append(("clocked", Cell(f"{form}|{ts}|{tt}", [("a", ts), ("b", tt), ("c", BIT)], tt, body, spec, setup=setup, range_check=tt.kind != "BV")))
    return cs


VIEW = {"signed": "S", "unsigned": "U", "bitvector": "BV"}


def view_cells(widths):
    """explicit views: `x.signed / x.unsigned / x.bitvector` as assignment target (the view's type decides which
    sources are accepted and how they are extended; the root object receives the bits) and as source"""
    accept, reject = [], []
    W = max(widths)
    for rk in ("BV", "U", "S"):
        root = Ty(rk, W)
        T = port_type_src(root)
        for vname, vk in VIEW.items():
            if vk == rk:
                continue
            tv = Ty(vk, W)
            for ts in types(widths):
                conv = SP.conv_assign(ts, tv)
                if conv == "outside":
                    continue
                ins, sx, smath = src_expr(ts)
                forms = (("view-next", "concurrent", f"{{o}}.{vname} <<= {sx}", "", ()),
                         ("view-next-clocked", "clocked", f"{{o}}.{vname} <<= {sx}", "", ()),
                         ("view-push", "clocked", f"{{o}}.{vname} ^= {sx}", "", ()),
                         ("view-value", "clocked", f"c05x{{cellno}}.{vname} @= {sx}\n{{o}} <<= c05x{{cellno}}", f"c05x{{cellno}} = Variable[{T}](name='c05x{{cellno}}')", ("c05x{cellno}",)))
                for fname, ctx, body, local, nl in forms:
                    key = f"{fname}|{ts}->{root}.{vname}"
                    extra = dict(local=local, nonlocals=nl, out_default="Null" if fname == "view-push" else "")
                    if conv is None:
                        reject.append((ctx, Cell(key, ins, root, body, lambda P, a: a, **extra)))
                    else:
                        spec = lambda P, a, conv=conv, smath=smath, tv=tv, root=root: SP._from_bits(P, SP._bits(P, conv(P, smath(P, a)), tv), root)
                        accept.append((ctx, Cell(key, ins, root, body, spec, **extra)))
            # slice of the root viewed: {o}[W-1:1].view  (width W-1)
            if W >= 3:
                tvs = Ty(vk, W - 1)
                for ts in types(widths):
                    conv = SP.conv_assign(ts, tvs)
                    if conv == "outside" or ts.kind in ("Bit", "bool"):
                        continue
                    ins, sx, smath = src_expr(ts)
                    key = f"view-slice|{ts}->{root}[{W - 1}:1].{vname}"
                    body = f"{{o}} <<= {{z}}\n{{o}}[{W - 1}:1].{vname} <<= {sx}"
                    if conv is None:
                        reject.append(("clocked", Cell(key, ins + [("z", root)], root, body, lambda P, a, z: z)))
                    else:
                        spec = lambda P, a, z, conv=conv, tvs=tvs, root=root: SP._from_bits(P, _set(P, SP._bits(P, z, root), W - 1, 1, SP._bits(P, conv(P, a), tvs), W), root)
                        accept.append(("clocked", Cell(key, ins + [("z", root)], root, body, spec)))
    # views as sources: the view's type is the source type
    for sk in ("BV", "U", "S"):
        for ws in widths:
            ts = Ty(sk, ws)
            for vname, vk in VIEW.items():
                if vk == sk:
                    continue
                tsv = Ty(vk, ws)
                for tt in types(widths):
                    if tt.kind == "bool":
                        continue
                    conv = SP.conv_assign(tsv, tt)
                    if conv == "outside":
                        continue
                    key = f"view-source|{ts}.{vname}->{tt}"
                    body = f"{{o}} <<= {{a}}.{vname}"
                    if conv is None:
                        reject.append(("concurrent", Cell(key, [("a", ts)], tt, body, lambda P, a: a)))
                    else:
                        spec = lambda P, a, conv=conv, ts=ts, tsv=tsv: conv(P, SP._from_bits(P, SP._bits(P, a, ts), tsv))
                        accept.append(("concurrent", Cell(key, [("a", ts)], tt, body, spec, range_check=tt.kind in ("U", "S"))))
    return accept, reject


def literal_form_cells(widths):
    """integer literals in every place a literal can stand for a typed value: must be representable in the type that
    receives them.  Forms where the receiving type is the output's: constructor, initial values, port default.
    Merges with a typed operand: rejected, or the chosen operand's number arrives (judged like merge_cells)."""
    accept, reject, merges = [], [], []
    for w in widths:
        for tt in (U(w), S(w)):
            T = port_type_src(tt)
            lo, hi = tt.lo(), tt.hi()
            for k in sorted({lo, hi, lo - 1, hi + 1, 1 << w, -(1 << w)}):
                ok = lo <= k <= hi
                forms = (
                    ("ctor", "concurrent", f"{{o}} <<= {T}({k})", ""),
                    ("init-signal-lit", "clocked", f"c05l{{cellno}} = Signal[{T}]({k})\n{{o}} <<= c05l{{cellno}}", ""),
                    ("init-variable-lit", "clocked", f"c05m{{cellno}} = Variable[{T}]({k})\n{{o}} <<= c05m{{cellno}}", ""),
                    ("init-outer-signal-lit", "concurrent", f"{{o}} <<= c05n{{cellno}}", f"c05n{{cellno}} = Signal[{T}]({k}, name='c05n{{cellno}}')"),
                    ("next-attr-lit", "clocked", f"{{o}}.next = {k}", ""),
                    ("push-lit", "clocked", f"{{o}} ^= {k}", ""),
                )
                for fname, ctx, body, local in forms:
                    cell = Cell(f"{fname}|{k}->{tt}", [], tt, body, lambda P, k=k: P.const(k), local=local, out_default="Null" if fname == "push-lit" else "")
                    (accept if ok else reject).append((ctx, cell))
                # the literal as one operand of a merge with an operand of the same type
                for form, body, setup in (
                    ("ifexpr-lit", f"{{o}} <<= {k} if {{c}} else {{b}}", ""),
                    ("ifexpr-lit-else", f"{{o}} <<= {{b}} if {{c}} else {k}", ""),
                    ("return-lit", f"{{o}} <<= c05_pick({k}, {{b}}, {{c}})", "def c05_pick(x, y, c):\n    if c:\n        return x\n    return y\n"),
                ):
                    pick_lit_when = 0 if form == "ifexpr-lit-else" else 1
                    spec = lambda P, b, c, k=k, pl=pick_lit_when: P.ite((c != 0) if pl else (c == 0), P.const(k), b)
                    merges.append(("clocked", Cell(f"{form}|{k}|{tt}", [("b", tt), ("c", BIT)], tt, body, spec, setup=setup, range_check=True)))
    # typed constants of a narrower (or equal) vector type in the same places: the number arrives (sign extension for negative Signed constants)
    from ..cells import literal_src
    for ts, tt in ((S(2), S(3)), (S(2), S(4)), (S(3), S(3)), (U(2), S(3)), (U(2), U(4)), (U(3), U(3))):
        T = port_type_src(tt)
        for k in sorted({ts.lo(), ts.hi(), 0, -1 if ts.signed else 1}):
            lit = literal_src(ts, k & ((1 << ts.w) - 1))
            forms = (
                ("typed-const-assign", "concurrent", f"{{o}} <<= {lit}", ""),
                ("typed-const-ctor", "concurrent", f"{{o}} <<= {T}({lit})", ""),
                ("typed-const-init-signal", "clocked", f"c05l{{cellno}} = Signal[{T}]({lit})\n{{o}} <<= c05l{{cellno}}", ""),
                ("typed-const-init-variable", "clocked", f"c05m{{cellno}} = Variable[{T}]({lit})\n{{o}} <<= c05m{{cellno}}", ""),
                ("typed-const-init-outer-signal", "concurrent", f"{{o}} <<= c05n{{cellno}}", f"c05n{{cellno}} = Signal[{T}]({lit}, name='c05n{{cellno}}')"),
                ("typed-const-next-attr", "clocked", f"{{o}}.next = {lit}", ""),
            )
            for fname, ctx, body, local in forms:
                accept.append((ctx, Cell(f"{fname}|{ts}={k}->{tt}", [], tt, body, lambda P, k=k: P.const(k), local=local)))
    # Null / Full as one operand of a merge: the fill applies to the TARGET's width, whatever the other operand's width
    for ws, wt in ((2, 3), (1, 3), (3, 3)):
        for kind in ("U", "S", "BV"):
            ts, tt = Ty(kind, ws), Ty(kind, wt)
            if kind == "BV" and ws != wt:
                continue
            for fill, bits in (("Full", (1 << wt) - 1), ("Null", 0)):
                fv = SP._from_bits(PyP, bits, tt)
                for form, body, setup in (
                    ("ifexpr-fill-else", f"{{o}} <<= {{a}} if {{c}} else {fill}", ""),
                    ("ifexpr-fill-first", f"{{o}} <<= {fill} if {{c}} else {{a}}", ""),
                    ("return-fill", f"{{o}} <<= c05_pickf({{a}}, {{c}})", f"def c05_pickf(x, c):\n    if c:\n        return x\n    return {fill}\n"),
                ):
                    first = form == "ifexpr-fill-first"
                    spec = lambda P, a, c, fv=fv, first=first, ts=ts, tt=tt: P.ite((c == 0) if not first else (c != 0), P.const(fv), (a if ts.kind != "BV" else a))
                    merges.append(("clocked", Cell(f"{form}|{fill}|{ts}|{tt}", [("a", ts), ("c", BIT)], tt, body, spec, setup=setup.replace("c05_pickf", f"c05_pickf_{fill}") if False else setup, range_check=tt.kind != "BV")))
    return accept, reject, merges


def array_whole_cells():
    """whole-array assignments: same element count and element type, or rejected"""
    accept, reject = [], []
    for (ns, ks, ws), (nt, kt, wt) in itertools.product(((2, "Unsigned", 2), (3, "Unsigned", 2), (1, "Unsigned", 2), (2, "Signed", 2), (2, "Unsigned", 3), (2, "BitVector", 2)), ((2, "Unsigned", 2), (3, "Unsigned", 2))):
        ok = (ns, ks, ws) == (nt, kt, wt)
        for form, assign in (("array-whole-next", "c05t{cellno} <<= c05s{cellno}"), ("array-whole-attr", "c05t{cellno}.next = c05s{cellno}")):
            body = f"c05s{{cellno}}[0] <<= {{a}}\n{assign}\n{{o}} <<= c05t{{cellno}}[0]"
            local = f"c05s{{cellno}} = Signal[Array[{ks}[{ws}], {ns}]](name='c05s{{cellno}}')\nc05t{{cellno}} = Signal[Array[{kt}[{wt}], {nt}]](name='c05t{{cellno}}')"
            cell = Cell(f"{form}|Array[{ks}[{ws}],{ns}]->Array[{kt}[{wt}],{nt}]", [("a", Ty({"Unsigned": "U", "Signed": "S", "BitVector": "BV"}[ks], ws))], Ty("U", wt), body, lambda P, a: a, local=local, nonlocals=("c05t{cellno}",))
            (accept if ok else reject).append(("clocked3", cell))
    return accept, reject


def merge3_cells(widths):
    """merges whose two operands have different types, assigned to a third type: every operand must on its own be
    assignable to the target (no laundering of Signed<->Unsigned through a BitVector operand of the merge)"""
    must_reject, free = [], []
    for w in widths:
        for ka, kb, kt in itertools.product(("BV", "U", "S"), repeat=3):
            if ka == kb:
                continue
            ta, tb, tt = Ty(ka, w), Ty(kb, w), Ty(kt, w)
            ca, cb = SP.conv_assign(ta, tt), SP.conv_assign(tb, tt)
            for form, body, setup in (
                ("ifexpr-merge3", "{o} <<= {a} if {c} else {b}", ""),
                ("return-merge3", "{o} <<= c05_pick3({a}, {b}, {c})", "def c05_pick3(x, y, c):\n    if c:\n        return x\n    return y\n"),
            ):
                if ca is None or cb is None:
                    cell = Cell(f"{form}|{ta}|{tb}|{tt}", [("a", ta), ("b", tb), ("c", BIT)], tt, body, lambda P, a, b, c: a, setup=setup)
                    must_reject.append(("clocked", cell))
                else:
                    spec = lambda P, a, b, c, ca=ca, cb=cb: P.ite(c != 0, ca(P, a), cb(P, b))
                    free.append(("clocked", Cell(f"{form}|{ta}|{tb}|{tt}", [("a", ta), ("b", tb), ("c", BIT)], tt, body, spec, setup=setup, range_check=tt.kind != "BV")))
    return must_reject, free


def run(tier: str) -> int:
    rep = Reporter("C05", tier, "translation_validation")
    wd = Workdir()
    counts = {"accept-ok": 0, "reject-ok": 0, "merge-ok": 0, "merge-rejected": 0}
    try:
        widths = [1, 2, 3] if tier == "quick" else [1, 2, 3, 4, 5, 6]
        forms = list(FORMS)
        acc, rej = pair_cells(widths, forms)
        a2, r2 = literal_cells(widths)
        a3, r3 = part_cells([2, 3])
        a4, r4 = view_cells([2, 3] if tier == "quick" else [2, 3, 4, 5])
        a5, r5, m5 = literal_form_cells(widths)
        a6, r6 = array_whole_cells()
        acc, rej = acc + a2 + a3 + a4 + a5 + a6, rej + r2 + r3 + r4 + r5 + r6
        r7, m7 = merge3_cells([2] if tier == "quick" else [2, 3])
        rej = rej + r7
        merges = merge_cells([2, 3]) + m5 + m7
        # must-accept cells in batches per context
        for ctx in ("concurrent", "clocked", "clocked2", "clocked3"):
            group = [c for cx, c in acc if cx == ctx]
            for k in range(0, len(group), 40):
                for res in run_cells(rep, wd, group[k:k + 40], ctx):
                    key = res.cell.key
                    form = key.split("|")[0]
                    if res.status == "ok":
                        counts["accept-ok"] += 1
                        rep.stats.nontrivial.add(key)
                        if len(rep.stats.samples) < 3 and "Unsigned[2]->Signed[3]" in key:
                            rep.stats.sample({"cell": key, "body": res.cell.body, "verdict": "accepted; unsat: target number == source number for all source values"})
                    elif res.status == "mismatch":
                        rep.violation(f"value|{_pairkey(key)}", f"{key}: conversion does not preserve the value: source {res.detail['inputs_math']} -> target bits {res.detail['got_bits']}, expected {res.detail['want_bits']}", res.detail)
                    elif res.status == "rejected":
                        rep.violation(f"rejected|{_pairkey(key)}", f"{key}: value-preserving conversion rejected: {res.detail}", {"detail": res.detail, "body": res.cell.body})
                    elif res.status == "illegal":
                        rep.violation(f"illegal|{_pairkey(key)}", f"{key}: emitted VHDL illegal: {res.detail['msg']}", res.detail)
                    elif res.status != "vacuous":
                        rep.inconclusive_query(f"{key}: {res.detail}")
        # must-reject cells one by one
        for ctx, cell in rej:
            res = run_cells(rep, wd, [cell], ctx)[0]
            key = cell.key
            if res.status == "rejected":
                counts["reject-ok"] += 1
                rep.stats.nontrivial.add(key)
            elif res.status in ("ok", "mismatch", "illegal", "vacuous"):
                d = res.detail if isinstance(res.detail, dict) else {}
                rep.violation(f"accepted|{_pairkey(key)}", f"{key}: assignment that must be rejected (narrowing / reinterpretation / width mismatch / Bit<->vector) was accepted" +
                              (f"; e.g. source {d.get('inputs_math')} became bits {d.get('got_bits')}" if d.get("inputs_math") is not None else ""), {"body": cell.body, **({k: v for k, v in d.items() if k != 'source'})})
            else:
                rep.inconclusive_query(f"{key}: {res.detail}")
        # merges: rejected or value preserving
        for ctx, cell in merges:
            res = run_cells(rep, wd, [cell], ctx)[0]
            key = cell.key
            if res.status == "rejected":
                counts["merge-rejected"] += 1
            elif res.status == "ok":
                counts["merge-ok"] += 1
                rep.stats.nontrivial.add(key)
            elif res.status == "mismatch":
                rep.violation(f"merge-value|{_pairkey(key)}", f"{key}: merge accepted but the selected operand's value is not preserved: {res.detail['inputs_math']} -> bits {res.detail['got_bits']}, expected {res.detail['want_bits']}", res.detail)
            elif res.status == "illegal":
                rep.violation(f"merge-illegal|{_pairkey(key)}", f"{key}: emitted VHDL illegal: {res.detail['msg']}", res.detail)
            elif res.status != "vacuous":
                rep.inconclusive_query(f"{key}: {res.detail}")
        rep.stats.units |= {"_unsigned/_signed/_bit_vector/_bit ._assign / __init__ (trial assignment)", "_type_qualifier _next/_value/_push setter replacements",
                            "backend format_cast / format_vhdl_cast", "_value_branch._try_join / _Redirect"}
        rep.assumptions += ["widths 1..%d; oracle = accept/reject matrix of the property statement (spec.conv_assign); vector truthiness (-> bool) and typed-vector slices are outside" % max(widths),
                            "port connections are exercised by C12"]
        return rep.finish({
            "programs": rep.stats.programs, "cells": len(acc) + len(rej) + len(merges), "cell_results": counts,
            "disagreements_checked": len(rep.violations) + len(rep.known_hits),
            "distinct_nontrivial": len(rep.stats.nontrivial), "evaluations": len(acc) + len(rej) + len(merges),
            "rule": "one cell = (source type, target type, assignment form); accepted cells proved value preserving for all source values, must-reject cells must fail to compile",
            "samples": rep.stats.samples or [{"cell": acc[0][1].key, "body": acc[0][1].body}],
        })
    finally:
        wd.close()


def _pairkey(key):
    parts = key.split("|")
    form = parts[0]
    rest = "|".join(parts[1:])
    import re
    kinds = re.sub(r"\[(\d+)\]", "", rest)
    ws = [int(x) for x in re.findall(r"\[(\d+)\]", rest)]
    rel = ""
    if len(ws) >= 2:
        rel = "w<" if ws[0] < ws[1] else ("w=" if ws[0] == ws[1] else "w>")
    return f"{form}|{kinds}|{rel}"
