"""C20 -- AXI4-Lite register maps decode, mask and hand-shake correctly.
BMC from power-up with a fully symbolic AXI-Lite master (per clock arbitrary valid/ready/address/
data/strobe on all five channels under the AXI master rules) and protocol + data monitors."""
from __future__ import annotations

from ..core import Reporter, Workdir
from .. import dom as D
from .. import vhdl_sim as VS
from ..vhdl_parse import Illegal
from ..bmc import Monitor, run_bmc, compile_design
from .c16 import mux, bit

AW = 8  # address width

PORTS = '''    clk = Port.input(Bit)
    reset = Port.input(Bit)
    axi_awaddr = Port.input(Unsigned[8])
    axi_awprot = Port.input(Unsigned[3])
    axi_awvalid = Port.input(Bit)
    axi_awready = Port.output(Bit, default=Null)
    axi_wdata = Port.input(BitVector[32])
    axi_wstrb = Port.input(BitVector[4])
    axi_wvalid = Port.input(Bit)
    axi_wready = Port.output(Bit, default=Null)
    axi_bresp = Port.output(BitVector[2], default=Null)
    axi_bvalid = Port.output(Bit, default=Null)
    axi_bready = Port.input(Bit)
    axi_araddr = Port.input(Unsigned[8])
    axi_arprot = Port.input(Unsigned[3])
    axi_arvalid = Port.input(Bit)
    axi_arready = Port.output(Bit, default=Null)
    axi_rdata = Port.output(BitVector[32], default=Null)
    axi_rresp = Port.output(BitVector[2], default=Null)
    axi_rvalid = Port.output(Bit, default=Null)
    axi_rready = Port.input(Bit)
'''
CONNECT = '''        clk = std.Clock(self.clk)
        reset = std.Reset(self.reset)
        axi_con = axi.Axi4Light(clk=clk, reset=reset,
            wraddr=axi.Axi4Light.WrAddr(valid=self.axi_awvalid, ready=self.axi_awready, awaddr=self.axi_awaddr, awprot=self.axi_awprot),
            wrdata=axi.Axi4Light.WrData(valid=self.axi_wvalid, ready=self.axi_wready, wdata=self.axi_wdata, wstrb=self.axi_wstrb),
            wrresp=axi.Axi4Light.WrResp(valid=self.axi_bvalid, ready=self.axi_bready, bresp=self.axi_bresp),
            rdaddr=axi.Axi4Light.RdAddr(valid=self.axi_arvalid, ready=self.axi_arready, araddr=self.axi_araddr, arprot=self.axi_arprot),
            rddata=axi.Axi4Light.RdData(valid=self.axi_rvalid, ready=self.axi_rready, rdata=self.axi_rdata, rresp=self.axi_rresp))
'''
HEADER = '''from __future__ import annotations
import cohdl
from cohdl import Port, Bit, BitVector, Unsigned, Null, Full
from cohdl import std
from cohdl.std.axi import axi4_light as axi
from cohdl.std.reg import reg32

'''

# register maps: (name, class source, root class, model description)
# model: word address -> kind;  kinds: 'upper16'  (MemField[31:16] + Field[15:0] = ~upper)   'memword' (MemWord, 32 bit, byte strobes)
MAPS = {
    "fields": ('''class MyRegister(reg32.Register):
    lower: reg32.Field[15:0]
    upper: reg32.MemField[31:16, Null]

    def _impl_concurrent_(self) -> None:
        self.lower <<= ~self.upper.val()


class MyRoot(reg32.AddrMap, word_count=4):
    reg_a: MyRegister[0]
    reg_b: MyRegister[8]
''', {0: "upper16", 2: "upper16"}),
    "memwords": ('''class MyRoot(reg32.AddrMap, word_count=4):
    w0: reg32.MemWord[0]
    w1: reg32.MemWord[4]
    w3: reg32.MemWord[12]
''', {0: "memword", 1: "memword", 3: "memword"}),
    "nested": ('''class Inner(reg32.RegFile, word_count=2):
    m: reg32.MemWord[4]


class MyRoot(reg32.AddrMap, word_count=8):
    a: reg32.MemWord[0]
    f: Inner[8]
    g: Inner[16]
''', {0: "memword", 3: "memword", 5: "memword"}),
    # fields that differ only in their reset value (template specialisations must not be shared)
    "resetvals": ('''class RegA(reg32.Register):
    thresh: reg32.MemUField[15:0, 0x1111]


class RegB(reg32.Register):
    thresh: reg32.MemUField[15:0, 0x2222]


class MyRoot(reg32.AddrMap, word_count=4):
    ra: RegA[0]
    rb: RegB[4]
''', {0: ("low16", 0x1111), 1: ("low16", 0x2222)}),
    # an address range whose size is not a power of two, directly followed by registers
    "window": ('''class MyRoot(reg32.AddrMap, word_count=8):
    mem: reg32.Memory[0x00:0x0C]
    ctrl: reg32.MemWord[0x0C]
    stat: reg32.MemWord[0x10]
''', {0: "ramword", 1: "ramword", 2: "ramword", 3: "memword", 4: "memword"}),
    # a power-of-two sized range at an offset that is not a multiple of its size, between two registers
    "unaligned_window": ('''class MyRoot(reg32.AddrMap, word_count=8):
    a: reg32.MemWord[0x00]
    mem: reg32.Memory[0x08:0x18]
    c: reg32.MemWord[0x1C]
''', {0: "memword", 2: "ramword", 3: "ramword", 4: "ramword", 5: "ramword", 7: "memword"}),
    # memory whose byte lanes are written individually
    "split_words": ('''class MyRoot(reg32.AddrMap, word_count=4):
    mem: reg32.Memory[0x00:0x08]
    c: reg32.MemWord[0x08]

    def _config_(self):
        self.mem._config_(mask_mode=reg32.Memory.MaskMode.SPLIT_WORDS)
''', {0: "ramword", 1: "ramword", 2: "memword"}),
    # two levels of RegFile nesting at non-zero offsets (global offset = sum of all enclosing offsets)
    "nested2": ('''class Inner2(reg32.RegFile, word_count=2):
    m: reg32.MemWord[4]


class Outer(reg32.RegFile, word_count=8):
    x: reg32.MemWord[0]
    inner: Inner2[16]


class MyRoot(reg32.AddrMap, word_count=32):
    a: reg32.MemWord[0]
    o: Outer[64]
''', {0: "memword", 16: "memword", 21: "memword"}),
}


# maps whose documented precondition is that the master only uses word-aligned addresses
ALIGNED_ONLY = {"split_words"}


def design(map_name):
    cls_src, _ = MAPS[map_name]
    return HEADER + cls_src + "\n\nclass W(cohdl.Entity):\n" + PORTS + "\n    def architecture(self):\n" + CONNECT + "        axi_con.connect_addr_map(MyRoot())\n"


INPUTS = {"reset": 1, "axi_awaddr": AW, "axi_awprot": 3, "axi_awvalid": 1, "axi_wdata": 32, "axi_wstrb": 4, "axi_wvalid": 1, "axi_bready": 1,
          "axi_araddr": AW, "axi_arprot": 3, "axi_arvalid": 1, "axi_rready": 1}
OUTPUTS = ["axi_awready", "axi_wready", "axi_bresp", "axi_bvalid", "axi_arready", "axi_rdata", "axi_rresp", "axi_rvalid"]


def merge_bytes(old, new, strb, lo_byte, nbytes):
    """per byte: strobed -> new, else old;  old/new payloads of width 8*nbytes taken from bytes lo_byte.."""
    W = 8 * nbytes
    res = old
    for k in range(nbytes):
        sel = D.v_eq(D.v_extract(strb, lo_byte + k, lo_byte + k, 4), 1, 1)
        nb = D.v_extract(new, 8 * k + 7, 8 * k, W)
        ob = D.v_extract(res, 8 * k + 7, 8 * k, W)
        res = D.v_set_slice(res, 8 * k + 7, 8 * k, D.v_ite(sel, nb, ob, 8), W)
    return res


class AxiMonitor(Monitor):
    def __init__(self, model, no_reset=False, aligned=False):
        super().__init__()
        self.aligned = aligned
        self.model = model  # word address -> kind
        self.regs = {a: (k[1] if isinstance(k, tuple) else 0) for a, k in model.items()}  # upper16 / low16: 16 bit payload; memword: 32 bit payload
        self.prev_out = {n: 0 for n in OUTPUTS}
        self.prev_in = None
        # write side
        self.aw_l, self.w_l = False, False
        self.aw_addr, self.w_data, self.w_strb = 0, 0, 0
        self.b_pending = False  # response owed / being presented
        # read side
        self.r_pending = False
        self.r_data, self.r_mapped = 0, False
        # memory words ("ramword") have no reset and no initial value: a byte is checked once it has been written
        self.known = {a: 0 for a, k in model.items() if k == "ramword"}
        self.r_known = 15
        self.no_reset = no_reset

    def word(self, addr):
        return D.v_extract(addr, AW - 1, 2, AW)

    def step(self, i, ins, outs):
        po = self.prev_out
        rst = bit(ins["reset"])
        if self.aligned:
            self.assume(D.b_implies(bit(ins["axi_awvalid"]), D.v_eq(D.v_extract(ins["axi_awaddr"], 1, 0, AW), 0, 2)))
            self.assume(D.b_implies(bit(ins["axi_arvalid"]), D.v_eq(D.v_extract(ins["axi_araddr"], 1, 0, AW), 0, 2)))
        if self.no_reset:
            self.assume(D.b_not(rst))
        # ---------------- master rules: valid held and payload stable until the handshake
        if self.prev_in is not None:
            pi = self.prev_in
            for ch, v, r, payload in (("aw", "axi_awvalid", "axi_awready", ["axi_awaddr", "axi_awprot"]), ("w", "axi_wvalid", "axi_wready", ["axi_wdata", "axi_wstrb"]),
                                      ("ar", "axi_arvalid", "axi_arready", ["axi_araddr", "axi_arprot"])):
                stalled = D.b_and(bit(pi[v]), D.b_not(self.pprev_ready[r]))
                stalled = D.b_and(stalled, D.b_and(D.b_not(bit(pi["reset"])), D.b_not(rst)))
                self.assume(D.b_implies(stalled, bit(ins[v])))
                for p in payload:
                    self.assume(D.b_implies(stalled, D.v_eq(ins[p], pi[p], INPUTS[p])))
        # handshakes at this edge: master value at this edge, slave value before this edge
        hs_aw = D.b_and(bit(ins["axi_awvalid"]), bit(po["axi_awready"]))
        hs_w = D.b_and(bit(ins["axi_wvalid"]), bit(po["axi_wready"]))
        hs_ar = D.b_and(bit(ins["axi_arvalid"]), bit(po["axi_arready"]))
        hs_b = D.b_and(bit(ins["axi_bready"]), bit(po["axi_bvalid"]))
        hs_r = D.b_and(bit(ins["axi_rready"]), bit(po["axi_rvalid"]))
        nr = D.b_not(rst)
        hs_aw, hs_w, hs_ar, hs_b, hs_r = (D.b_and(x, nr) for x in (hs_aw, hs_w, hs_ar, hs_b, hs_r))
        # ---------------- slave obligations on the response channels (values after this edge vs before)
        # valid is never withdrawn before ready, payload stable while waiting
        self.check(D.b_implies(D.b_and(nr, D.b_and(bit(po["axi_bvalid"]), D.b_not(bit(ins["axi_bready"])))), bit(outs["axi_bvalid"])), "BVALID withdrawn before BREADY")
        self.check(D.b_implies(D.b_and(nr, D.b_and(bit(po["axi_rvalid"]), D.b_not(bit(ins["axi_rready"])))),
                               D.b_and(bit(outs["axi_rvalid"]), D.v_eq(outs["axi_rdata"], po["axi_rdata"], 32))), "RVALID withdrawn / RDATA changed before RREADY")
        # no acceptance of a second request while one is outstanding is implied by the counters below
        # ---------------- write transaction bookkeeping
        self.check(D.b_implies(hs_aw, D.b_not(D.b_or(self.aw_l, self.b_pending))), "second write address accepted while a write is outstanding")
        self.check(D.b_implies(hs_w, D.b_not(D.b_or(self.w_l, self.b_pending))), "second write data accepted while a write is outstanding")
        aw_addr = mux(hs_aw, ins["axi_awaddr"], self.aw_addr, AW)
        w_data = mux(hs_w, ins["axi_wdata"], self.w_data, 32)
        w_strb = mux(hs_w, ins["axi_wstrb"], self.w_strb, 4)
        aw_l = D.b_or(self.aw_l, hs_aw)
        w_l = D.b_or(self.w_l, hs_w)
        complete = D.b_and(D.b_and(aw_l, w_l), D.b_not(self.b_pending))  # both parts accepted: the access is performed now
        # ---------------- read transaction: data is the register value at the moment the request is accepted
        self.check(D.b_implies(hs_ar, D.b_not(self.r_pending)), "second read address accepted while a read is outstanding")
        rword = self.word(ins["axi_araddr"])
        rdata, rmapped, rknown = 0, False, 15
        for a, kind in self.model.items():
            hit = D.v_eq(rword, a, AW - 2)
            if kind == "ramword":
                rknown = mux(hit, self.known[a], rknown, 4)
            if kind in ("memword", "ramword"):
                val = self.regs[a]
            elif isinstance(kind, tuple):  # ("low16", reset value): MemUField[15:0], upper half reads zero
                val = D.v_zext(self.regs[a], 16, 32)
            else:
                val = D.v_concat(self.regs[a], 16, D.v_not(self.regs[a], 16), 16)
            rdata = mux(hit, val, rdata, 32)
            rmapped = D.b_or(rmapped, hit)
        # ---------------- apply the write (after the read sampled the old value: registers change with the edge)
        wword = self.word(aw_addr)
        new_regs = {}
        for a, kind in self.model.items():
            hit = D.b_and(complete, D.v_eq(wword, a, AW - 2))
            if kind == "ramword":
                nv = merge_bytes(self.regs[a], w_data, w_strb, 0, 4)
                new_regs[a] = mux(hit, nv, self.regs[a], 32)
                # a reset may abort a write that was accepted but not yet carried out by the memory process: contents unknown again
                self.known[a] = mux(rst, 0, mux(hit, D.v_or(self.known[a], w_strb, 4), self.known[a], 4), 4)
            elif kind == "memword":
                nv = merge_bytes(self.regs[a], w_data, w_strb, 0, 4)
                new_regs[a] = mux(rst, 0, mux(hit, nv, self.regs[a], 32), 32)
            elif isinstance(kind, tuple):
                nv = merge_bytes(self.regs[a], D.v_extract(w_data, 15, 0, 32), w_strb, 0, 2)
                new_regs[a] = mux(rst, kind[1], mux(hit, nv, self.regs[a], 16), 16)
            else:
                nv = merge_bytes(self.regs[a], D.v_extract(w_data, 31, 16, 32), w_strb, 2, 2)
                new_regs[a] = mux(rst, 0, mux(hit, nv, self.regs[a], 16), 16)
        self.regs = new_regs
        # ---------------- responses: exactly one per request, none without request
        # a B response may only be presented when a completed write is owed
        b_owed = D.b_or(self.b_pending, complete)
        self.check(D.b_implies(D.b_and(nr, bit(outs["axi_bvalid"])), D.b_and(b_owed, D.b_not(hs_b))), "BVALID without an outstanding write request (or repeated response)")
        self.b_pending = D.b_ite(rst, False, D.b_and(b_owed, D.b_not(hs_b)))
        self.aw_l = D.b_ite(rst, False, D.b_and(aw_l, D.b_not(complete)))
        self.w_l = D.b_ite(rst, False, D.b_and(w_l, D.b_not(complete)))
        self.aw_addr, self.w_data, self.w_strb = aw_addr, w_data, w_strb
        r_owed = D.b_or(self.r_pending, hs_ar)
        self.check(D.b_implies(D.b_and(nr, bit(outs["axi_rvalid"])), D.b_and(r_owed, D.b_not(hs_r))), "RVALID without an outstanding read request (or repeated response)")
        self.r_data = mux(hs_ar, rdata, self.r_data, 32)
        self.r_known = mux(hs_ar, rknown, self.r_known, 4)
        self.r_mapped = D.b_ite(hs_ar, rmapped, self.r_mapped)
        self.r_pending = D.b_ite(rst, False, D.b_and(r_owed, D.b_not(hs_r)))
        # read data: the addressed register's value
        same = True
        for kb in range(4):
            eqb = D.v_eq(D.v_extract(outs["axi_rdata"], 8 * kb + 7, 8 * kb, 32), D.v_extract(self.r_data, 8 * kb + 7, 8 * kb, 32), 8)
            same = D.b_and(same, D.b_implies(D.v_eq(D.v_extract(self.r_known, kb, kb, 4), 1, 1), eqb))
        self.check(D.b_implies(D.b_and(D.b_and(nr, bit(outs["axi_rvalid"])), D.b_and(self.r_pending, self.r_mapped)), same),
                   "read data differs from the addressed register's value (decode / strobe masking / field layout)")
        # a response that is owed is presented without the master having to do anything: bounded progress
        self.prev_in = dict(ins)
        self.pprev_ready = {"axi_awready": bit(po["axi_awready"]), "axi_wready": bit(po["axi_wready"]), "axi_arready": bit(po["axi_arready"])}
        self.prev_out = dict(outs)
        for n in OUTPUTS:
            self.prev_out[n] = mux(rst, 0, outs[n], {"axi_rdata": 32, "axi_bresp": 2, "axi_rresp": 2}.get(n, 1)) if False else outs[n]


class ProgressMonitor(AxiMonitor):
    """with an always-valid, always-ready master a write followed by reads must complete within the horizon"""

    def __init__(self, model, K, aligned=False):
        super().__init__(model, no_reset=True, aligned=aligned)
        self.K = K
        self.seen_b = False
        self.seen_r = False

    def step(self, i, ins, outs):
        for n in ("axi_awvalid", "axi_wvalid", "axi_bready", "axi_arvalid", "axi_rready"):
            self.assume(bit(ins[n]))
        super().step(i, ins, outs)
        self.seen_b = D.b_or(self.seen_b, bit(outs["axi_bvalid"]))
        self.seen_r = D.b_or(self.seen_r, bit(outs["axi_rvalid"]))
        if i == self.K - 1:
            self.check(self.seen_b, "no write response although the master was always valid/ready")
            self.check(self.seen_r, "no read response although the master was always valid/ready")


def run(tier: str) -> int:
    rep = Reporter("C20", tier, "model_checking")
    wd = Workdir()
    counts = {}
    states = transitions = 0
    K = 8 if tier == "quick" else 10
    try:
        names = list(MAPS)
        jobs = [(name, kind) for name in names for kind in ("protocol+data", "progress")]

        def job(i, rw, wdw):
            name, kind = jobs[i]
            src = design(name)
            model = MAPS[name][1]
            text, exc = compile_design(wdw, src, "W", "c20")
            if text is None:
                return {"status": "rejected", "why": f"{type(exc).__name__}: {str(exc)[:300]}", "source": src}
            try:
                lib = VS.Library(text)
                VS.Sim(lib)
            except Illegal as e:
                return {"status": "illegal", "why": str(e), "source": src, "vhdl": text}
            al = name in ALIGNED_ONLY
            kk, mk = (K, lambda: AxiMonitor(model, aligned=al)) if kind == "protocol+data" else (10, lambda: ProgressMonitor(model, 10, aligned=al))
            status, info = run_bmc(rw.stats, lib, INPUTS, OUTPUTS, kk, mk, timeout_ms=900000)
            reduced = None
            if status == "unknown" and kind == "protocol+data" and kk > 8:
                # the deeper bound did not finish within the cap: decide the quick bound instead and say so (never a pass at K)
                reduced = (kk, 8)
                kk = 8
                status, info = run_bmc(rw.stats, lib, INPUTS, OUTPUTS, kk, mk, timeout_ms=900000)
            return {"reduced": reduced, "status": status, "info": info if isinstance(info, (dict, str)) else str(info), "kk": kk, "source": src, "vhdl": text if status == "violation" else None,
                    "validated": rw.stats.extra.get("traces_validated", 0)}

        from ..core import parallel_programs
        results = parallel_programs(rep, len(jobs), job)
        reduced_bounds = []
        rep.stats.programs += len(names)
        validated = 0
        for i in sorted(results):
            (name, kind), r = jobs[i], results[i]
            key = f"{name}|{kind}"
            status = r["status"]
            if status == "rejected":
                if kind == "protocol+data":
                    rep.violation(f"rejected|{name}", f"{name}: register map design rejected: {r['why']}", {"source": r["source"]})
                continue
            if status == "illegal":
                if kind == "protocol+data":
                    rep.violation(f"illegal|{name}", f"{name}: emitted VHDL illegal: {r['why']}", {"source": r["source"], "vhdl": r["vhdl"]})
                continue
            if status == "worker-error":
                rep.inconclusive_query(f"{key}: {r['why']}")
                continue
            info, kk = r["info"], r["kk"]
            if r.get("reduced"):
                reduced_bounds.append(f"{key}: K={r['reduced'][0]} undecided within 900 s, decided at K={r['reduced'][1]}")
            counts[status] = counts.get(status, 0) + 1
            transitions += kk
            states += kk + 1
            if status == "ok":
                validated += 1
                rep.stats.nontrivial.add(key)
                rep.stats.sample({"design": key, "K": kk, "verdict": "unsat: protocol and data monitors hold at every clock for every master behaviour"}, limit=3)
            elif status == "violation":
                msg = info["failed"][0][0]
                rep.violation(f"{name}|{msg.split(' (')[0][:60]}", f"{key}: {msg} at clock {info['failed'][0][1]}", {"source": r["source"], "vhdl": r["vhdl"], **info})
                validated += 1
            else:
                rep.inconclusive_query(f"{key}: {status} {info}")
        rep.stats.extra["traces_validated"] = validated
        if reduced_bounds:
            rep.assumptions.append("bound reduced (solver cap): " + "; ".join(reduced_bounds))
        rep.stats.units |= {"cohdl.std.axi.axi4_light.base (await_read_request / send_read_resp / await_write_request / send_write_response / connect_addr_map)",
                            "cohdl.std.reg.reg (AddrMap / RegFile dispatch, _contains_addr_, Register._basic_write_, MemWord._on_write_)", "cohdl.std._core_utility.Mask / apply_mask / stretch"}
        rep.assumptions += ["AXI master rules assumed: AWVALID/WVALID/ARVALID held and payload stable until the handshake; everything else (all valids, readies, addresses, data, strobes, reset) symbolic at every clock",
                            "bounded: K=%d clocks from power-up (>= two back-to-back transactions with stalls); 8-bit addresses, maps: Register with MemField/Field, MemWords with holes, nested RegFiles (thorough)" % K,
                            "read data of unmapped addresses is not constrained; hardware-side notifications are not modelled"]
        return rep.finish({
            "states": states, "transitions": transitions, "traces_validated_against_impl": rep.stats.extra.get("traces_validated", 0),
            "designs": rep.stats.programs, "results": counts, "bounds_reduced": reduced_bounds,
            "samples": rep.stats.samples or [{"design": "fields"}],
            "distinct_nontrivial": len(rep.stats.nontrivial), "evaluations": rep.stats.programs * 2,
        })
    finally:
        wd.close()
