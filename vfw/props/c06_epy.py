"""E-PY harness for C06: the real backend name allocation (VhdlScope.declare / complete_setup) with
symbolic name choices.  Executed by CrossHair; replayed natively."""
from __future__ import annotations
from cohdl import Signal, Variable, Temporary, Bit
from cohdl._compiler.backend.vhdl import _vhdl_repr as R

POOL = ["x", "X", "temp", "to_integer", "signal", "x1", "x2", "_x"]
NPOOL = len(POOL)

# names the emitted text relies on (beyond the VHDL reserved words)
PREDEFINED = {"std_logic", "std_logic_vector", "unsigned", "signed", "boolean", "integer", "natural", "resize", "to_integer", "to_unsigned", "to_signed",
              "shift_left", "shift_right", "rising_edge", "falling_edge", "true", "false", "cohdl_bool_to_std_logic", "work", "ieee"}


def _conc(i, n):
    for k in range(n):
        if i == k:
            return k
    return 0


def build(i0, i1, i2, mask):
    i0, i1, i2, mask = _conc(i0, NPOOL), _conc(i1, NPOOL), _conc(i2, NPOOL), _conc(mask, 8)
    mod = R.ModuleScope()
    arch = R.ArchScope(mod)
    proc = R.ProcessScope(arch)
    base = POOL[i0].strip("_")
    for b, k in enumerate((1, 2, 4)):
        if mask & (1 << b):
            arch.reserve_name((base + str(k)).lower())
    objs = [Signal[Bit](name=POOL[i0]), Signal[Bit](name=POOL[i1]), Variable[Bit](name=POOL[i2]), Temporary[Bit](), Temporary[Bit]()]
    arch.declare(objs[0])
    arch.declare(objs[1])
    for o in objs[2:]:
        proc.declare(o)
    mod.complete_setup()
    names = [arch.lookup_name(objs[0]), arch.lookup_name(objs[1])] + [proc.lookup_name(o) for o in objs[2:]]
    reserved = {(base + str(k)).lower() for b, k in enumerate((1, 2, 4)) if mask & (1 << b)}
    return names, reserved


def scope_names_ok(i0, i1, i2, i3, mask) -> bool:
    names, reserved = build(i0, i1, i2, mask)
    low = [n.lower() for n in names]
    if len(set(low)) != len(low):
        return False
    for n in low:
        if n in R.ModuleScope._vhdl_reserved or n in PREDEFINED or n in reserved:
            return False
        if n.startswith("_") or n.endswith("_") or "__" in n or not n[0].isalpha():
            return False
    return True


def describe(i0, i1, i2, i3, mask, verbose=False):
    try:
        names, reserved = build(i0, i1, i2, mask)
    except Exception as e:
        names, reserved = [repr(e)], set()
    req = [POOL[i0 % NPOOL], POOL[i1 % NPOOL], POOL[i2 % NPOOL]]
    if verbose:
        return f"requested {req} (+2 temporaries), pre-reserved {sorted(reserved)} -> assigned {names}"
    bad = sorted({n.lower() for n in names if n.lower() in PREDEFINED})
    return "predefined:" + ",".join(bad) if bad else "collision:" + ",".join(sorted(r.lower() for r in req))
