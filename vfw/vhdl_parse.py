"""Lexer + recursive-descent parser for the VHDL subset cohdl emits.

Two failure classes (DESIGN 2.3):
  Illegal      -- the text breaks a definite rule of VHDL (syntax error, reserved word used as
                  identifier, ...).  Feeds C06.
  Unsupported  -- legal VHDL outside the subset.  Never reported as a violation.
"""
from __future__ import annotations
from dataclasses import dataclass, field
from typing import Any


class Illegal(Exception):
    def __init__(self, rule, msg, where=None):
        super().__init__(f"{rule}: {msg}" + (f" @ {where}" if where else ""))
        self.rule = rule
        self.msg = msg
        self.where = where


class Unsupported(Exception):
    pass


RESERVED = set(
    """abs access after alias all and architecture array assert attribute begin block body
buffer bus case component configuration constant context cover default disconnect downto else
elsif end entity exit fairness file for force function generate generic group guarded if impure
in inertial inout is label library linkage literal loop map mod nand new next nor not null of on
open or others out package parameter port postponed procedure process property protected pure
range record register reject release rem report restrict restrict_guarantee return rol ror
select sequence severity shared signal sla sll sra srl strong subtype then to transport type
unaffected units until use variable vmode vprop vunit wait when while with xnor xor assume
assume_guarantee""".split()
)
# 'default' etc. (PSL) are reserved only in VHDL-2008; cohdl reserves "default" itself.

_PUNCT2 = {":=", "<=", ">=", "=>", "/=", "**", "<>", "?=", "??"}
_PUNCT1 = set("()+-*/&'.,;:<>=|")


@dataclass
class Tok:
    kind: str  # id kw int char str punct eof
    text: str
    line: int

    def __repr__(self):
        return f"{self.kind}:{self.text}@{self.line}"


def lex(src: str) -> list[Tok]:
    toks: list[Tok] = []
    i, n, line = 0, len(src), 1
    while i < n:
        c = src[i]
        if c == "\n":
            line += 1
            i += 1
            continue
        if c in " \t\r\f":
            i += 1
            continue
        if src.startswith("--", i):
            while i < n and src[i] != "\n":
                i += 1
            continue
        if c.isalpha():
            j = i + 1
            while j < n and (src[j].isalnum() or src[j] == "_"):
                j += 1
            text = src[i:j]
            if not text.isascii():
                raise Illegal("syntax", f"non-ASCII identifier {text!r}", line)
            if text.endswith("_") or "__" in text:
                raise Illegal("identifier", f"illegal basic identifier {text!r}", line)
            low = text.lower()
            toks.append(Tok("kw" if low in RESERVED else "id", text, line))
            i = j
            continue
        if c == "_":
            raise Illegal("identifier", "identifier starting with underscore", line)
        if c.isdigit():
            j = i + 1
            while j < n and (src[j].isdigit() or src[j] == "_"):
                j += 1
            if j < n and (src[j].isalpha()):
                # e.g. 1abc or based/bit-string literal
                if src[j] in "xXbBoO" and j + 1 < n and src[j + 1] == '"':
                    raise Unsupported("bit string literal")
                if src[j] in "eE#":
                    raise Unsupported("based/exponent literal")
                raise Illegal("syntax", f"bad token {src[i:j+1]!r}", line)
            if j < n and src[j] == "." and j + 1 < n and src[j + 1].isdigit():
                raise Unsupported("real literal")
            toks.append(Tok("int", src[i:j].replace("_", ""), line))
            i = j
            continue
        if c == '"':
            j = i + 1
            buf = []
            while True:
                if j >= n or src[j] == "\n":
                    raise Illegal("syntax", "unterminated string", line)
                if src[j] == '"':
                    if j + 1 < n and src[j + 1] == '"':
                        buf.append('"')
                        j += 2
                        continue
                    break
                buf.append(src[j])
                j += 1
            toks.append(Tok("str", "".join(buf), line))
            i = j + 1
            continue
        if c == "'":
            prev = toks[-1] if toks else None
            tick = prev is not None and (
                prev.kind == "id" or (prev.kind == "punct" and prev.text == ")") or (prev.kind == "kw" and prev.text.lower() == "all")
            )
            if not tick and i + 2 < n and src[i + 2] == "'":
                toks.append(Tok("char", src[i + 1], line))
                i += 3
                continue
            toks.append(Tok("punct", "'", line))
            i += 1
            continue
        if src[i : i + 2] in _PUNCT2:
            toks.append(Tok("punct", src[i : i + 2], line))
            i += 2
            continue
        if c in _PUNCT1:
            toks.append(Tok("punct", c, line))
            i += 1
            continue
        raise Illegal("syntax", f"unexpected character {c!r}", line)
    toks.append(Tok("eof", "", line))
    return toks


# ------------------------------------------------------------------ AST
@dataclass
class Node:
    line: int = 0


@dataclass
class Name(Node):  # simple identifier
    id: str = ""


@dataclass
class IntLit(Node):
    value: int = 0


@dataclass
class CharLit(Node):
    ch: str = ""


@dataclass
class StrLit(Node):
    s: str = ""


@dataclass
class Call(Node):  # name(args): function call / conversion / index -- resolved later
    fn: Any = None
    args: list = field(default_factory=list)


@dataclass
class SliceN(Node):
    base: Any = None
    left: Any = None
    right: Any = None
    downto: bool = True


@dataclass
class Qualified(Node):
    tname: str = ""
    expr: Any = None


@dataclass
class Attr(Node):
    base: Any = None
    attr: str = ""


@dataclass
class Selected(Node):
    base: Any = None
    sel: str = ""


@dataclass
class Unary(Node):
    op: str = ""
    arg: Any = None


@dataclass
class Binary(Node):
    op: str = ""
    lhs: Any = None
    rhs: Any = None


@dataclass
class Aggregate(Node):
    items: list = field(default_factory=list)  # (choice|None|'others', expr)


@dataclass
class Paren(Node):
    expr: Any = None


# types
@dataclass
class TypeRef(Node):
    name: str = ""
    left: Any = None  # constraint
    right: Any = None
    downto: bool = True
    constrained: bool = False


# declarations
@dataclass
class PortDecl(Node):
    name: str = ""
    mode: str = "in"
    type: TypeRef = None
    init: Any = None


@dataclass
class ObjDecl(Node):
    kind: str = "signal"  # signal variable constant
    name: str = ""
    type: TypeRef = None
    init: Any = None


@dataclass
class EnumDecl(Node):
    name: str = ""
    lits: list = field(default_factory=list)


@dataclass
class ArrayDecl(Node):
    name: str = ""
    lo: Any = None
    hi: Any = None
    to: bool = True
    elem: TypeRef = None


@dataclass
class AttrDecl(Node):
    name: str = ""
    type: TypeRef = None


@dataclass
class AttrSpec(Node):
    name: str = ""
    target: str = ""
    cls: str = ""
    value: Any = None


@dataclass
class FuncDecl(Node):
    name: str = ""
    params: list = field(default_factory=list)  # (name, TypeRef)
    ret: TypeRef = None
    decls: list = field(default_factory=list)
    body: list = field(default_factory=list)


# statements
@dataclass
class SigAssign(Node):
    target: Any = None
    expr: Any = None


@dataclass
class VarAssign(Node):
    target: Any = None
    expr: Any = None


@dataclass
class If(Node):
    arms: list = field(default_factory=list)  # (cond, stmts)
    orelse: list | None = None


@dataclass
class Case(Node):
    sel: Any = None
    arms: list = field(default_factory=list)  # (choices list | 'others', stmts)


@dataclass
class Null(Node):
    pass


@dataclass
class Assert(Node):
    cond: Any = None
    msg: str | None = None


@dataclass
class Return(Node):
    expr: Any = None


# concurrent
@dataclass
class SelectAssign(Node):
    sel: Any = None
    target: Any = None
    arms: list = field(default_factory=list)  # (expr, choices|'others')


@dataclass
class Process(Node):
    label: str | None = None
    sens: list | str = field(default_factory=list)  # list of exprs or 'all'
    decls: list = field(default_factory=list)
    body: list = field(default_factory=list)


@dataclass
class Instance(Node):
    label: str = ""
    lib: str = ""
    entity: str = ""
    arch: str | None = None
    generics: list = field(default_factory=list)
    ports: list = field(default_factory=list)  # (formal, actual expr | 'open')


@dataclass
class Entity(Node):
    name: str = ""
    ports: list = field(default_factory=list)
    generics: list = field(default_factory=list)
    context: list = field(default_factory=list)


@dataclass
class Architecture(Node):
    name: str = ""
    entity: str = ""
    decls: list = field(default_factory=list)
    stmts: list = field(default_factory=list)


class FormalConv(str):
    """formal part `type_mark(formal)` of a port association: the string is the formal's name"""

    def __new__(cls, name, conv):
        o = super().__new__(cls, name)
        o.conv = conv
        return o


class Parser:
    def __init__(self, src: str):
        self.toks = lex(src)
        self.p = 0

    # -- helpers
    @property
    def t(self) -> Tok:
        return self.toks[self.p]

    def peek(self, k=1) -> Tok:
        return self.toks[min(self.p + k, len(self.toks) - 1)]

    def err(self, msg):
        raise Illegal("syntax", f"{msg}, got {self.t.kind} {self.t.text!r}", self.t.line)

    def is_kw(self, *kws):
        return self.t.kind == "kw" and self.t.text.lower() in kws

    def is_p(self, *ps):
        return self.t.kind == "punct" and self.t.text in ps

    def eat_kw(self, kw):
        if not self.is_kw(kw):
            self.err(f"expected '{kw}'")
        self.p += 1

    def eat_p(self, p):
        if not self.is_p(p):
            self.err(f"expected '{p}'")
        self.p += 1

    def opt_kw(self, kw):
        if self.is_kw(kw):
            self.p += 1
            return True
        return False

    def opt_p(self, p):
        if self.is_p(p):
            self.p += 1
            return True
        return False

    def ident(self) -> str:
        if self.t.kind == "kw":
            raise Illegal("reserved-word", f"reserved word {self.t.text!r} used as identifier", self.t.line)
        if self.t.kind != "id":
            self.err("expected identifier")
        s = self.t.text
        self.p += 1
        return s

    # -- design file
    def design_file(self):
        units = []
        context = []
        while self.t.kind != "eof":
            if self.is_kw("library"):
                self.p += 1
                names = [self.ident()]
                while self.opt_p(","):
                    names.append(self.ident())
                self.eat_p(";")
                context.append(("library", names))
            elif self.is_kw("use"):
                self.p += 1
                parts = [self.ident()]
                while self.opt_p("."):
                    if self.opt_kw("all"):
                        parts.append("all")
                    else:
                        parts.append(self.ident())
                self.eat_p(";")
                context.append(("use", parts))
            elif self.is_kw("entity"):
                e = self.entity()
                e.context = context
                context = []
                units.append(e)
            elif self.is_kw("architecture"):
                units.append(self.architecture())
            else:
                self.err("expected design unit")
        return units

    def entity(self):
        line = self.t.line
        self.eat_kw("entity")
        name = self.ident()
        self.eat_kw("is")
        ent = Entity(line=line, name=name)
        if self.is_kw("generic"):
            raise Unsupported("generic clause")
        if self.opt_kw("port"):
            self.eat_p("(")
            if self.is_p(")"):
                raise Illegal("syntax", f"entity {name}: empty port clause (an interface list has at least one element)", line)
            if not self.is_p(")"):
                while True:
                    ent.ports.append(self.port_decl())
                    if self.opt_p(";"):
                        if self.is_p(")"):
                            self.err("trailing ';' in port list")
                        continue
                    break
            self.eat_p(")")
            self.eat_p(";")
        self.eat_kw("end")
        self.opt_kw("entity")
        if self.t.kind == "id":
            n2 = self.ident()
            if n2.lower() != name.lower():
                raise Illegal("syntax", f"end name {n2} does not match {name}", line)
        self.eat_p(";")
        return ent

    def port_decl(self):
        line = self.t.line
        self.opt_kw("signal")
        name = self.ident()
        self.eat_p(":")
        mode = "in"
        if self.is_kw("in", "out", "inout", "buffer", "linkage"):
            mode = self.t.text.lower()
            self.p += 1
        ty = self.type_ref()
        init = None
        if self.opt_p(":="):
            init = self.expr()
        return PortDecl(line=line, name=name, mode=mode, type=ty, init=init)

    def type_ref(self):
        line = self.t.line
        name = self.ident()
        tr = TypeRef(line=line, name=name)
        if self.is_p("("):
            self.p += 1
            tr.left = self.expr()
            if self.opt_kw("downto"):
                tr.downto = True
            elif self.opt_kw("to"):
                tr.downto = False
            else:
                self.err("expected range direction")
            tr.right = self.expr()
            self.eat_p(")")
            tr.constrained = True
        elif self.is_kw("range"):
            raise Unsupported("range constraint")
        return tr

    def architecture(self):
        line = self.t.line
        self.eat_kw("architecture")
        name = self.ident()
        self.eat_kw("of")
        ent = self.ident()
        self.eat_kw("is")
        arch = Architecture(line=line, name=name, entity=ent)
        arch.decls = self.decl_part()
        self.eat_kw("begin")
        while not self.is_kw("end"):
            arch.stmts.append(self.concurrent_stmt())
        self.eat_kw("end")
        self.opt_kw("architecture")
        if self.t.kind == "id":
            n2 = self.ident()
            if n2.lower() != name.lower():
                raise Illegal("syntax", f"end name {n2} does not match {name}", line)
        self.eat_p(";")
        return arch

    def decl_part(self):
        decls = []
        while True:
            line = self.t.line
            if self.is_kw("signal", "variable", "constant"):
                kind = self.t.text.lower()
                self.p += 1
                if self.is_kw("shared"):
                    raise Unsupported("shared variable")
                names = [self.ident()]
                while self.opt_p(","):
                    names.append(self.ident())
                self.eat_p(":")
                ty = self.type_ref()
                init = None
                if self.opt_p(":="):
                    init = self.expr()
                self.eat_p(";")
                for nm in names:
                    decls.append(ObjDecl(line=line, kind=kind, name=nm, type=ty, init=init))
            elif self.is_kw("type"):
                self.p += 1
                name = self.ident()
                self.eat_kw("is")
                if self.opt_p("("):
                    lits = []
                    while True:
                        if self.t.kind == "char":
                            raise Unsupported("character enumeration literal")
                        lits.append(self.ident())
                        if not self.opt_p(","):
                            break
                    self.eat_p(")")
                    self.eat_p(";")
                    decls.append(EnumDecl(line=line, name=name, lits=lits))
                elif self.opt_kw("array"):
                    self.eat_p("(")
                    lo = self.expr()
                    if self.opt_kw("to"):
                        to = True
                    elif self.opt_kw("downto"):
                        to = False
                    else:
                        self.err("expected range")
                    hi = self.expr()
                    self.eat_p(")")
                    self.eat_kw("of")
                    elem = self.type_ref()
                    self.eat_p(";")
                    decls.append(ArrayDecl(line=line, name=name, lo=lo, hi=hi, to=to, elem=elem))
                else:
                    raise Unsupported("type definition")
            elif self.is_kw("attribute"):
                self.p += 1
                name = self.ident()
                if self.opt_p(":"):
                    ty = self.type_ref()
                    self.eat_p(";")
                    decls.append(AttrDecl(line=line, name=name, type=ty))
                else:
                    self.eat_kw("of")
                    target = self.ident()
                    self.eat_p(":")
                    if self.t.kind != "kw":
                        self.err("expected entity class")
                    cls = self.t.text.lower()
                    self.p += 1
                    self.eat_kw("is")
                    val = self.expr()
                    self.eat_p(";")
                    decls.append(AttrSpec(line=line, name=name, target=target, cls=cls, value=val))
            elif self.is_kw("function", "pure", "impure"):
                if self.is_kw("pure", "impure"):
                    self.p += 1
                decls.append(self.func_decl())
            elif self.is_kw("begin"):
                return decls
            elif self.is_kw("subtype", "alias", "component", "procedure", "file", "use", "for", "package", "shared"):
                raise Unsupported(f"declaration '{self.t.text}'")
            else:
                self.err("expected declaration or 'begin'")

    def func_decl(self):
        line = self.t.line
        self.eat_kw("function")
        name = self.ident()
        params = []
        if self.opt_p("("):
            while True:
                self.opt_kw("constant")
                self.opt_kw("signal")
                pn = self.ident()
                self.eat_p(":")
                self.opt_kw("in")
                pt = self.type_ref()
                params.append((pn, pt))
                if not self.opt_p(";"):
                    break
            self.eat_p(")")
        self.eat_kw("return")
        ret = self.type_ref()
        self.eat_kw("is")
        decls = self.decl_part()
        self.eat_kw("begin")
        body = self.seq_stmts(("end",))
        self.eat_kw("end")
        self.opt_kw("function")
        if self.t.kind == "id":
            n2 = self.ident()
            if n2.lower() != name.lower():
                raise Illegal("syntax", "function end name mismatch", line)
        self.eat_p(";")
        return FuncDecl(line=line, name=name, params=params, ret=ret, decls=decls, body=body)

    # -- concurrent statements
    def concurrent_stmt(self):
        line = self.t.line
        label = None
        if self.t.kind == "id" and self.peek().kind == "punct" and self.peek().text == ":":
            label = self.ident()
            self.eat_p(":")
        if self.is_kw("postponed"):
            raise Unsupported("postponed")
        if self.is_kw("process"):
            return self.process(label, line)
        if self.is_kw("entity"):
            if label is None:
                self.err("instantiation requires a label")
            return self.instance(label, line)
        if self.is_kw("with"):
            self.p += 1
            sel = self.expr()
            self.eat_kw("select")
            target = self.name()
            self.eat_p("<=")
            arms = []
            while True:
                e = self.expr()
                self.eat_kw("when")
                ch = self.choices()
                arms.append((e, ch))
                if self.opt_p(","):
                    continue
                break
            self.eat_p(";")
            return SelectAssign(line=line, sel=sel, target=target, arms=arms)
        if self.is_kw("assert"):
            st = self.seq_stmt()
            return Process(line=line, label=label, sens="implicit", decls=[], body=[st])
        if self.is_kw("block", "component", "for", "if", "case", "generate"):
            raise Unsupported(f"concurrent '{self.t.text}'")
        if self.t.kind == "kw":
            self.err("expected concurrent statement")
        target = self.name()
        self.eat_p("<=")
        if self.is_kw("transport", "inertial", "reject", "guarded", "force", "release"):
            raise Unsupported("delay mechanism")
        e = self.expr()
        if self.is_kw("when"):
            raise Unsupported("conditional signal assignment")
        if self.is_kw("after"):
            raise Unsupported("after clause")
        self.eat_p(";")
        return Process(line=line, label=label, sens="implicit", decls=[], body=[SigAssign(line=line, target=target, expr=e)])

    def process(self, label, line):
        self.eat_kw("process")
        sens: Any = None
        if self.opt_p("("):
            if self.opt_kw("all"):
                sens = "all"
            else:
                sens = []
                if self.is_p(")"):
                    raise Illegal("sensitivity", "empty sensitivity list", line)
                while True:
                    sens.append(self.name())
                    if not self.opt_p(","):
                        break
            self.eat_p(")")
        self.opt_kw("is")
        decls = self.decl_part()
        self.eat_kw("begin")
        body = self.seq_stmts(("end",))
        self.eat_kw("end")
        self.opt_kw("postponed")
        self.eat_kw("process")
        if self.t.kind == "id":
            n2 = self.ident()
            if label is None or n2.lower() != label.lower():
                raise Illegal("syntax", "process end label mismatch", line)
        self.eat_p(";")
        if sens is None:
            raise Illegal("sensitivity", f"process {label} has no sensitivity list (and no wait statement in subset)", line)
        return Process(line=line, label=label, sens=sens, decls=decls, body=body)

    def instance(self, label, line):
        self.eat_kw("entity")
        lib = self.ident()
        self.eat_p(".")
        ent = self.ident()
        arch = None
        if self.opt_p("("):
            arch = self.ident()
            self.eat_p(")")
        inst = Instance(line=line, label=label, lib=lib, entity=ent, arch=arch)
        if self.opt_kw("generic"):
            self.eat_kw("map")
            inst.generics = self.assoc_list()
        if self.opt_kw("port"):
            self.eat_kw("map")
            inst.ports = self.assoc_list()
        self.eat_p(";")
        return inst

    def assoc_list(self):
        self.eat_p("(")
        res = []
        while True:
            conv = None
            if self.t.kind == "id" and self.peek().kind == "punct" and self.peek().text == "(":
                # type conversion in the formal part:  type_mark(formal) => actual
                conv = self.ident()
                self.eat_p("(")
                formal = self.ident()
                self.eat_p(")")
                if not (self.t.kind == "punct" and self.t.text == "=>"):
                    raise Unsupported("positional / partial association")
                formal = FormalConv(formal, conv)
            elif not (self.t.kind == "id" and self.peek().kind == "punct" and self.peek().text == "=>"):
                if self.t.kind == "kw":
                    self.ident()
                raise Unsupported("positional / partial association")
            else:
                formal = self.ident()
            self.eat_p("=>")
            if self.opt_kw("open"):
                actual = "open"
            else:
                actual = self.expr()
            res.append((formal, actual))
            if not self.opt_p(","):
                break
        self.eat_p(")")
        return res

    # -- sequential statements
    def seq_stmts(self, stop):
        out = []
        while not self.is_kw(*stop):
            out.append(self.seq_stmt())
        return out

    def seq_stmt(self):
        line = self.t.line
        if self.t.kind == "id" and self.peek().kind == "punct" and self.peek().text == ":":
            raise Unsupported("labelled sequential statement")
        if self.opt_kw("if"):
            arms = []
            cond = self.expr()
            self.eat_kw("then")
            body = self.seq_stmts(("elsif", "else", "end"))
            arms.append((cond, body))
            orelse = None
            while True:
                if self.opt_kw("elsif"):
                    c = self.expr()
                    self.eat_kw("then")
                    b = self.seq_stmts(("elsif", "else", "end"))
                    arms.append((c, b))
                elif self.opt_kw("else"):
                    orelse = self.seq_stmts(("end",))
                else:
                    break
            self.eat_kw("end")
            self.eat_kw("if")
            self.eat_p(";")
            return If(line=line, arms=arms, orelse=orelse)
        if self.opt_kw("case"):
            sel = self.expr()
            self.eat_kw("is")
            arms = []
            if not self.is_kw("when"):
                self.err("case without alternatives")
            while self.opt_kw("when"):
                ch = self.choices()
                self.eat_p("=>")
                body = self.seq_stmts(("when", "end"))
                arms.append((ch, body))
            self.eat_kw("end")
            self.eat_kw("case")
            self.eat_p(";")
            return Case(line=line, sel=sel, arms=arms)
        if self.opt_kw("null"):
            self.eat_p(";")
            return Null(line=line)
        if self.opt_kw("assert"):
            c = self.expr()
            msg = None
            if self.opt_kw("report"):
                if self.t.kind != "str":
                    raise Unsupported("report expression")
                msg = self.t.text
                self.p += 1
            if self.opt_kw("severity"):
                self.ident()
            self.eat_p(";")
            return Assert(line=line, cond=c, msg=msg)
        if self.opt_kw("return"):
            e = None
            if not self.is_p(";"):
                e = self.expr()
            self.eat_p(";")
            return Return(line=line, expr=e)
        if self.is_kw("for", "while", "loop", "wait", "exit", "next", "report"):
            raise Unsupported(f"sequential '{self.t.text}'")
        if self.t.kind == "kw":
            self.err("expected sequential statement")
        target = self.name()
        if self.opt_p("<="):
            if self.is_kw("transport", "inertial", "reject", "force", "release"):
                raise Unsupported("delay mechanism")
            e = self.expr()
            if self.is_kw("after", "when"):
                raise Unsupported("after/when in sequential assignment")
            self.eat_p(";")
            return SigAssign(line=line, target=target, expr=e)
        if self.opt_p(":="):
            e = self.expr()
            if self.is_kw("when"):
                raise Unsupported("conditional variable assignment")
            self.eat_p(";")
            return VarAssign(line=line, target=target, expr=e)
        if self.is_p(";"):
            raise Unsupported("procedure call")
        self.err("expected assignment")

    def choices(self):
        if self.opt_kw("others"):
            return "others"
        ch = [self.simple_expr()]
        while self.opt_p("|"):
            ch.append(self.simple_expr())
        return ch

    # -- expressions
    _LOGICAL = ("and", "or", "xor", "nand", "nor", "xnor")
    _REL = ("=", "/=", "<", "<=", ">", ">=")

    def expr(self):
        line = self.t.line
        lhs = self.relation()
        if self.is_kw(*self._LOGICAL):
            first = self.t.text.lower()
            count = 0
            while self.is_kw(*self._LOGICAL):
                op = self.t.text.lower()
                if op != first:
                    raise Illegal("syntax", f"mixed logical operators '{first}' and '{op}' without parentheses", self.t.line)
                if op in ("nand", "nor") and count >= 1:
                    raise Illegal("syntax", f"'{op}' is not associative", self.t.line)
                self.p += 1
                rhs = self.relation()
                lhs = Binary(line=line, op=op, lhs=lhs, rhs=rhs)
                count += 1
        return lhs

    def relation(self):
        line = self.t.line
        lhs = self.shift_expr()
        if self.is_p(*self._REL):
            op = self.t.text
            self.p += 1
            rhs = self.shift_expr()
            lhs = Binary(line=line, op=op, lhs=lhs, rhs=rhs)
            if self.is_p(*self._REL):
                raise Illegal("syntax", "chained relational operators", self.t.line)
        return lhs

    def shift_expr(self):
        line = self.t.line
        lhs = self.simple_expr()
        if self.is_kw("sll", "srl", "sla", "sra", "rol", "ror"):
            raise Unsupported("shift operator")
        return lhs

    def simple_expr(self):
        line = self.t.line
        sign = None
        if self.is_p("+", "-"):
            sign = self.t.text
            self.p += 1
        lhs = self.term()
        if sign:
            lhs = Unary(line=line, op=sign, arg=lhs)
        while self.is_p("+", "-", "&"):
            op = self.t.text
            self.p += 1
            rhs = self.term()
            lhs = Binary(line=line, op=op, lhs=lhs, rhs=rhs)
        return lhs

    def term(self):
        line = self.t.line
        lhs = self.factor()
        while self.is_p("*", "/") or self.is_kw("mod", "rem"):
            op = self.t.text.lower()
            self.p += 1
            if self.is_p("+", "-"):
                raise Illegal("syntax", "sign after multiplying operator needs parentheses", self.t.line)
            rhs = self.factor()
            lhs = Binary(line=line, op=op, lhs=lhs, rhs=rhs)
        return lhs

    def factor(self):
        line = self.t.line
        if self.opt_kw("abs"):
            return Unary(line=line, op="abs", arg=self.primary())
        if self.opt_kw("not"):
            return Unary(line=line, op="not", arg=self.primary())
        p = self.primary()
        if self.is_p("**"):
            raise Unsupported("exponentiation")
        return p

    def primary(self):
        line = self.t.line
        t = self.t
        if t.kind == "int":
            self.p += 1
            return IntLit(line=line, value=int(t.text))
        if t.kind == "char":
            self.p += 1
            return CharLit(line=line, ch=t.text)
        if t.kind == "str":
            self.p += 1
            return StrLit(line=line, s=t.text)
        if self.is_p("("):
            return self.paren_or_aggregate()
        if t.kind == "id":
            return self.name()
        if t.kind == "kw" and t.text.lower() in ("new", "null", "open"):
            raise Unsupported(t.text)
        if t.kind == "kw":
            raise Illegal("reserved-word", f"reserved word {t.text!r} where a name or literal is expected", t.line)
        self.err("expected primary")

    def paren_or_aggregate(self):
        line = self.t.line
        self.eat_p("(")
        items = []
        is_agg = False
        while True:
            if self.opt_kw("others"):
                self.eat_p("=>")
                items.append(("others", self.expr()))
                is_agg = True
            else:
                e = self.expr()
                if self.opt_p("=>"):
                    v = self.expr()
                    items.append((e, v))
                    is_agg = True
                elif self.is_p("|") or self.is_kw("to", "downto"):
                    raise Unsupported("aggregate choice list/range")
                else:
                    items.append((None, e))
            if self.opt_p(","):
                is_agg = True
                continue
            break
        self.eat_p(")")
        if not is_agg:
            return Paren(line=line, expr=items[0][1])
        return Aggregate(line=line, items=items)

    def name(self):
        line = self.t.line
        n: Any = Name(line=line, id=self.ident())
        while True:
            if self.is_p("("):
                self.p += 1
                first = self.expr()
                if self.is_kw("downto", "to"):
                    downto = self.t.text.lower() == "downto"
                    self.p += 1
                    right = self.expr()
                    self.eat_p(")")
                    n = SliceN(line=line, base=n, left=first, right=right, downto=downto)
                else:
                    args = [first]
                    while self.opt_p(","):
                        args.append(self.expr())
                    if self.is_p("=>"):
                        raise Unsupported("named association in call")
                    self.eat_p(")")
                    n = Call(line=line, fn=n, args=args)
            elif self.is_p("'"):
                self.p += 1
                if self.is_p("("):
                    if not isinstance(n, Name):
                        self.err("qualified expression needs a type mark")
                    inner = self.paren_or_aggregate()
                    n = Qualified(line=line, tname=n.id, expr=inner.expr if isinstance(inner, Paren) else inner)
                else:
                    if self.t.kind == "kw" and self.t.text.lower() == "range":
                        raise Unsupported("'range")
                    a = self.ident()
                    n = Attr(line=line, base=n, attr=a)
            elif self.is_p("."):
                self.p += 1
                n = Selected(line=line, base=n, sel=self.ident())
            else:
                return n


def parse(src: str):
    return Parser(src).design_file()
