"""C12 -- instantiating an entity is equivalent to inlining it.
'hier' family: instantiation trees over generated leaf entities (combinational, registered,
counter, coroutine leaves; repeated templates; nested instances; slice / view actuals; instances
created inside a concurrent context).  Every tree is compiled twice: hierarchically and with the
leaf logic (the same Python functions) inlined in the parent.  z3 proves the two emitted designs
produce equal outputs for all input sequences up to K clocks from power-up (combinational trees:
all inputs).  The emitted interface, unit count and unit order are read off the elaborated text."""
from __future__ import annotations
import itertools
import random
import z3

from ..core import Reporter, Workdir, text_hash, check_sat
from .. import dom as D
from .. import vhdl_sim as VS
from ..vhdl_parse import Illegal
from ..vhdl_types import TVec, TStd, eval_model
from ..bmc import compile_design, _install_init

HEADER = '''from __future__ import annotations
import cohdl
from cohdl import Bit, BitVector, Unsigned, Signed, Port, Signal, Variable, Null, Full, std


def f_comb(a, b):
    return (a + b) ^ a


def f_mix(a, b):
    return (a & b) + 1


def f_bits(x):
    return x[1] @ x[0]


class LeafComb(cohdl.Entity):
    a = Port.input(Unsigned[3])
    b = Port.input(Unsigned[3])
    o = Port.output(Unsigned[3])

    def architecture(self):
        @std.concurrent
        def logic():
            self.o <<= f_comb(self.a, self.b)


class LeafMix(cohdl.Entity):
    a = Port.input(Unsigned[3])
    b = Port.input(Unsigned[3])
    o = Port.output(Unsigned[3])

    def architecture(self):
        @std.concurrent
        def logic():
            self.o <<= f_mix(self.a, self.b)


class LeafBits(cohdl.Entity):
    x = Port.input(BitVector[2])
    o = Port.output(BitVector[2])

    def architecture(self):
        @std.concurrent
        def logic():
            self.o <<= f_bits(self.x)


class LeafReg(cohdl.Entity):
    clk = Port.input(Bit)
    a = Port.input(Unsigned[3])
    o = Port.output(Unsigned[3], default=Null)

    def architecture(self):
        @std.sequential(std.Clock(self.clk))
        def proc():
            self.o <<= self.a + 1


class LeafCnt(cohdl.Entity):
    clk = Port.input(Bit)
    en = Port.input(Bit)
    o = Port.output(Unsigned[3], default=Null)

    def architecture(self):
        @std.sequential(std.Clock(self.clk))
        def proc():
            if self.en:
                self.o <<= self.o + 1


class LeafCoro(cohdl.Entity):
    clk = Port.input(Bit)
    go = Port.input(Bit)
    a = Port.input(Unsigned[3])
    o = Port.output(Unsigned[3], default=Null)

    def architecture(self):
        @std.sequential(std.Clock(self.clk))
        async def proc():
            await self.go
            self.o <<= self.a
            await cohdl.true
            self.o <<= self.a + self.o


class Mid(cohdl.Entity):
    clk = Port.input(Bit)
    a = Port.input(Unsigned[3])
    b = Port.input(Unsigned[3])
    o = Port.output(Unsigned[3])

    def architecture(self):
        t = Signal[Unsigned[3]](name="mid_t")
        LeafComb(a=self.a, b=self.b, o=t)
        LeafReg(clk=self.clk, a=t, o=self.o)

'''

PORTS = ["    clk = Port.input(Bit)", "    x = Port.input(Unsigned[3])", "    y = Port.input(Unsigned[3])", "    en = Port.input(Bit)", "    v = Port.input(BitVector[4])",
         "    o1 = Port.output(Unsigned[3])", "    o2 = Port.output(Unsigned[3])", "    ob = Port.output(BitVector[2])"]
DECLARED = [("clk", "in", "std_logic"), ("x", "in", "unsigned(2 downto 0)"), ("y", "in", "unsigned(2 downto 0)"), ("en", "in", "std_logic"), ("v", "in", "std_logic_vector(3 downto 0)"),
            ("o1", "out", "unsigned(2 downto 0)"), ("o2", "out", "unsigned(2 downto 0)"), ("ob", "out", "std_logic_vector(1 downto 0)")]

# each tree: (key, sequential?, hierarchical architecture lines, flat architecture lines, leaf templates used)
TREES = [
    ("comb-single", False,
     ["LeafComb(a=self.x, b=self.y, o=self.o1)", "LeafMix(a=self.y, b=self.x, o=self.o2)", "LeafBits(x=self.v[1:0], o=self.ob)"],
     ["@std.concurrent", "def l():", "    self.o1 <<= f_comb(self.x, self.y)", "    self.o2 <<= f_mix(self.y, self.x)", "    self.ob <<= f_bits(self.v[1:0])"],
     {"LeafComb", "LeafMix", "LeafBits"}),
    ("comb-chain-repeated-template", False,
     ["s1 = Signal[Unsigned[3]](name='s1')", "s2 = Signal[Unsigned[3]](name='s2')", "LeafComb(a=self.x, b=self.y, o=s1)", "LeafComb(a=s1, b=self.x, o=s2)", "LeafComb(a=s2, b=s1, o=self.o1)",
      "LeafMix(a=s1, b=s2, o=self.o2)", "LeafBits(x=self.v[3:2], o=self.ob)"],
     ["@std.concurrent", "def l():", "    s1 = f_comb(self.x, self.y)", "    s2 = f_comb(s1, self.x)", "    self.o1 <<= f_comb(s2, s1)", "    self.o2 <<= f_mix(s1, s2)", "    self.ob <<= f_bits(self.v[3:2])"],
     {"LeafComb", "LeafMix", "LeafBits"}),
    ("view-actuals", False,
     ["sb = Signal[BitVector[3]](name='sb')", "LeafComb(a=self.v[2:0].unsigned, b=self.y, o=self.o1)", "LeafMix(a=self.x, b=self.v[3:1].unsigned, o=self.o2)", "LeafBits(x=self.x[2:1], o=self.ob)"],
     ["@std.concurrent", "def l():", "    self.o1 <<= f_comb(self.v[2:0].unsigned, self.y)", "    self.o2 <<= f_mix(self.x, self.v[3:1].unsigned)", "    self.ob <<= f_bits(self.x[2:1])"],
     {"LeafComb", "LeafMix", "LeafBits"}),
    ("inside-concurrent-context", False,
     ["@std.concurrent", "def l():", "    LeafComb(a=self.x, b=self.y, o=self.o1)", "    self.o2 <<= self.x - self.y", "    LeafBits(x=self.v[1:0], o=self.ob)"],
     ["@std.concurrent", "def l():", "    self.o1 <<= f_comb(self.x, self.y)", "    self.o2 <<= self.x - self.y", "    self.ob <<= f_bits(self.v[1:0])"],
     {"LeafComb", "LeafBits"}),
    ("registered", True,
     ["LeafReg(clk=self.clk, a=self.x, o=self.o1)", "LeafCnt(clk=self.clk, en=self.en, o=self.o2)", "LeafBits(x=self.v[2:1], o=self.ob)"],
     ["r1 = Signal[Unsigned[3]](Null, name='r1')", "r2 = Signal[Unsigned[3]](Null, name='r2')",
      "@std.sequential(std.Clock(self.clk))", "def p1():", "    r1.next = self.x + 1",
      "@std.sequential(std.Clock(self.clk))", "def p2():", "    if self.en:", "        r2.next = r2 + 1",
      "@std.concurrent", "def l():", "    self.o1 <<= r1", "    self.o2 <<= r2", "    self.ob <<= f_bits(self.v[2:1])"],
     {"LeafReg", "LeafCnt", "LeafBits"}),
    ("pipeline-depth2-repeated", True,
     ["s1 = Signal[Unsigned[3]](name='s1')", "s2 = Signal[Unsigned[3]](name='s2')", "s3 = Signal[Unsigned[3]](name='s3')",
      "LeafReg(clk=self.clk, a=self.x, o=s1)", "LeafComb(a=s1, b=self.y, o=s2)", "LeafReg(clk=self.clk, a=s2, o=s3)", "LeafReg(clk=self.clk, a=s3, o=self.o1)",
      "LeafMix(a=s3, b=s1, o=self.o2)", "LeafBits(x=self.v[1:0], o=self.ob)"],
     ["r1 = Signal[Unsigned[3]](Null, name='r1')", "r2 = Signal[Unsigned[3]](Null, name='r2')", "r3 = Signal[Unsigned[3]](Null, name='r3')",
      "@std.sequential(std.Clock(self.clk))", "def p():", "    r1.next = self.x + 1", "    r2.next = f_comb(r1, self.y) + 1", "    r3.next = r2 + 1",
      "@std.concurrent", "def l():", "    self.o1 <<= r3", "    self.o2 <<= f_mix(r2, r1)", "    self.ob <<= f_bits(self.v[1:0])"],
     {"LeafReg", "LeafComb", "LeafMix", "LeafBits"}),
    ("nested-depth3", True,
     ["s1 = Signal[Unsigned[3]](name='s1')", "Mid(clk=self.clk, a=self.x, b=self.y, o=s1)", "Mid(clk=self.clk, a=s1, b=self.x, o=self.o1)", "LeafComb(a=s1, b=self.y, o=self.o2)", "LeafBits(x=self.v[1:0], o=self.ob)"],
     ["r1 = Signal[Unsigned[3]](Null, name='r1')", "r2 = Signal[Unsigned[3]](Null, name='r2')",
      "@std.sequential(std.Clock(self.clk))", "def p():", "    r1.next = f_comb(self.x, self.y) + 1", "    r2.next = f_comb(r1, self.x) + 1",
      "@std.concurrent", "def l():", "    self.o1 <<= r2", "    self.o2 <<= f_comb(r1, self.y)", "    self.ob <<= f_bits(self.v[1:0])"],
     {"Mid", "LeafComb", "LeafReg", "LeafBits"}),
    ("coroutine-leaf-twice", True,
     ["LeafCoro(clk=self.clk, go=self.en, a=self.x, o=self.o1)", "LeafCoro(clk=self.clk, go=self.v[0], a=self.y, o=self.o2)", "LeafBits(x=self.v[3:2], o=self.ob)"],
     ["r1 = Signal[Unsigned[3]](Null, name='r1')", "r2 = Signal[Unsigned[3]](Null, name='r2')",
      "@std.sequential(std.Clock(self.clk))", "async def p1():", "    await self.en", "    r1.next = self.x", "    await cohdl.true", "    r1.next = self.x + r1",
      "@std.sequential(std.Clock(self.clk))", "async def p2():", "    await self.v[0]", "    r2.next = self.y", "    await cohdl.true", "    r2.next = self.y + r2",
      "@std.concurrent", "def l():", "    self.o1 <<= r1", "    self.o2 <<= r2", "    self.ob <<= f_bits(self.v[3:2])"],
     {"LeafCoro", "LeafBits"}),
]


def design(name, body):
    return "\n".join([HEADER, f"class {name}(cohdl.Entity):"] + PORTS + ["    def architecture(self):"] + ["        " + b for b in body]) + "\n"


def interface_ok(lib, name):
    d = lib.designs[name.lower()]
    got = [(n, m, str(t)) for n, m, t in d.ports]
    return got == DECLARED, got


INPUTS = {"x": 3, "y": 3, "en": 1, "v": 4}
OUTPUTS = ["o1", "o2", "ob"]


def compare(stats, lib_h, lib_f, sequential, K, timeout_ms=120000):
    """-> ('ok', n) | ('diff', info) | ('unknown', why)"""
    sh, sf = VS.Sim(lib_h, tag="!H"), VS.Sim(lib_f, tag="!F")
    zero = {"clk": 0, **{n: 0 for n in INPUTS}}
    syms = []
    diff = False
    if not sequential:
        ins = {n: z3.BitVec(f"I!{n}", w) for n, w in INPUTS.items()}
        syms.append(ins)
        for s in (sh, sf):
            s.elaborate({"clk": 0, **ins})
        for o in OUTPUTS:
            diff = D.b_or(diff, D.b_not(D.v_eq(sh.read(o).x, sf.read(o).x, len_of(sh, o))))
    else:
        for s in (sh, sf):
            s.elaborate(zero)
        for i in range(K):
            ins = {n: z3.BitVec(f"I{i}!{n}", w) for n, w in INPUTS.items()}
            syms.append(ins)
            for s in (sh, sf):
                s.instant({"clk": 0, **ins})
                s.instant({"clk": 1})
            for o in OUTPUTS:
                diff = D.b_or(diff, D.b_not(D.v_eq(sh.read(o).x, sf.read(o).x, len_of(sh, o))))
    r, model = check_sat(stats, sh.constraints + sf.constraints + [diff], timeout_ms)
    if r == "unsat":
        return "ok", len(syms)
    if r == "unknown":
        return "unknown", "solver"
    trace = [{n: model.eval(sy[n], model_completion=True).as_long() for n in INPUTS} for sy in syms]
    inits = [{k: eval_model(model, v) for k, v in s.init_syms.items()} for s in (sh, sf)]
    # concrete replay of both designs
    outs = []
    for lib, init in ((lib_h, inits[0]), (lib_f, inits[1])):
        s = VS.Sim(lib, uninit="zero")
        _install_init(s, init)
        log = []
        if not sequential:
            s.elaborate({"clk": 0, **trace[0]})
            log.append({o: s.read(o).x for o in OUTPUTS})
        else:
            s.elaborate(zero)
            for step in trace:
                s.instant({"clk": 0, **step})
                s.instant({"clk": 1})
                log.append({o: s.read(o).x for o in OUTPUTS})
        outs.append(log)
    if outs[0] == outs[1]:
        return "unknown", "counterexample does not reproduce concretely"
    first = next(i for i, (a, b) in enumerate(zip(*outs)) if a != b)
    return "diff", {"clock": first, "trace": trace[:first + 1], "hierarchical": outs[0][first], "inlined": outs[1][first]}


def len_of(sim, name):
    t = sim.sig_t[name]
    return 1 if isinstance(t, TStd) else t.width


def run(tier: str) -> int:
    rep = Reporter("C12", tier, "translation_validation")
    wd = Workdir()
    counts = {}
    K = 6 if tier == "quick" else 12
    try:
        for key, seq, hier, flat, templates in TREES:
            th, eh = compile_design(wd, design("Top", hier), "Top", "c12h")
            tf, ef = compile_design(wd, design("Top", flat), "Top", "c12f")
            rep.stats.programs += 2
            if th is None or tf is None:
                which = "hierarchical" if th is None else "inlined"
                rep.violation(f"rejected|{key}|{which}", f"{key}: {which} design rejected: {eh or ef}", {"hier": design('Top', hier), "flat": design('Top', flat)})
                continue
            try:
                lib_h, lib_f = VS.Library(th), VS.Library(tf)
                for lib in (lib_h, lib_f):
                    for d in lib.order:
                        VS.Sim(lib, top=d.name)
            except Illegal as e:
                rep.violation(f"illegal|{key}|{e.rule}", f"{key}: emitted VHDL illegal: {e}", {"vhdl_hier": th, "vhdl_flat": tf})
                continue
            # interface / unit structure (deterministic reading of the elaborated text)
            ok, got = interface_ok(lib_h, "Top")
            if not ok:
                rep.violation(f"interface|{key}", f"{key}: emitted interface differs from the declared ports: {got}", {"vhdl": th})
            units = [d.name for d in lib_h.order]
            if len(units) != len(set(u.lower() for u in units)) or set(units) - {"Top"} != templates or units[-1] != "Top":
                rep.violation(f"units|{key}", f"{key}: emitted units {units}, expected one unit per template {sorted(templates)} followed by Top", {"vhdl": th})
            status, info = compare(rep.stats, lib_h, lib_f, seq, K)
            counts[status] = counts.get(status, 0) + 1
            if status == "ok":
                rep.stats.nontrivial.add(key)
                rep.stats.hashes.add(text_hash(th))
                rep.stats.sample({"tree": key, "units": units, "verdict": f"unsat: outputs of hierarchical and inlined design equal for all inputs ({'K=%d clocks' % K if seq else 'combinational'})"}, limit=3)
            elif status == "diff":
                rep.violation(f"behaviour|{key}", f"{key}: hierarchical design differs from the inlined one at clock {info['clock']}: {info['hierarchical']} vs {info['inlined']} for inputs {info['trace'][-1]}", {"vhdl_hier": th, "vhdl_flat": tf, **info})
            else:
                rep.inconclusive_query(f"{key}: {info}")
        rep.stats.units |= {"cohdl._core._context.Entity.__init__", "frontend ConvertPythonInstance.apply (templates)", "backend EntityInst (port map), Library.from_top_entity (unit order)", "_vhdl_assembler (ir.Entity / EntityTemplate)"}
        rep.assumptions += ["bounded for clocked trees: K=%d clocks from power-up, all registers have declared defaults; combinational trees: all inputs" % K,
                            "trees: depth <= 3, fan-out <= 3, repeated templates, slice and typed-view actuals, instances inside a concurrent context, combinational / registered / counter / coroutine leaves",
                            "the inlined design calls the same Python leaf functions; its own correctness is the subject of C01-C03"]
        return rep.finish({
            "programs": rep.stats.programs, "trees": len(TREES), "results": counts,
            "disagreements_checked": len(rep.violations), "distinct_nontrivial": len(rep.stats.nontrivial), "evaluations": len(TREES),
            "samples": rep.stats.samples or [{"tree": TREES[0][0]}],
        })
    finally:
        wd.close()
