"""C14 -- std.Fifo and std.Stack keep order, content and occupancy exact.
BMC from power-up with a ghost sequence model; per clock a symbolic request (push(v) / pop / both /
reset / none) under the documented preconditions."""
from __future__ import annotations
import itertools

from ..core import Reporter, Workdir
from .. import dom as D
from .. import vhdl_sim as VS
from ..vhdl_parse import Illegal
from ..bmc import Monitor, run_bmc, compile_design
from .c16 import HEADER, mux, bit

EW = 2  # element width


def fifo_design(N, contexts=2, delay=None):
    dl = "" if delay is None else f"delay={delay}"
    lines = [HEADER, "class W(cohdl.Entity):", "    clk = Port.input(Bit)", "    reset = Port.input(Bit)",
             f"    data_in = Port.input(Unsigned[{EW}])", "    push = Port.input(Bit)", "    pop = Port.input(Bit)",
             f"    data_out = Port.output(Unsigned[{EW}], default=Null)", f"    front = Port.output(Unsigned[{EW}])",
             "    empty = Port.output(Bit)", "    full = Port.output(Bit)", "    def architecture(self):",
             "        ctx = std.SequentialContext(std.Clock(self.clk), std.Reset(self.reset))",
             f"        fifo = std.Fifo[Unsigned[{EW}], {N}]({dl})",
             "        @std.concurrent", "        def logic():", "            self.front <<= fifo.front()", "            self.empty <<= fifo.empty()", "            self.full <<= fifo.full()"]
    if contexts == 2:
        lines += ["        @ctx", "        def producer():", "            if self.push:", "                fifo.push(self.data_in)",
                  "        @ctx", "        def consumer():", "            if self.pop:", "                self.data_out <<= fifo.pop()"]
    else:
        lines += ["        @ctx", "        def both():", "            if self.push:", "                fifo.push(self.data_in)",
                  "            if self.pop:", "                self.data_out <<= fifo.pop()"]
    return "\n".join(lines) + "\n"


class FifoMonitor(Monitor):
    """ghost queue of capacity N-1"""

    def __init__(self, N):
        super().__init__()
        self.cap = N - 1
        self.q = [0] * self.cap
        self.len = 0  # 3 bit payload
        self.last = 0  # data_out register (default Null)

    def step(self, i, ins, outs):
        LW = 3
        rst = bit(ins["reset"])
        push, pop = D.b_and(bit(ins["push"]), D.b_not(rst)), D.b_and(bit(ins["pop"]), D.b_not(rst))
        # documented preconditions
        self.assume(D.b_implies(bit(ins["push"]), D.b_not(D.v_eq(self.len, self.cap, LW))))
        self.assume(D.b_implies(bit(ins["pop"]), D.b_not(D.v_eq(self.len, 0, LW))))
        popped = self.q[0]
        # pop: shift
        q1 = [mux(pop, self.q[k + 1] if k + 1 < self.cap else 0, self.q[k], EW) for k in range(self.cap)]
        len1 = mux(pop, D.v_sub(self.len, 1, LW), self.len, LW)
        # push at position len1
        q2 = [mux(D.b_and(push, D.v_eq(len1, k, LW)), ins["data_in"], q1[k], EW) for k in range(self.cap)]
        len2 = mux(push, D.v_add(len1, 1, LW), len1, LW)
        self.q = [mux(rst, 0, v, EW) for v in q2]
        self.len = mux(rst, 0, len2, LW)
        self.last = mux(rst, 0, mux(pop, popped, self.last, EW), EW)
        nonempty = D.b_not(D.v_eq(self.len, 0, LW))
        self.check(D.b_eq(bit(outs["empty"]), D.b_not(nonempty)), "empty indication not exact")
        self.check(D.b_eq(bit(outs["full"]), D.v_eq(self.len, self.cap, LW)), "full indication not exact")
        self.check(D.v_eq(outs["data_out"], self.last, EW), "popped value differs from first-in element")
        self.check(D.b_implies(nonempty, D.v_eq(outs["front"], self.q[0], EW)), "front differs from oldest element")


def dfifo_design(N, txd, rxd, coro_consumer=False):
    """delayed Fifo: producer and consumer in two different contexts, each gating its request with the flag it sees
    (coro_consumer: the consumer is a coroutine using `await fifo.receive()`)"""
    a = ", ".join(f"{k}={v}" for k, v in (("tx_delay", txd), ("rx_delay", rxd)) if v)
    lines = [HEADER, "class W(cohdl.Entity):", "    clk = Port.input(Bit)", "    reset = Port.input(Bit)",
             f"    data_in = Port.input(Unsigned[{EW}])", "    push = Port.input(Bit)", "    pop = Port.input(Bit)",
             f"    data_out = Port.output(Unsigned[{EW}], default=Null)",
             "    pushed = Port.output(Bit, default=False)", "    popped = Port.output(Bit, default=False)",
             "    obs_full = Port.output(Bit, default=False)", "    obs_empty = Port.output(Bit, default=False)",
             f"    obs_front = Port.output(Unsigned[{EW}], default=Null)",
             "    def architecture(self):",
             "        ctx_p = std.SequentialContext(std.Clock(self.clk), std.Reset(self.reset))",
             "        ctx_c = std.SequentialContext(std.Clock(self.clk), std.Reset(self.reset))",
             f"        fifo = std.Fifo[Unsigned[{EW}], {N}]({a})",
             "        @ctx_p", "        def producer():", "            self.obs_full ^= fifo.full()",
             "            if self.push and not fifo.full():", "                fifo.push(self.data_in)", "                self.pushed ^= True",
             "        @ctx_c", "        def consumer():", "            self.obs_empty ^= fifo.empty()", "            self.obs_front <<= fifo.front()",
             "            if self.pop and not fifo.empty():", "                self.data_out <<= fifo.pop()", "                self.popped ^= True"]
    if coro_consumer:
        k = lines.index("        @ctx_c")
        lines = lines[:k] + ["        @ctx_c", "        async def consumer():", "            await self.pop", "            c14d = await fifo.receive()", "            self.data_out <<= c14d", "            self.popped ^= True"]
    return "\n".join(lines) + "\n"


class DFifoMonitor(Monitor):
    """ghost queue; the flags each side sees may lag (conservatively) by the index hand-over, never the other way:
    safety  -- an accepted pop returns the oldest pushed element, 'not full' implies room, 'not empty' implies content
    progress -- after D clocks without a pop the producer's full flag is exact, after D clocks without a push the
                consumer's empty flag is exact (D = 2*(tx+rx)+6: two rounds of the set/clear hand-over)"""

    def __init__(self, N, D_, coro_consumer=False):
        super().__init__()
        self.coro = coro_consumer
        self.cap = N - 1
        self.q = [0] * self.cap
        self.len = 0
        self.last = 0
        self.D = D_
        self.qpush = 0  # clocks since the last accepted push / pop (saturating, 5 bit)
        self.qpop = 0

    def step(self, i, ins, outs):
        LW, CW = 3, 5
        rst = bit(ins["reset"])
        pushed, popped = bit(outs["pushed"]), bit(outs["popped"])
        if self.coro:
            return self.step_coro(i, ins, outs, rst, pushed, popped)
        obs_full, obs_empty = bit(outs["obs_full"]), bit(outs["obs_empty"])
        nrst = D.b_not(rst)
        is_full, is_empty = D.v_eq(self.len, self.cap, LW), D.v_eq(self.len, 0, LW)
        self.check(D.b_implies(rst, D.b_not(D.b_or(pushed, popped))), "transfer during reset")
        self.check(D.b_implies(D.b_and(nrst, D.b_not(obs_full)), D.b_not(is_full)), "producer sees 'not full' while N-1 elements are stored")
        self.check(D.b_implies(D.b_and(nrst, D.b_not(obs_empty)), D.b_not(is_empty)), "consumer sees 'not empty' while nothing is stored")
        self.check(D.b_eq(pushed, D.b_and(nrst, D.b_and(bit(ins["push"]), D.b_not(obs_full)))), "wrapper: pushed")
        self.check(D.b_eq(popped, D.b_and(nrst, D.b_and(bit(ins["pop"]), D.b_not(obs_empty)))), "wrapper: popped")
        self.check(D.b_implies(D.b_and(nrst, D.v_ule(self.D, self.qpop, CW)), D.b_eq(obs_full, is_full)), "producer's full flag not exact after the hand-over settled")
        self.check(D.b_implies(D.b_and(nrst, D.v_ule(self.D, self.qpush, CW)), D.b_eq(obs_empty, is_empty)), "consumer's empty flag not exact after the hand-over settled")
        head = self.q[0]
        # front() as the consumer sees it in the clock it decides: the oldest stored element whenever it sees 'not empty'
        self.check(D.b_implies(D.b_and(nrst, D.b_not(obs_empty)), D.v_eq(outs["obs_front"], head, EW)), "front() in the consumer context differs from the oldest stored element")
        q1 = [mux(popped, self.q[k + 1] if k + 1 < self.cap else 0, self.q[k], EW) for k in range(self.cap)]
        len1 = mux(popped, D.v_sub(self.len, 1, LW), self.len, LW)
        q2 = [mux(D.b_and(pushed, D.v_eq(len1, k, LW)), ins["data_in"], q1[k], EW) for k in range(self.cap)]
        len2 = mux(pushed, D.v_add(len1, 1, LW), len1, LW)
        self.q = [mux(rst, 0, v, EW) for v in q2]
        self.len = mux(rst, 0, len2, LW)
        self.last = mux(rst, 0, mux(popped, head, self.last, EW), EW)
        self.check(D.v_eq(outs["data_out"], self.last, EW), "popped value differs from the oldest pushed element (loss, duplicate or reordering)")
        sat = lambda c: mux(D.v_eq(c, 31, CW), 31, D.v_add(c, 1, CW), CW)
        self.qpush = mux(D.b_or(rst, pushed), 0, sat(self.qpush), CW)
        self.qpop = mux(D.b_or(rst, popped), 0, sat(self.qpop), CW)


def _dfifo_step_coro(self, i, ins, outs, rst, pushed, popped):
    """consumer = coroutine with `await fifo.receive()`: every delivered element is the oldest stored one, nothing is delivered
    from an empty Fifo, the producer side is judged as before"""
    LW = 3
    obs_full = bit(outs["obs_full"])
    nrst = D.b_not(rst)
    is_full, is_empty = D.v_eq(self.len, self.cap, LW), D.v_eq(self.len, 0, LW)
    self.check(D.b_implies(rst, D.b_not(D.b_or(pushed, popped))), "transfer during reset")
    self.check(D.b_implies(D.b_and(nrst, D.b_not(obs_full)), D.b_not(is_full)), "producer sees 'not full' while N-1 elements are stored")
    self.check(D.b_eq(pushed, D.b_and(nrst, D.b_and(bit(ins["push"]), D.b_not(obs_full)))), "wrapper: pushed")
    self.check(D.b_implies(popped, D.b_not(is_empty)), "receive() delivered an element although nothing is stored (duplicate or stale word)")
    head = self.q[0]
    q1 = [mux(popped, self.q[k + 1] if k + 1 < self.cap else 0, self.q[k], EW) for k in range(self.cap)]
    len1 = mux(popped, D.v_sub(self.len, 1, LW), self.len, LW)
    q2 = [mux(D.b_and(pushed, D.v_eq(len1, k, LW)), ins["data_in"], q1[k], EW) for k in range(self.cap)]
    len2 = mux(pushed, D.v_add(len1, 1, LW), len1, LW)
    self.q = [mux(rst, 0, v, EW) for v in q2]
    self.len = mux(rst, 0, len2, LW)
    self.last = mux(rst, 0, mux(popped, head, self.last, EW), EW)
    self.check(D.v_eq(outs["data_out"], self.last, EW), "received value differs from the oldest pushed element (loss, duplicate or reordering)")


DFifoMonitor.step_coro = _dfifo_step_coro


def stack_design(N, mode):
    m = {"default": "", "no_overflow": "mode=std.StackMode.NO_OVERFLOW", "drop_old": "mode=std.StackMode.DROP_OLD"}[mode]
    lines = [HEADER, "class W(cohdl.Entity):", "    clk = Port.input(Bit)", "    reset = Port.input(Bit)",
             f"    data_in = Port.input(Unsigned[{EW}])", "    push = Port.input(Bit)", "    pop = Port.input(Bit)", "    clear = Port.input(Bit)",
             f"    data_out = Port.output(Unsigned[{EW}], default=Null)", f"    front = Port.output(Unsigned[{EW}], default=Null)",
             "    empty = Port.output(Bit)", "    full = Port.output(Bit)", "    size = Port.output(Unsigned[4])", "    def architecture(self):",
             "        ctx = std.SequentialContext(std.Clock(self.clk), std.Reset(self.reset))",
             f"        stack = std.Stack[Unsigned[{EW}], {N}]({m})",
             "        @std.concurrent", "        def logic():", "            self.empty <<= stack.empty()",
             "            self.full <<= stack.full()", "            self.size <<= stack.size()",
             "        @ctx", "        def proc():", "            if not stack.empty():", "                self.front <<= stack.front()",
             "            if self.push:", "                stack.push(self.data_in)",
             "            if self.pop:", "                self.data_out <<= stack.pop()", "            if self.clear:", "                stack.reset()"]
    return "\n".join(lines) + "\n"


class StackMonitor(Monitor):
    def __init__(self, N, drop_old):
        super().__init__()
        self.N, self.drop_old = N, drop_old
        self.s = [0] * N  # s[0] = oldest
        self.len = 0
        self.last = 0
        self.front = 0  # registered copy of the top element, sampled while non-empty (front is undefined while empty)

    def step(self, i, ins, outs):
        LW = 4
        N = self.N
        rst = bit(ins["reset"])
        push, pop, clear = bit(ins["push"]), bit(ins["pop"]), bit(ins["clear"])
        # at most one operation per clock
        self.assume(D.b_not(D.b_and(push, pop)))
        self.assume(D.b_not(D.b_and(push, clear)))
        self.assume(D.b_not(D.b_and(pop, clear)))
        full = D.v_eq(self.len, N, LW)
        if not self.drop_old:
            self.assume(D.b_implies(push, D.b_not(full)))
        self.assume(D.b_implies(pop, D.b_not(D.v_eq(self.len, 0, LW))))
        push, pop, clear = (D.b_and(x, D.b_not(rst)) for x in (push, pop, clear))
        top = self.s[0]
        for k in range(1, N):
            top = mux(D.v_eq(self.len, k + 1, LW), self.s[k], top, EW)
        drop = D.b_and(push, full)  # drop_old: discard the oldest, keep size
        new = []
        for k in range(N):
            shifted = self.s[k + 1] if k + 1 < N else ins["data_in"]
            v = self.s[k]
            v = mux(drop, shifted, v, EW)
            v = mux(D.b_and(D.b_and(push, D.b_not(full)), D.v_eq(self.len, k, LW)), ins["data_in"], v, EW)
            new.append(v)
        ln = mux(D.b_and(push, D.b_not(full)), D.v_add(self.len, 1, LW), mux(pop, D.v_sub(self.len, 1, LW), self.len, LW), LW)
        ln = mux(D.b_or(clear, rst), 0, ln, LW)
        self.last = mux(rst, 0, mux(pop, top, self.last, EW), EW)
        self.front = mux(rst, 0, mux(D.b_not(D.v_eq(self.len, 0, LW)), top, self.front, EW), EW)
        self.s, self.len = new, ln
        nonempty = D.b_not(D.v_eq(self.len, 0, LW))
        self.check(D.b_eq(bit(outs["empty"]), D.b_not(nonempty)), "empty indication not exact")
        self.check(D.b_eq(bit(outs["full"]), D.v_eq(self.len, N, LW)), "full indication not exact")
        self.check(D.v_eq(outs["size"], self.len, LW), "size not exact")
        self.check(D.v_eq(outs["data_out"], self.last, EW), "popped value is not the most recently pushed element")
        self.check(D.v_eq(outs["front"], self.front, EW), "front differs from top of stack")


def jobs(tier):
    js = []
    Ns = (3, 4) if tier == "quick" else (2, 3, 4, 5, 6)
    for N in Ns:
        for ctxs in (2, 1):
            K = 3 * N + 4
            js.append((f"Fifo|N={N}|contexts={ctxs}", fifo_design(N, ctxs), {"reset": 1, "data_in": EW, "push": 1, "pop": 1}, ["data_out", "front", "empty", "full"], K, lambda N=N: FifoMonitor(N)))
    dcfg = [(3, 1, 1, 0), (4, 1, 0, 0), (3, 0, 1, 0)] if tier == "quick" else [(N, t, r, 0) for N in (3, 4, 5) for t, r in ((1, 1), (1, 0), (0, 1), (2, 1), (2, 2))]
    for N, t, r, _ in dcfg:
        Dq = 2 * (t + r) + 6
        K = Dq + 2 * N + 2
        js.append((f"Fifo|N={N}|tx_delay={t}|rx_delay={r}|two contexts", dfifo_design(N, t, r), {"reset": 1, "data_in": EW, "push": 1, "pop": 1},
                   ["data_out", "pushed", "popped", "obs_full", "obs_empty", "obs_front"], K, lambda N=N, Dq=Dq: DFifoMonitor(N, Dq)))
    for N, t, r in ((3, 1, 1), (3, 2, 3)) if tier == "quick" else ((3, 1, 1), (3, 2, 3), (4, 1, 0), (4, 0, 1), (5, 2, 2)):
        K = 2 * (t + r) + 2 * N + 8
        js.append((f"Fifo|N={N}|tx_delay={t}|rx_delay={r}|coroutine consumer (receive)", dfifo_design(N, t, r, True), {"reset": 1, "data_in": EW, "push": 1, "pop": 1},
                   ["data_out", "pushed", "popped", "obs_full"], K, lambda N=N: DFifoMonitor(N, 0, True)))
    for N in Ns:
        for mode in ("default", "drop_old") if tier == "quick" else ("default", "no_overflow", "drop_old"):
            K = 3 * N + 4
            js.append((f"Stack|N={N}|mode={mode}", stack_design(N, mode), {"reset": 1, "data_in": EW, "push": 1, "pop": 1, "clear": 1},
                       ["data_out", "front", "empty", "full", "size"], K, lambda N=N, mode=mode: StackMonitor(N, mode == "drop_old")))
    return js


def run(tier: str) -> int:
    rep = Reporter("C14", tier, "model_checking")
    wd = Workdir()
    counts = {}
    states = transitions = 0
    try:
        for key, src, inputs, outputs, K, mk in jobs(tier):
            text, exc = compile_design(wd, src, "W", "c14")
            rep.stats.programs += 1
            if text is None:
                rep.violation(f"rejected|{key}", f"{key}: wrapper rejected: {type(exc).__name__}: {str(exc)[:200]}", {"source": src})
                continue
            try:
                lib = VS.Library(text)
                VS.Sim(lib)
            except Illegal as e:
                rep.violation(f"illegal|{key}", f"{key}: emitted VHDL illegal: {e}", {"source": src, "vhdl": text})
                continue
            status, info = run_bmc(rep.stats, lib, inputs, outputs, K, mk, timeout_ms=300000)
            counts[status] = counts.get(status, 0) + 1
            transitions += K
            states += K + 1
            if status == "ok":
                rep.stats.nontrivial.add(key)
                rep.stats.sample({"design": key, "K": K, "verdict": "unsat: popped values, order, flags equal the ghost sequence at every clock for all request sequences"}, limit=3)
            elif status == "violation":
                rep.violation(f"{key}", f"{key}: {info['failed'][0][0]} at clock {info['failed'][0][1]}; requests {info['trace'][:info['failed'][0][1] + 1] if isinstance(info['failed'][0][1], int) else ''}",
                              {"source": src, "vhdl": text, **info})
                rep.stats.extra["traces_validated"] = rep.stats.extra.get("traces_validated", 0) + 1
            else:
                rep.inconclusive_query(f"{key}: {status} {info}")
        rep.stats.units |= {"cohdl.std.utility.Fifo (push/pop/front/empty/full, _next_index)", "cohdl.std.utility.Stack (push/pop/reset/size, StackMode)", "std.Array get_elem/set_elem"}
        rep.assumptions += ["documented preconditions: no push when full (except Stack DROP_OLD), no pop when empty, at most one Stack operation per clock",
                            "BMC depth K = 3N+4 from power-up; 2-bit elements; capacities N as listed; requests and data symbolic at every clock",
                            "delayed (clock-domain-crossing) Fifo configurations are not covered by this check"]
        return rep.finish({
            "states": states, "transitions": transitions, "traces_validated_against_impl": rep.stats.extra.get("traces_validated", 0),
            "designs": rep.stats.programs, "design_results": counts,
            "samples": rep.stats.samples or [{"design": "Fifo"}],
            "distinct_nontrivial": len(rep.stats.nontrivial), "evaluations": rep.stats.programs,
        })
    finally:
        wd.close()
