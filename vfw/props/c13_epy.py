"""E-PY harness for C13: canonical parametrised types, subtype lattice, aliasing views.
Executed symbolically by CrossHair (widths, kinds, order of first use, view choices, contents
symbolic); the same functions are called natively for replays."""
from __future__ import annotations
import cohdl
from cohdl import BitVector, Unsigned, Signed, Bit, Signal, Variable, Temporary, Port, Array
from cohdl._core import _type_qualifier as TQ

_CACHED = [BitVector, Unsigned, Signed, Array, Signal, Variable, Temporary, Port]
for _name in ("NoresetSignal", "NoresetVariable", "Generic", "Constant"):
    if hasattr(TQ, _name) and hasattr(getattr(TQ, _name), "_SubTypes"):
        _CACHED.append(getattr(TQ, _name))
_SNAPSHOT = [(c, dict(c._SubTypes)) for c in _CACHED]


def reset_caches():
    """back to the import-time state: every class of this path is created lazily again"""
    for c, snap in _SNAPSHOT:
        c._SubTypes.clear()
        c._SubTypes.update(snap)


def conc(i, lo, hi):
    for k in range(lo, hi + 1):
        if i == k:
            return k
    return lo


KINDS = [BitVector, Unsigned, Signed]
QUALS = [Signal, Variable, Temporary]


def vec(k, n):
    return KINDS[k][n]


def canonical_ok(k1, n, k2, m, order, _reset=True) -> bool:
    """identical class object <=> equal parameters, in either order of first use"""
    if _reset:
        reset_caches()
    k1, k2, n, m, order = conc(k1, 0, 2), conc(k2, 0, 2), conc(n, 1, 8), conc(m, 1, 8), conc(order, 0, 1)
    if order == 0:
        a = vec(k1, n)
        b = vec(k2, m)
    else:
        b = vec(k2, m)
        a = vec(k1, n)
    a2 = vec(k1, n)
    if a is not a2:
        return False
    same = (k1 == k2 and n == m)
    if (a is b) != same:
        return False
    if a.width != n or b.width != m:
        return False
    # Unsigned[n] / Signed[n] are BitVector[n]; never each other; never of another width
    exp_sub = (k2 == 0 and n == m) or same
    if issubclass(a, b) != exp_sub:
        return False
    return True


def qualified_ok(q1, k1, n, q2, k2, m, order, _reset=True) -> bool:
    if _reset:
        reset_caches()
    q1, q2 = conc(q1, 0, 2), conc(q2, 0, 2)
    k1, k2, n, m, order = conc(k1, 0, 2), conc(k2, 0, 2), conc(n, 1, 6), conc(m, 1, 6), conc(order, 0, 1)
    if order == 0:
        A = QUALS[q1][vec(k1, n)]
        B = QUALS[q2][vec(k2, m)]
    else:
        B = QUALS[q2][vec(k2, m)]
        A = QUALS[q1][vec(k1, n)]
    if A is not QUALS[q1][vec(k1, n)]:
        return False
    same = q1 == q2 and k1 == k2 and n == m
    if (A is B) != same:
        return False
    exp_sub = q1 == q2 and ((k2 == 0 and n == m) or (k1 == k2 and n == m))
    if issubclass(A, B) != exp_sub:
        return False
    # Q[Unsigned[n]] <= Q[Unsigned], Q[BitVector]; never <= Q[Signed] (and vice versa)
    Q = QUALS[q1]
    if not issubclass(A, Q[BitVector]):
        return False
    if issubclass(A, Q[Unsigned]) != (k1 == 1):
        return False
    if issubclass(A, Q[Signed]) != (k1 == 2):
        return False
    return True


def port_ok(k, n, d, order) -> bool:
    """every port type is a signal type of the same wrapped type"""
    reset_caches()
    k, n, d, order = conc(k, 0, 2), conc(n, 1, 6), conc(d, 0, 1), conc(order, 0, 1)
    direction = [Port.Direction.INPUT, Port.Direction.OUTPUT][d]
    T = vec(k, n)
    if order == 0:
        P = Port[T, direction]
        S = Signal[T]
    else:
        S = Signal[T]
        P = Port[T, direction]
    if P is not Port[T, direction]:
        return False
    if not issubclass(P, S):
        return False
    other = Port[T, [Port.Direction.OUTPUT, Port.Direction.INPUT][d]]
    if P is other or issubclass(P, other):
        return False
    if issubclass(P, Signal[vec(k, n + 1)]):
        return False
    # the port is also a port / signal of every documented base of T (and of nothing unrelated)
    for j in range(3):
        rel = (j == 0) or (j == k)
        if issubclass(P, Port[KINDS[j], direction]) != rel:
            return False
        if issubclass(P, Port[vec(j, n), direction]) != rel:
            return False
        if issubclass(P, Signal[KINDS[j]]) != rel:
            return False
        if issubclass(P, Signal[vec(j, n)]) != rel:
            return False
        if issubclass(P, Port[vec(j, n + 1), direction]):
            return False
    if issubclass(P, Variable[T]) or issubclass(P, Temporary[T]):
        return False
    return True


def array_ok(k1, n, c1, k2, m, c2, _reset=True) -> bool:
    if _reset:
        reset_caches()
    k1, k2, n, m, c1, c2 = conc(k1, 0, 2), conc(k2, 0, 2), conc(n, 1, 4), conc(m, 1, 4), conc(c1, 1, 4), conc(c2, 1, 4)
    A = Array[vec(k1, n), c1]
    B = Array[vec(k2, m), c2]
    same = k1 == k2 and n == m and c1 == c2
    return (A is B) == same and A is Array[vec(k1, n), c1] and (issubclass(A, B) == same)


def respec_ok(fam, k1, n, k2, m, order) -> bool:
    """Indexing an already specialised class -- Unsigned[n][m], Signal[T][T2], Array[T, c][T2, c2] -- as the FIRST request
    of the new parameters is either refused or yields the canonical class: afterwards the lattice is the documented one."""
    reset_caches()
    fam, k1, k2, n, m, order = conc(fam, 0, 2), conc(k1, 0, 2), conc(k2, 0, 2), conc(n, 1, 4), conc(m, 1, 4), conc(order, 0, 1)
    try:
        if fam == 0:
            vec(k1, n)[m]
        elif fam == 1:
            QUALS[order][vec(k1, n)][vec(k2, m)]
        else:
            Array[vec(k1, n), 2][vec(k2, m), 3]
    except AssertionError:
        pass
    if fam == 0:
        return canonical_ok(k1, m, k1, n, order, _reset=False) and canonical_ok(k1, m, k2, n, 1 - order, _reset=False)
    if fam == 1:
        return qualified_ok(order, k2, m, order, k1, n, 0, _reset=False) and qualified_ok(order, k2, m, 2 - order, k1, n, 1, _reset=False)
    return array_ok(k2, m, 3, k1, n, 2, _reset=False) and array_ok(k2, m, 3, k2, m, 3, _reset=False)


def _bits(v, w):
    return "".join("1" if (v >> i) & 1 else "0" for i in range(w - 1, -1, -1))


def views_ok(W, k, val, wv, wsel, hi, lo, newbits, q) -> bool:
    """write through one view of a W-bit object, read through another: same storage, root, qualifier"""
    top = (1 << W) - 1
    k, val, wv, wsel, q = conc(k, 0, 2), conc(val, 0, top), conc(wv, 0, 4), conc(wsel, 0, 4), conc(q, 0, 1)
    hi, lo, newbits = conc(hi, 0, W - 1), conc(lo, 0, W - 1), conc(newbits, 0, top)
    if lo > hi:
        return True
    Q = [Signal, Variable][q]
    obj = Q[vec(k, W)](_bits(val, W))
    views = [obj, obj.unsigned, obj.signed, obj.bitvector, obj[W - 1:0]]
    w = views[wv]
    width = hi - lo + 1
    part = (newbits >> lo) & ((1 << width) - 1)
    target = w[hi:lo]
    if target._root is not obj._root:
        return False
    if not isinstance(target, Q):
        return False
    target._value._assign(BitVector[width](_bits(part, width)))
    mask = ((1 << width) - 1) << lo
    want = (val & ~mask) | (part << lo)
    r = views[wsel]
    got = TQ.TypeQualifier.decay(r)
    if int(str(got.bitvector), 2) != want:
        return False
    # single bits alias the same storage too
    for i in range(W):
        b = TQ.TypeQualifier.decay(obj[i])
        if (1 if b else 0) != ((want >> i) & 1):
            return False
    if r._root is not obj._root or not isinstance(r, Q):
        return False
    return True


def _oob_obj(W, k, q):
    x = vec(k, W)(_bits(0, W)) if k == 0 else vec(k, W)(BitVector[W](_bits(0, W)))
    return x if q == 2 else [Signal, Variable][q][vec(k, W)](x)


_REFUSED = (AssertionError, IndexError, ValueError, TypeError, RuntimeError)


def oob_slice_ok(W, k, hi, lo, q) -> bool:
    """a slice that does not lie inside the object is refused (never silently clipped or wrapped to bits that exist);
    a slice that does lie inside has exactly the requested width"""
    k, q = conc(k, 0, 2), conc(q, 0, 2)
    hi, lo = conc(hi, -3, W + 2), conc(lo, -3, W + 2)
    obj = _oob_obj(W, k, q)
    try:
        got = TQ.TypeQualifier.decay(obj[hi:lo]).width
    except _REFUSED:
        got = None
    if 0 <= lo <= hi <= W - 1:
        return got == hi - lo + 1
    return got is None


def oob_index_ok(W, k, i, q) -> bool:
    """indices 0..W-1 are accepted, indices >= W or < -W refused (negative indices inside -W..-1 are not judged)"""
    k, q, i = conc(k, 0, 2), conc(q, 0, 2), conc(i, -W - 2, W + 2)
    obj = _oob_obj(W, k, q)
    try:
        obj[i]
        accepted = True
    except _REFUSED:
        accepted = False
    if i >= W or i < -W:
        return not accepted
    if 0 <= i < W:
        return accepted
    return True


def value_views_ok(W, k, val, hi, lo, newbits, path) -> bool:
    """views of a plain value (not qualified): x.unsigned / x.signed / x.bitvector and slices of them alias x"""
    top = (1 << W) - 1
    k, val, path = conc(k, 0, 2), conc(val, 0, top), conc(path, 0, 7)
    hi, lo, newbits = conc(hi, 0, W - 1), conc(lo, 0, W - 1), conc(newbits, 0, top)
    if lo > hi:
        return True
    x = vec(k, W)(_bits(val, W)) if k == 0 else vec(k, W)(BitVector[W](_bits(val, W)))
    width = hi - lo + 1
    part = (newbits >> lo) & ((1 << width) - 1)
    pv = BitVector[width](_bits(part, width))
    full = BitVector[W](_bits((val & ~(((1 << width) - 1) << lo)) | (part << lo), W))
    whole = width == W
    if path == 0:
        x.bitvector[hi:lo]._assign(pv)
    elif path == 1:
        x.unsigned[hi:lo]._assign(pv)
    elif path == 2:
        x.signed[hi:lo]._assign(pv)
    elif path == 3:
        x[hi:lo].bitvector._assign(pv)
    elif path == 4:
        x[hi:lo].unsigned.bitvector._assign(pv)
    elif path == 5:
        x[hi:lo].signed.bitvector._assign(pv)
    elif path == 6:
        x.bitvector.unsigned.bitvector[hi:lo]._assign(pv)
    else:
        x[W - 1:0][hi:lo]._assign(pv)
    mask = ((1 << width) - 1) << lo
    want = (val & ~mask) | (part << lo)
    return int(str(x.bitvector), 2) == want


def array_copy_ok(k, n, c, val, idx, newv, how) -> bool:
    """an Array (plain or qualified) constructed from / copied from another Array does not share element storage with it"""
    k, n, c, how = conc(k, 0, 2), conc(n, 1, 3), conc(c, 1, 3), conc(how, 0, 3)
    top = (1 << n) - 1
    val, idx, newv = conc(val, 0, top), conc(idx, 0, 2), conc(newv, 0, top)
    if idx >= c:
        return True
    T = Array[vec(k, n), c]
    elem = lambda x: (vec(k, n)(_bits(x, n)) if k == 0 else vec(k, n)(BitVector[n](_bits(x, n))))
    src = T([elem(val) for _ in range(c)])
    if how == 0:
        dst = T(src)
        dst[idx]._assign(elem(newv))
        other = src
    elif how == 1:
        dst = src.copy()
        dst[idx]._assign(elem(newv))
        other = src
    elif how == 2:
        s1 = Signal[T](src)
        s2 = Signal[T](src)
        TQ.TypeQualifier.decay(s1)[idx]._assign(elem(newv))
        other = TQ.TypeQualifier.decay(s2)
        if int(str(src[idx].bitvector), 2) != val:
            return False
    else:
        s1 = Signal[T](src)
        cp = s1.copy()
        TQ.TypeQualifier.decay(cp)[idx]._assign(elem(newv))
        other = TQ.TypeQualifier.decay(s1)
    return int(str(other[idx].bitvector), 2) == val
