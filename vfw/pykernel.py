"""Integer kernels of the real Python code, translated from the AST into QF_BVFP (z3).

C09 / C19 contain compile-time integer computations that go through CPython floats (`int(lhs / rhs)`,
`int(val / 2**exp)`).  CrossHair models floats as reals and cannot see the rounding of float64, so these kernels are
translated here: Python ints -> signed bit-vectors of N bits (operands constrained to a stated range, N chosen so that no
intermediate of the kernel can overflow), `/` between ints -> the correctly rounded exact quotient (what CPython's long_true_divide computes; encoded through
binary128, see Translator.expr), `/` with a float operand -> float64 division after converting the int operand, `int(float)` -> truncation toward zero, `//` and `%` -> floor
division / modulus, abs / unary minus / comparisons / if-expressions / early returns.  Module-level helper functions that a
kernel calls are inlined from their own source.

The encoding is regenerated from the current source on every run: `kernels_of` parses the function and returns every
maximal arithmetic expression over the given integer names that contains a division, modulus or helper call."""
from __future__ import annotations
import ast
import inspect
import textwrap
import z3

FP = z3.Float64()
QUAD = z3.FPSort(15, 113)
RNE, RTZ = z3.RNE(), z3.RTZ()


def int_ops(a, b):
    """the four integer divisions of two signed bit-vectors, stated on magnitudes (the SMT-LIB definitions of bvsdiv / bvsrem;
    floor division and modulus are CPython's `//` and `%`)"""
    ma, mb = z3.If(a < 0, -a, a), z3.If(b < 0, -b, b)
    uq, ur = z3.UDiv(ma, mb), z3.URem(ma, mb)
    q = z3.If((a < 0) == (b < 0), uq, -uq)
    r = z3.If(a >= 0, ur, -ur)
    inexact_opposite = z3.And(r != 0, (a < 0) != (b < 0))
    return {"truncdiv": q, "rem": r, "floordiv": z3.If(inexact_opposite, q - 1, q), "mod": z3.If(inexact_opposite, r + b, r)}


class Untranslatable(Exception):
    pass


class _Ret(Exception):
    pass


class Translator:
    def __init__(self, N, helpers, consts=None):
        self.N = N
        self.helpers = helpers      # name -> python function (module-level helpers, inlined)
        self.consts = consts or {}  # name -> concrete python int / float
        self.depth = 0

    # ---- values: ("int", bv) | ("float", fp) | ("bool", boolref)
    def const(self, v):
        if isinstance(v, bool):
            return ("bool", z3.BoolVal(v))
        if isinstance(v, int):
            return ("int", z3.BitVecVal(v, self.N))
        if isinstance(v, float):
            return ("float", z3.FPVal(v, FP))
        raise Untranslatable(f"constant {v!r}")

    def to_float(self, v):
        if v[0] == "float":
            return v[1]
        if v[0] == "int":
            return z3.fpSignedToFP(RNE, v[1], FP)
        raise Untranslatable("bool as float")

    def to_bool(self, v):
        if v[0] == "bool":
            return v[1]
        if v[0] == "int":
            return v[1] != 0
        raise Untranslatable("float as bool")

    def floordiv(self, a, b):
        return int_ops(a, b)["floordiv"]

    def expr(self, node, env):
        if isinstance(node, ast.Constant):
            return self.const(node.value)
        if isinstance(node, ast.Name):
            if node.id in env:
                return env[node.id]
            if node.id in self.consts:
                return self.const(self.consts[node.id])
            raise Untranslatable(f"name {node.id}")
        if isinstance(node, ast.Attribute):
            key = ast.unparse(node)
            if key in self.consts:
                return self.const(self.consts[key])
            raise Untranslatable(f"attribute {key}")
        if isinstance(node, ast.UnaryOp):
            v = self.expr(node.operand, env)
            if isinstance(node.op, ast.USub):
                return ("float", z3.fpNeg(v[1])) if v[0] == "float" else ("int", -v[1])
            if isinstance(node.op, ast.UAdd):
                return v
            if isinstance(node.op, ast.Not):
                return ("bool", z3.Not(self.to_bool(v)))
            raise Untranslatable(ast.dump(node.op))
        if isinstance(node, ast.BinOp):
            a, b = self.expr(node.left, env), self.expr(node.right, env)
            op = node.op
            if isinstance(op, ast.Pow):
                # constant exponent only (2 ** k): evaluated concretely
                ca, cb = self._concrete(a), self._concrete(b)
                if ca is None or cb is None:
                    raise Untranslatable("symbolic power")
                return self.const(ca ** cb)
            if isinstance(op, ast.Div) and a[0] == "int" and b[0] == "int":
                # CPython's int / int is the correctly rounded exact quotient (long_true_divide), not the quotient of the rounded
                # operands: both operands are exact in binary128 (N <= 113 bits of magnitude are never reached: operands are
                # constrained to 64 bits), the quotient is rounded to binary128 and then to binary64; this double rounding is
                # innocuous for division because 113 >= 2 * 53 + 2 (Figueroa)
                qa, qb = z3.fpSignedToFP(RNE, a[1], QUAD), z3.fpSignedToFP(RNE, b[1], QUAD)
                return ("float", z3.fpFPToFP(RNE, z3.fpDiv(RNE, qa, qb), FP))
            if isinstance(op, ast.Div) or "float" in (a[0], b[0]):
                fa, fb = self.to_float(a), self.to_float(b)
                f = {ast.Div: z3.fpDiv, ast.Mult: z3.fpMul, ast.Add: z3.fpAdd, ast.Sub: z3.fpSub}.get(type(op))
                if f is None:
                    raise Untranslatable(f"float {ast.dump(op)}")
                return ("float", f(RNE, fa, fb))
            x, y = a[1], b[1]
            if isinstance(op, ast.Add):
                return ("int", x + y)
            if isinstance(op, ast.Sub):
                return ("int", x - y)
            if isinstance(op, ast.Mult):
                return ("int", x * y)
            nonneg = len(a) > 2 and len(b) > 2
            if isinstance(op, ast.FloorDiv):
                # operands known to be non-negative (results of abs()): plain unsigned division, the form the exact operation is stated in
                return ("int", z3.UDiv(x, y), "nonneg") if nonneg else ("int", self.floordiv(x, y))
            if isinstance(op, ast.Mod):
                return ("int", z3.URem(x, y), "nonneg") if nonneg else ("int", int_ops(x, y)["mod"])   # sign of the divisor
            if isinstance(op, ast.LShift):
                return ("int", x << y)
            if isinstance(op, ast.RShift):
                return ("int", x >> y)
            raise Untranslatable(ast.dump(op))
        if isinstance(node, ast.Compare):
            left = self.expr(node.left, env)
            conds = []
            for op, right_n in zip(node.ops, node.comparators):
                right = self.expr(right_n, env)
                if "float" in (left[0], right[0]):
                    x, y = self.to_float(left), self.to_float(right)
                    c = {ast.Lt: z3.fpLT, ast.LtE: z3.fpLEQ, ast.Gt: z3.fpGT, ast.GtE: z3.fpGEQ, ast.Eq: z3.fpEQ, ast.NotEq: lambda p, q: z3.Not(z3.fpEQ(p, q))}[type(op)](x, y)
                elif left[0] == "bool" and right[0] == "bool":
                    c = (left[1] == right[1]) if isinstance(op, ast.Eq) else (left[1] != right[1])
                else:
                    x, y = left[1], right[1]
                    c = {ast.Lt: lambda: x < y, ast.LtE: lambda: x <= y, ast.Gt: lambda: x > y, ast.GtE: lambda: x >= y, ast.Eq: lambda: x == y, ast.NotEq: lambda: x != y}[type(op)]()
                conds.append(c)
                left = right
            return ("bool", z3.And(*conds) if len(conds) > 1 else conds[0])
        if isinstance(node, ast.BoolOp):
            vs = [self.to_bool(self.expr(v, env)) for v in node.values]
            return ("bool", z3.And(*vs) if isinstance(node.op, ast.And) else z3.Or(*vs))
        if isinstance(node, ast.IfExp):
            c = self.to_bool(self.expr(node.test, env))
            a, b = self.expr(node.body, env), self.expr(node.orelse, env)
            return self.merge(c, a, b)
        if isinstance(node, ast.Call) and isinstance(node.func, ast.Name) and node.func.id == "isinstance" and len(node.args) == 2:
            v = self.expr(node.args[0], env)
            t = node.args[1]
            names = [e.id for e in t.elts] if isinstance(t, ast.Tuple) else [t.id] if isinstance(t, ast.Name) else None
            if names is None or any(n not in ("int", "float", "bool") for n in names):
                raise Untranslatable("isinstance with " + ast.unparse(t))
            return ("bool", z3.BoolVal(v[0] in names))
        if isinstance(node, ast.Call) and isinstance(node.func, ast.Name):
            fn = node.func.id
            args = [self.expr(a, env) for a in node.args]
            if fn == "int" and len(args) == 1:
                v = args[0]
                if v[0] == "float":
                    return ("int", z3.fpToSBV(RTZ, v[1], z3.BitVecSort(self.N)))
                if v[0] == "int":
                    return v
            if fn == "abs" and len(args) == 1 and args[0][0] == "int":
                x = args[0][1]
                return ("int", z3.If(x < 0, -x, x), "nonneg")   # no overflow: operands are constrained well inside the N-bit range
            if fn == "abs" and len(args) == 1 and args[0][0] == "float":
                return ("float", z3.fpAbs(args[0][1]))
            if fn == "float" and len(args) == 1:
                return ("float", self.to_float(args[0]))
            if fn in self.helpers:
                return self.call(self.helpers[fn], args)
            raise Untranslatable(f"call {fn}")
        raise Untranslatable(ast.dump(node)[:80])

    def _concrete(self, v):
        s = z3.simplify(v[1])
        if v[0] == "int" and z3.is_bv_value(s):
            return s.as_signed_long()
        return None

    def merge(self, c, a, b):
        if a is None:
            return b
        if b is None:
            return a
        if a[0] != b[0]:
            if "float" in (a[0], b[0]):
                return ("float", z3.If(c, self.to_float(a), self.to_float(b)))
            raise Untranslatable("merge of different kinds")
        if len(a) > 2 and len(b) > 2:
            return (a[0], z3.If(c, a[1], b[1]), "nonneg")
        return (a[0], z3.If(c, a[1], b[1]))

    # ---- statement level: functions made of assignments, if / else and returns
    def call(self, fn, args):
        self.depth += 1
        if self.depth > 6:
            raise Untranslatable("helper recursion")
        tree = ast.parse(textwrap.dedent(inspect.getsource(fn))).body[0]
        params = [a.arg for a in tree.args.posonlyargs + tree.args.args]
        if len(params) != len(args):
            raise Untranslatable("helper arity")
        env = dict(zip(params, args))
        res = self.block(tree.body, env, z3.BoolVal(True))
        self.depth -= 1
        if res is None:
            raise Untranslatable("helper without return value")
        return res

    def function(self, fn, env):
        """value returned by fn (statement-level translation) with its parameters bound by name in env (others unbound)"""
        tree = ast.parse(textwrap.dedent(inspect.getsource(fn))).body[0]
        res = self.block(tree.body, dict(env), None)
        if res is None:
            raise Untranslatable("function without return value")
        return res

    def block(self, stmts, env, _path):
        """-> value returned by the statement list (merged over paths) or None when control falls through; env is updated"""
        for k, st in enumerate(stmts):
            if isinstance(st, ast.Expr) and isinstance(st.value, ast.Constant):
                continue  # docstring
            if isinstance(st, ast.Assign) and len(st.targets) == 1 and isinstance(st.targets[0], ast.Name):
                env[st.targets[0].id] = self.expr(st.value, env)
                continue
            if isinstance(st, ast.Return):
                return self.expr(st.value, env)
            if isinstance(st, ast.Assert):
                continue
            if isinstance(st, ast.If):
                c = self.to_bool(self.expr(st.test, env))
                env_t, env_f = dict(env), dict(env)
                rt = self.block(st.body, env_t, None)
                rf = self.block(st.orelse, env_f, None) if st.orelse else None
                rest = stmts[k + 1:]
                if rt is not None and rf is not None:
                    return self.merge(c, rt, rf)
                # merge environments of the branches that fall through
                def merged_env():
                    out = {}
                    for n in set(env_t) | set(env_f):
                        a, b = env_t.get(n), env_f.get(n)
                        if a is None or b is None:
                            continue
                        out[n] = a if a is b else self.merge(c, a, b)
                    return out
                if rt is None and rf is None:
                    env.clear()
                    env.update(merged_env())
                    continue
                if rt is not None:
                    env.clear()
                    env.update(env_f)
                    tail = self.block(rest, env, None)
                    return None if tail is None else self.merge(c, rt, tail)
                env.clear()
                env.update(env_t)
                tail = self.block(rest, env, None)
                return None if tail is None else self.merge(c, tail, rf)
            raise Untranslatable(f"statement {type(st).__name__}")
        return None


# ---------------------------------------------------------------- kernel extraction
_ARITH = (ast.Div, ast.FloorDiv, ast.Mod)


def _contains_division(node, helper_names):
    for n in ast.walk(node):
        if isinstance(n, ast.BinOp) and isinstance(n.op, _ARITH):
            return True
        if isinstance(n, ast.Call) and isinstance(n.func, ast.Name) and n.func.id in helper_names:
            return True
    return False


def _pure(node, int_names, helper_names, const_names):
    """only integer names, constants, arithmetic, int()/abs()/helper calls"""
    for n in ast.walk(node):
        if isinstance(n, ast.Name):
            if n.id not in int_names and n.id not in helper_names and n.id not in const_names and n.id not in ("int", "abs", "float"):
                return False
        elif isinstance(n, ast.Call):
            if not isinstance(n.func, ast.Name):
                return False
        elif isinstance(n, (ast.Attribute, ast.Subscript, ast.Lambda, ast.Starred, ast.keyword)):
            return False
    return True


def kernels_of(fn, int_names, helper_names=(), const_names=()):
    """maximal arithmetic expressions of fn over int_names that contain a division / modulus / helper call
    -> [(source text, ast expression, line number)]"""
    src = textwrap.dedent(inspect.getsource(fn))
    tree = ast.parse(src)
    found = []

    def visit(node):
        if isinstance(node, ast.expr) and _pure(node, int_names, helper_names, const_names) and _contains_division(node, helper_names):
            found.append((ast.unparse(node), node, getattr(node, "lineno", 0)))
            return
        for ch in ast.iter_child_nodes(node):
            visit(ch)
    visit(tree)
    return found
