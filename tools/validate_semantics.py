#!/usr/bin/env python3
"""Validation of the trusted base (DESIGN 2.8): runs the upstream cocotb benches of /repo/tests/reference_builds
(validated upstream with ghdl) against the VHDL interpreter of /verif through a small cocotb look-alike
(vfw/cocoshim.py).  Not a property check: it answers "does my reading of the emitted VHDL agree with a real
simulator on the designs and stimuli the upstream authors wrote", and it re-runs upstream tests that cannot run
in this sandbox after every repair made to /repo.

usage: validate_semantics.py [--jobs N] [--filter SUBSTR] [--timeout SEC] [--out FILE]
exit 0 when no bench fails (skips: cocotbext, extern VHDL sources, constructs outside the VHDL subset)."""
from __future__ import annotations
import argparse
import importlib
import inspect
import json
import multiprocessing as mp
import os
import pkgutil
import random
import signal
import sys
import time
import traceback
import unittest

HERE = os.path.dirname(os.path.dirname(os.path.abspath(__file__)))
REPO = os.environ.get("VERIF_REPO", "/repo")
sys.path.insert(0, HERE)
sys.path.insert(0, os.path.join(REPO, "tests"))


def list_modules():
    from vfw import cocoshim
    cocoshim.install()
    import reference_builds
    return sorted(m.name for m in pkgutil.walk_packages(reference_builds.__path__, "reference_builds.") if not m.ispkg)


class _Timeout(Exception):
    pass


def _alarm(sig, frm):
    raise _Timeout()


def run_module(args):
    name, timeout = args
    from vfw import cocoshim
    from vfw import vhdl_sim as VS
    from vfw.vhdl_parse import Illegal, Unsupported
    cocoshim.install()
    res = {"module": name, "benches": [], "status": "ok"}
    t0 = time.time()
    try:
        mod = importlib.import_module(name)
    except ModuleNotFoundError as e:
        res["status"] = "skipped"
        res["why"] = f"import: {e}"
        return res
    except BaseException as e:
        res["status"] = "skipped"
        res["why"] = f"import error: {type(e).__name__}: {str(e)[:200]}"
        return res
    from cohdl_testutil import cocotb_util
    from cohdl import std

    def runner(entity, file, module, **kw):
        if kw.get("vhdl_sources") or kw.get("relatilve_vhdl_sources") or kw.get("build_files"):
            res["benches"].append({"entity": entity.__name__, "status": "skipped", "why": "extern VHDL sources"})
            return
        text = std.VhdlCompiler.to_string(entity)
        try:
            lib = VS.Library(text)
            VS.Sim(lib, top=entity.__name__)
        except Unsupported as e:
            res["benches"].append({"entity": entity.__name__, "status": "skipped", "why": f"outside the VHDL subset: {e}"})
            return
        except Illegal as e:
            res["benches"].append({"entity": entity.__name__, "status": "failed", "why": f"front end rejects the emitted text: {e}"})
            return
        m = sys.modules[module]
        saved_env = dict(os.environ)
        if kw.get("extra_env"):
            # upstream: the simulator process imports the bench module afresh with these variables set
            os.environ.update({k: str(v) for k, v in kw["extra_env"].items()})
            m = importlib.reload(m)
            _patch(m)
        tests = [f for _, f in inspect.getmembers(m, inspect.isfunction) if getattr(f, "_cocotb_test", False)]
        for f in tests:
            random.seed(12345)
            b = {"entity": entity.__name__, "bench": f.__name__}
            t1 = time.time()
            try:
                signal.signal(signal.SIGALRM, _alarm)
                signal.alarm(timeout)
                try:
                    try:
                        _, sched = cocoshim.run_test(lib, entity.__name__, f)
                        b.update(status="passed")
                    except AssertionError:
                        # inputs the bench has not driven yet are 'U' under ghdl; the two-valued interpreter uses zeros.
                        # A bench that only passes with another stand-in depends on metavalues ('U' /= '0' is true).
                        random.seed(12345)
                        _, sched = cocoshim.run_test(lib, entity.__name__, f, input_init=1)
                        b.update(status="passed", note="only with all-ones as stand-in for undriven ('U') inputs: the bench depends on metavalues")
                finally:
                    signal.alarm(0)
                b.update(instants=sched.instants, sim_time_fs=sched.time)
            except _Timeout:
                b.update(status="timeout", why=f"> {timeout}s wall")
            except cocoshim.SimTimeout as e:
                b.update(status="timeout", why=str(e))
            except Unsupported as e:
                b.update(status="skipped", why=f"outside the VHDL subset: {e}")
            except AssertionError as e:
                tb = traceback.extract_tb(e.__traceback__)
                where = next((f"{os.path.basename(fr.filename)}:{fr.lineno} {fr.line}" for fr in reversed(tb) if "reference_builds" in fr.filename or "cohdl_testutil" in fr.filename), "")
                b.update(status="failed", why=f"assertion: {str(e)[:200]} @ {where}")
            except BaseException as e:
                if isinstance(e, (KeyboardInterrupt, SystemExit)):
                    raise
                tb = traceback.extract_tb(e.__traceback__)
                where = "; ".join(f"{os.path.basename(fr.filename)}:{fr.lineno}" for fr in tb[-3:])
                b.update(status="error", why=f"{type(e).__name__}: {str(e)[:200]} @ {where}")
            b["wall_s"] = round(time.time() - t1, 2)
            res["benches"].append(b)
        os.environ.clear()
        os.environ.update(saved_env)

    original = getattr(cocotb_util, "_vfw_original", None) or cocotb_util.run_cocotb_tests
    cocotb_util._vfw_original = original

    def _patch(m):
        for k, v in list(vars(m).items()):
            if v is original:
                setattr(m, k, runner)

    cocotb_util.run_cocotb_tests = runner
    import cohdl_testutil
    if getattr(cohdl_testutil, "run_cocotb_tests", None) is original:
        cohdl_testutil.run_cocotb_tests = runner
    _patch(mod)
    for _, cls in inspect.getmembers(mod, inspect.isclass):
        if issubclass(cls, unittest.TestCase) and cls.__module__ == name:
            for meth in [m for m in dir(cls) if m.startswith("test")]:
                try:
                    getattr(cls(meth), meth)()
                except BaseException as e:
                    if isinstance(e, (KeyboardInterrupt, SystemExit)):
                        raise
                    if isinstance(e, FileNotFoundError) and "test_build" in str(e):
                        # the test copies hand-written VHDL next to the generated files: needs a real VHDL tool chain
                        res["benches"].append({"entity": meth, "status": "skipped", "why": "extern VHDL sources"})
                    else:
                        res["benches"].append({"entity": meth, "status": "error", "why": f"build: {type(e).__name__}: {str(e)[:300]}"})
    res["wall_s"] = round(time.time() - t0, 2)
    return res


def main():
    ap = argparse.ArgumentParser()
    ap.add_argument("--jobs", type=int, default=min(16, os.cpu_count() or 4))
    ap.add_argument("--filter", default="")
    ap.add_argument("--timeout", type=int, default=300)
    ap.add_argument("--out", default=os.path.join(HERE, "validation", "upstream_benches.json"))
    a = ap.parse_args()
    mods = [m for m in list_modules() if a.filter in m]
    t0 = time.time()
    with mp.Pool(a.jobs, maxtasksperchild=1) as pool:
        results = pool.map(run_module, [(m, a.timeout) for m in mods], chunksize=1)
    counts = {}
    for r in results:
        if r["status"] == "skipped":
            counts["modules_skipped"] = counts.get("modules_skipped", 0) + 1
        for b in r["benches"]:
            counts[b["status"]] = counts.get(b["status"], 0) + 1
    summary = {"repo_head": os.popen(f"git -C {REPO} rev-parse --short HEAD").read().strip(), "modules": len(mods), "counts": counts, "wall_s": round(time.time() - t0, 1), "results": results}
    os.makedirs(os.path.dirname(a.out), exist_ok=True)
    json.dump(summary, open(a.out, "w"), indent=1)
    print(json.dumps({k: v for k, v in summary.items() if k != "results"}))
    for r in results:
        for b in r["benches"]:
            if b["status"] in ("failed", "error", "timeout"):
                print(f"{b['status'].upper():8} {r['module']} {b.get('bench', b.get('entity'))}: {b.get('why', '')[:220]}")
    return 1 if counts.get("failed", 0) or counts.get("error", 0) else 0


if __name__ == "__main__":
    sys.exit(main())
