"""C03 -- sequential / concurrent contexts obey hardware assignment semantics.
seqbody family: one-step equivalence from an ARBITRARY pre-state (identity relation on declared
state => all input histories) between the emitted process and the reference interpreter of the
Python source; plus concurrent cells (continuous driving) via the cell engine."""
from __future__ import annotations
import time
from ..core import Reporter, Workdir
from .. import gen_seq
from ..refseq import RefSeq
from ..cells import Cell, run_cells
from ..spec import U, BV, BIT
from .c01 import check_program, hash_body


def concurrent_cells():
    """concurrent contexts and always-blocks continuously drive their targets"""
    cs = []
    cs.append(Cell("conc|last-wins-not-applicable|plain", [("a", U(3)), ("b", U(3))], U(3), "{o} <<= {a} + {b}", lambda P, a, b: P.wrap(a + b, 3, False)))
    cs.append(Cell("conc|slice-targets", [("a", BV(2)), ("c", BIT)], BV(3), "{o}[2:1] <<= {a}\n{o}[0] <<= {c}", lambda P, a, c: a * 2 + c))
    cs.append(Cell("conc|if-expr", [("a", U(3)), ("b", U(3)), ("c", BIT)], U(3), "{o} <<= {a} if {c} else {b}", lambda P, a, b, c: P.ite(c != 0, a, b)))
    return cs


def always_cells():
    """inside a clocked context: `with cohdl.always:` hoists statements into continuous assignments"""
    cs = []
    cs.append(Cell("always|expr-read-in-same-step", [("a", U(3)), ("b", U(3))], U(3), "w = cohdl.always({a} ^ {b})\n{o} <<= w", lambda P, a, b: P.bxor(a, b)))
    return cs


PUSH_SETUP = '''
class C03Cmd(std.Record):
    valid: Bit
    code: Unsigned[3]
'''


def push_cells(edges):
    """push assignment to an aggregate (std.Record of signals) in its three spellings: the value holds for one clock, then the declared
    default returns.  A local phase bit makes the process push only on every second clock; inputs are constant."""
    cs = []
    loc = "c03r{cellno} = std.Signal[C03Cmd](C03Cmd(valid=False, code=0))\nc03p{cellno} = Signal[Bit](False)"
    for form, stmt in (("operator", "c03r{cellno} ^= C03Cmd(valid=True, code={x})"), ("attribute", "c03r{cellno}.push = C03Cmd(valid=True, code={x})"),
                       ("member-operator", "c03r{cellno}.code ^= {x}")):
        body = "c03p{cellno} <<= ~c03p{cellno}\nif (not c03p{cellno}) and {a}:\n    " + stmt + "\n{o} <<= c03r{cellno}.code"
        if edges == 2:
            spec = lambda P, a, x: P.ite(a != 0, x, 0)     # second edge copies what the first edge pushed
        else:
            spec = lambda P, a, x: P.const(0)              # third edge copies the state after the edge without push: the default
        cs.append(Cell(f"push|record|{form}|{edges} clocks", [("a", BIT), ("x", U(3))], U(3), body, spec, setup=PUSH_SETUP, local=loc, nonlocals=("c03r{cellno}", "c03p{cellno}")))
    return cs


def run(tier: str) -> int:
    rep = Reporter("C03", tier, "translation_validation")
    wd = Workdir()
    counts = {}
    try:
        progs = gen_seq.programs(tier, rep.seed)
        budget = 170 if tier == "quick" else 2400
        t0 = time.time()

        def job(i, rw, wdw):
            prog = progs[i]
            r = check_program(rw, wdw, prog, 4, ref_cls=RefSeq)
            keep = {k: r[k] for k in ("status", "why", "clock", "log", "trace", "init", "vhdl", "hash", "step_cex") if k in r}
            return keep

        from ..core import parallel_programs
        results = parallel_programs(rep, len(progs), job, deadline=t0 + budget)
        done = len(results)
        for i in sorted(results):
            prog, r = progs[i], results[i]
            s = r["status"]
            counts[s] = counts.get(s, 0) + 1
            if s == "violation":
                rep.violation(f"seq|{hash_body(prog)}", f"emitted process differs from the source semantics at clock {r['clock']}: {r['log'][-1]}",
                              {"source": prog.source, "trace": r["trace"], "init": r["init"], "log": r["log"], "vhdl": r["vhdl"]})
            elif s == "illegal":
                rep.violation(f"seq-illegal|{hash_body(prog)}", f"emitted VHDL illegal: {r['why']}", {"source": prog.source, "vhdl": r["vhdl"]})
            elif s in ("inconclusive", "worker-error"):
                rep.inconclusive_query(f"{hash_body(prog)}: {r['why']}")
            elif s == "bounded":
                # a single-state process has the identity relation: a failing step from an arbitrary state that BMC
                # could not reach from power-up is reported as inconclusive, not as held
                rep.inconclusive_query(f"{hash_body(prog)}: step differs from arbitrary state but no trace within K: {r.get('step_cex')}")
            elif s == "closed":
                rep.stats.nontrivial.add(r["hash"])
                if len(rep.stats.samples) < 4:
                    rep.stats.sample({"body": prog.meta["body"], "verdict": "unsat: post-state == R for every pre-state and input"})
        conc = {}
        for ctx, cells in (("concurrent", concurrent_cells()), ("clocked", always_cells()), ("clocked2", push_cells(2)), ("clocked3", push_cells(3))):
            for res in run_cells(rep, wd, cells, ctx):
                conc[res.status] = conc.get(res.status, 0) + 1
                if res.status == "mismatch":
                    rep.violation(f"{res.cell.key}", f"continuous assignment differs: {res.detail['inputs_math']} -> {res.detail['got_bits']} want {res.detail['want_bits']}", res.detail)
                elif res.status in ("rejected", "illegal"):
                    rep.violation(f"{res.cell.key}|{res.status}", f"{res.status}: {res.detail if isinstance(res.detail, str) else res.detail['msg']}", {"detail": str(res.detail)[:2000]})
                elif res.status in ("inconclusive", "error"):
                    rep.inconclusive_query(f"{res.cell.key}: {res.detail}")
        rep.stats.units |= {"cohdl._compiler.frontend._generate_ir (assignment lowering, CondSelect, for-break chains, function inlining)",
                            "cohdl._core._ir._repr.Sequential._pushed_resettable_signals (reset_pushed)", "cohdl._compiler.frontend._prepare_ast (For/Match/Call/Return)",
                            "cohdl._compiler.frontend._value_branch", "VHDL backend (assign_temporary, case/when)"}
        rep.assumptions += ["one activation from an ARBITRARY pre-state of all declared objects (identity relation => any input history)",
                            "programs of the seqbody grammar (DESIGN App. C); programs cohdl rejects are counted, not judged",
                            "reference interpreter vfw/refseq.py over the ast of the compiled source"]
        return rep.finish({
            "programs": done, "program_results": counts, "concurrent_cells": conc,
            "disagreements_checked": counts.get("violation", 0) + counts.get("illegal", 0),
            "distinct_nontrivial": len(rep.stats.nontrivial), "evaluations": done,
            "rule": "one program = one sequential body; non-trivial = accepted with distinct emitted text",
            "samples": rep.stats.samples or [{"source": progs[0].source}],
            "bounds": {"grammar_depth": 2 if tier == "quick" else 3, "programs_generated": len(progs)},
        }, max_inconclusive=1)
    finally:
        wd.close()
