"""Shared plumbing: compiling generated designs with the real cohdl, solver wrapper with
statistics, evidence / replay / known-findings handling."""
from __future__ import annotations
import hashlib
import importlib.util
import inspect
import json
import os
import shutil
import sys
import tempfile
import time
import traceback

import z3

VERIF = os.path.dirname(os.path.dirname(os.path.abspath(__file__)))
REPO = os.environ.get("VERIF_REPO", "/repo")
# scratch output root for mutation runs against a worktree (evidence / replays only); default: /verif itself
OUT = os.environ.get("VERIF_OUT", VERIF)
EXIT_OK, EXIT_VIOLATION, EXIT_HARNESS = 0, 1, 2


class HarnessError(Exception):
    pass


# ------------------------------------------------------------------ design modules
class Workdir:
    """generated design modules must be real files (cohdl uses inspect.getsource)"""

    def __init__(self, parent=None):
        self.path = tempfile.mkdtemp(prefix="vfw_", dir=parent)
        self.n = 0

    def load(self, source: str, stem="design"):
        self.n += 1
        name = f"{stem}_{os.getpid()}_{self.n}"
        fn = os.path.join(self.path, name + ".py")
        with open(fn, "w") as f:
            f.write(source)
        spec = importlib.util.spec_from_file_location(name, fn)
        mod = importlib.util.module_from_spec(spec)
        sys.modules[name] = mod
        try:
            spec.loader.exec_module(mod)
        except BaseException:
            sys.modules.pop(name, None)
            raise
        return mod

    def close(self):
        shutil.rmtree(self.path, ignore_errors=True)


def reset_cohdl_state():
    """undo state a failed compilation may leave behind (see DESIGN 5, C11 finding) so that one
    rejected program of a family cannot poison the next ones *in the harness*"""
    try:
        from cohdl._core._ir import repr as ir
        ir.StatemachineContext._singleton = None
    except Exception:
        pass
    try:
        from cohdl._core import _context
        bs = getattr(_context, "_block_stack", None)
        if isinstance(bs, list) and len(bs) > 0:
            del bs[:]
    except Exception:
        pass


def compile_entity(cls) -> str:
    from cohdl import std
    return std.VhdlCompiler.to_string(cls)


def try_compile(cls):
    """-> (text | None, exception | None)"""
    try:
        return compile_entity(cls), None
    except BaseException as e:  # cohdl raises AssertionError and friends
        if isinstance(e, (KeyboardInterrupt, SystemExit, MemoryError)):
            raise
        reset_cohdl_state()
        return None, e


# ------------------------------------------------------------------ solver
class Stats:
    def __init__(self):
        self.queries = 0
        self.unsat = 0
        self.sat = 0
        self.unknown = 0
        self.solver_s = 0.0
        self.programs = 0
        self.accepted = 0
        self.rejected = 0
        self.hashes = set()
        self.nontrivial = set()
        self.samples = []
        self.units = set()
        self.extra = {}

    def sample(self, obj, limit=6):
        if len(self.samples) < limit:
            self.samples.append(obj)


def check_sat(stats: Stats, assertions, timeout_ms=60000):
    """-> ('sat', model) | ('unsat', None) | ('unknown', None)"""
    s = z3.Solver()
    s.set("timeout", timeout_ms)
    for a in assertions:
        if a is True:
            continue
        if a is False:
            stats.queries += 1
            stats.unsat += 1
            return "unsat", None
        s.add(a)
    t = time.time()
    r = s.check()
    stats.solver_s += time.time() - t
    stats.queries += 1
    if r == z3.sat:
        stats.sat += 1
        return "sat", s.model()
    if r == z3.unsat:
        stats.unsat += 1
        return "unsat", None
    stats.unknown += 1
    return "unknown", None


# ------------------------------------------------------------------ known findings
def load_known():
    p = os.path.join(VERIF, "known_findings.json")
    if not os.path.exists(p):
        return []
    with open(p) as f:
        return json.load(f).get("findings", [])


class Reporter:
    """collects violations of one property run; prints the protocol lines; writes evidence"""

    def __init__(self, pid: str, tier: str, level: str):
        self.pid, self.tier, self.level = pid, tier, level
        self.seed = int(os.environ.get("VERIF_SEED", "0") or 0)
        self.t0 = time.time()
        self.stats = Stats()
        self.violations = []  # (key, text, replay_path)
        self.known_hits = []
        self.inconclusive = []
        self.assumptions = []
        self.known = [k for k in load_known() if k.get("property") == pid]
        os.makedirs(os.path.join(OUT, "replays"), exist_ok=True)
        os.makedirs(os.path.join(OUT, "evidence"), exist_ok=True)

    def replay_path(self, key):
        h = hashlib.sha1(key.encode()).hexdigest()[:12]
        return os.path.join(OUT, "replays", f"{self.pid}_{h}.json")

    def violation(self, key: str, text: str, replay: dict):
        """key identifies the failing input / call site (matched against known_findings.json)"""
        for k in self.known:
            if k.get("status") == "known" and k.get("key") == key:
                if key not in [h[0] for h in self.known_hits]:
                    self.known_hits.append((key, k.get("what", text)))
                return
        if key in [v[0] for v in self.violations]:
            return
        path = self.replay_path(key)
        with open(path, "w") as f:
            json.dump({"property": self.pid, "key": key, "what": text, **replay}, f, indent=1, default=str)
        self.violations.append((key, text, path))

    def inconclusive_query(self, what):
        self.inconclusive.append(what)

    def finish(self, coverage: dict, max_inconclusive=0):
        st = self.stats
        cov = dict(coverage)
        cov.setdefault("queries_discharged", st.queries)
        cov.setdefault("queries_unsat", st.unsat)
        cov.setdefault("queries_sat", st.sat)
        cov.setdefault("queries_unknown", st.unknown)
        cov.setdefault("solver_s", round(st.solver_s, 3))
        cov.setdefault("units_encoded", sorted(st.units))
        cov.setdefault("inconclusive", self.inconclusive[:20])
        cov.setdefault("known_findings_hit", [k for k, _ in self.known_hits])
        ev = {
            "property_id": self.pid,
            "tier": self.tier,
            "seed": self.seed,
            "level": self.level,
            "coverage": cov,
            "assumptions": self.assumptions,
            "wall_s": round(time.time() - self.t0, 2),
            "violations": len(self.violations),
        }
        with open(os.path.join(OUT, "evidence", f"{self.pid}.json"), "w") as f:
            json.dump(ev, f, indent=1, default=str)
        for key, what in self.known_hits:
            print(f"KNOWN-FINDING: property={self.pid} {what}")
        for key, text, path in self.violations:
            print(f"VIOLATION property={self.pid} replay={path}")
            print(f"  {key}: {text}")
        if self.violations:
            return EXIT_VIOLATION
        if len(self.inconclusive) > max_inconclusive:
            print(f"HARNESS: {len(self.inconclusive)} inconclusive queries (> {max_inconclusive}); first: {self.inconclusive[:3]}")
            return EXIT_HARNESS
        print(f"OK property={self.pid} tier={self.tier} wall={ev['wall_s']}s queries={st.queries} (unsat {st.unsat}, sat {st.sat}, unknown {st.unknown})")
        return EXIT_OK


def unit_ref(obj):
    """'module.qualname (file:line)' for evidence"""
    try:
        fn = inspect.getsourcefile(obj)
        _, line = inspect.getsourcelines(obj)
        return f"{getattr(obj, '__module__', '')}.{getattr(obj, '__qualname__', obj)} ({os.path.relpath(fn, REPO)}:{line})"
    except Exception:
        return str(obj)


def text_hash(s: str):
    return hashlib.sha1(s.encode()).hexdigest()[:16]


# ------------------------------------------------------------------ parallel program loops
_PAR = {"fn": None, "stats": None, "wd": None}


def _par_worker(i):
    st = _PAR["stats"]
    if st is None:
        st = _PAR["stats"] = Stats()
        # pool workers leave through os._exit (no atexit): their work directories live under a directory the parent removes
        _PAR["wd"] = Workdir(parent=_PAR.get("scratch"))
    before = (st.queries, st.unsat, st.sat, st.unknown, st.solver_s, st.programs, st.accepted, st.rejected)
    h0 = set(st.hashes)

    class _R:  # minimal stand-in for Reporter inside a worker (statistics only)
        stats = st
    try:
        res = _PAR["fn"](i, _R, _PAR["wd"])
    except BaseException as e:
        if isinstance(e, (KeyboardInterrupt, SystemExit)):
            raise
        res = {"status": "worker-error", "why": f"{type(e).__name__}: {e}", "traceback": traceback.format_exc()[-1500:]}
    after = (st.queries, st.unsat, st.sat, st.unknown, st.solver_s, st.programs, st.accepted, st.rejected)
    return i, res, tuple(a - b for a, b in zip(after, before)), sorted(st.hashes - h0)


def parallel_programs(rep, n, fn, jobs=None, deadline=None):
    """runs fn(i, rep_like, workdir) for i in range(n) in forked worker processes (each with its own Workdir and solver
    state); fn must return something picklable.  Statistics are merged into rep.stats.  Items not started before
    `deadline` (time.time() value) are skipped.  -> dict i -> result"""
    import multiprocessing as mp
    jobs = jobs or min(16, os.cpu_count() or 4)
    if os.environ.get("VERIF_JOBS"):
        jobs = int(os.environ["VERIF_JOBS"])
    _PAR["fn"] = fn
    _PAR["scratch"] = scratch = tempfile.mkdtemp(prefix="vfw_par_")
    out = {}
    ctx = mp.get_context("fork")
    try:
        return _parallel_run(rep, n, jobs, deadline, ctx, out)
    finally:
        _PAR["fn"] = None
        _PAR["scratch"] = None
        shutil.rmtree(scratch, ignore_errors=True)


def _parallel_run(rep, n, jobs, deadline, ctx, out):
    with ctx.Pool(jobs) as pool:
        it = pool.imap_unordered(_par_worker, range(n), chunksize=1)
        for i, res, d, hs in it:
            out[i] = res
            st = rep.stats
            st.queries += d[0]; st.unsat += d[1]; st.sat += d[2]; st.unknown += d[3]; st.solver_s += d[4]
            st.programs += d[5]; st.accepted += d[6]; st.rejected += d[7]
            st.hashes |= set(hs)
            if deadline is not None and time.time() > deadline:
                pool.terminate()
                break
    return out
