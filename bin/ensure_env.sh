#!/bin/bash
# Idempotent: builds /verif/.venv (python 3.12 overlay on /venv) with crosshair-tool + z3-solver
# from the offline wheelhouse.  Called by MANIFEST.setup_cmd and at the top of every check.
set -e
HERE="$(cd "$(dirname "$0")/.." && pwd)"
VENV="$HERE/.venv"
export PIP_NO_INDEX=1
if [ -x "$VENV/bin/python" ] && "$VENV/bin/python" -c "import z3, crosshair, cohdl" >/dev/null 2>&1; then
  exit 0
fi
(
  flock 9
  if [ -x "$VENV/bin/python" ] && "$VENV/bin/python" -c "import z3, crosshair, cohdl" >/dev/null 2>&1; then
    exit 0
  fi
  rm -rf "$VENV"
  /venv/bin/python -m venv "$VENV"
  SP="$VENV/lib/python3.12/site-packages"
  echo "import site; site.addsitedir('/venv/lib/python3.12/site-packages')" > "$SP/_venv_overlay.pth"
  "$VENV/bin/pip" install -q --no-index --find-links /opt/veriftools/wheels crosshair-tool z3-solver >/dev/null
  "$VENV/bin/python" -c "import z3, crosshair, cohdl"
) 9>"$HERE/.venv.lock"
