"""Equivalence of an emitted sequential process with the reference semantics R:
pair induction (unbounded, DESIGN 2.6) with BMC from power-up as the confirming step, plus
reset checks from arbitrary paired states (C04)."""
from __future__ import annotations
from dataclasses import dataclass, field
import z3

from . import dom as D
from . import vhdl_sim as VS
from .vhdl_types import V, TEnum, TStd, TVec, TBool, eval_model, width_of
from .vhdl_parse import Illegal, Unsupported
from .core import check_sat
from .refsem import RefProc, Obj, START, merge_paths, RejectExpected, RUnsupported
from .spec import Ty, PyP, Z3P, W64


@dataclass
class SeqProgram:
    source: str
    objs: dict  # name -> Obj
    proc: str = "proc"
    clk: str = "clk"
    reset: str | None = "reset"
    reset_active: int = 1
    reset_async: bool = False
    rising: bool = True
    entity: str = "Coro"
    meta: dict = field(default_factory=dict)


def ty_w(t: Ty):
    return 1 if t.kind in ("Bit", "bool") else t.w


def to_math(P, bits, t: Ty):
    w = ty_w(t)
    if P is PyP:
        return PyP.wrap(bits, w, True) if t.signed else bits
    bv = D.bvv(bits, w)
    return z3.SignExt(W64 - w, bv) if t.signed else z3.ZeroExt(W64 - w, bv)


def to_bits(P, m, t: Ty):
    w = ty_w(t)
    if isinstance(m, bool):
        return 1 if m else 0
    if isinstance(m, int):
        return m % (1 << w)
    if isinstance(m, z3.BoolRef):
        return z3.If(m, z3.BitVecVal(1, w), z3.BitVecVal(0, w))
    return z3.Extract(w - 1, 0, m)


class VModel:
    """locates R's objects inside the elaborated VHDL"""

    def __init__(self, prog: SeqProgram, lib: VS.Library):
        self.prog, self.lib = prog, lib
        sim = VS.Sim(lib)
        self.loc = {}  # obj name -> ('sig', flat) | ('var', pid, name)
        self.fp = None
        for fp in sim.procs:
            if fp.info is not None and fp.info.label.lower() == prog.proc.lower():
                self.fp = fp
        if self.fp is None:
            raise Unsupported(f"process {prog.proc} not found in emitted text")
        for n, o in prog.objs.items():
            low = n.lower()
            if o.kind == "in":
                self.loc[n] = ("sig", low)
            elif o.kind == "var":
                if low in self.fp.info.vars:
                    self.loc[n] = ("var", self.fp.pid, low)
                else:
                    # never referenced by the process: not emitted at all
                    prog.meta.setdefault("unused", set()).add(n)
            else:
                if "buffer_" + low in sim.sig_t:
                    self.loc[n] = ("sig", "buffer_" + low)
                elif low in sim.sig_t:
                    self.loc[n] = ("sig", low)
                else:
                    raise Unsupported(f"signal {n} not found")
        # the state signal: enum-typed signal written by the process
        self.state_sig = None
        for s in sorted(self.fp.writes):
            if isinstance(sim.sig_t[s], TEnum):
                if self.state_sig is not None:
                    raise Unsupported("more than one enumeration signal written by the process")
                self.state_sig = s
        self.state_t = sim.sig_t[self.state_sig] if self.state_sig else None
        self.nstates = len(self.state_t.lits) if self.state_t else 1
        self.init_state = 0
        if self.state_sig:
            iv = sim.sig_init[self.state_sig]
            self.init_state = iv.x if iv is not None else 0

    def get(self, sim, n):
        l = self.loc[n]
        return sim.sig[l[1]].x if l[0] == "sig" else sim.var[(l[1], l[2])].x

    def put(self, sim, n, bits):
        l = self.loc[n]
        if l[0] == "sig":
            sim.sig[l[1]] = V(sim.sig_t[l[1]], bits)
            sim.prev[l[1]] = sim.sig[l[1]]
        else:
            sim.var[(l[1], l[2])] = V(sim.var[(l[1], l[2])].t, bits)

    # ---- clocking helpers
    def levels(self):
        return (0, 1) if self.prog.rising else (1, 0)

    def start(self, sim, inputs):
        lo, hi = self.levels()
        sim.elaborate({self.prog.clk: lo, **inputs})

    def clock(self, sim, inputs):
        """inputs change on the inactive edge, then the active edge"""
        lo, hi = self.levels()
        sim.instant({self.prog.clk: lo, **inputs})
        sim.instant({self.prog.clk: hi})


def state_objs(prog):
    return [n for n, o in prog.objs.items() if o.kind != "in" and n not in prog.meta.get("unused", ())]


def input_objs(prog):
    return [n for n, o in prog.objs.items() if o.kind == "in"]


class Result:
    def __init__(self):
        self.pairs = []
        self.closed = False
        self.bounded_k = None
        self.violation = None  # dict
        self.inconclusive = []
        self.queries = 0
        self.notes = []


def _reset_inactive(prog):
    return {} if prog.reset is None else {prog.reset: 1 - prog.reset_active}


def pair_induction(stats, prog: SeqProgram, lib, ref: RefProc, vm: VModel, timeout_ms=20000, check_reset=True) -> Result:
    res = Result()
    names = state_objs(prog)
    ins = input_objs(prog)
    work = [(START, vm.init_state)]
    seen = set(work)
    while work:
        pc, k = work.pop(0)
        res.pairs.append((pc, k))
        sim = VS.Sim(lib, arbitrary_state=True, tag=f"!{pc}!{k}")
        dsym = {n: z3.BitVec(f"D!{n}", ty_w(prog.objs[n].ty)) for n in names}
        isym = {n: z3.BitVec(f"I!{n}", ty_w(prog.objs[n].ty)) for n in ins}
        for n in names:
            vm.put(sim, n, dsym[n])
        if vm.state_sig:
            sim.sig[vm.state_sig] = V(vm.state_t, k)
        zero_in = {n: 0 for n in ins}
        vm.start(sim, {**zero_in, **_reset_inactive(prog)})
        # combinational copies may have moved; registers must still hold the chosen pre-state
        vm.clock(sim, {**{n: isym[n] for n in ins}, **_reset_inactive(prog)})
        env = {n: to_math(Z3P, dsym[n], prog.objs[n].ty) for n in names}
        for n in prog.meta.get("unused", ()):
            env[n] = prog.objs[n].default or 0
        inputs = {n: to_math(Z3P, isym[n], prog.objs[n].ty) for n in ins}
        try:
            paths = ref.activate(Z3P, pc, env, inputs)
        except RejectExpected as e:
            res.violation = {"kind": "accepted-but-must-reject", "why": str(e), "pair": (pc, k)}
            return res
        pcs, env2 = merge_paths(Z3P, paths, names)
        diffs = []
        for n in names:
            t = prog.objs[n].ty
            diffs.append(D.b_not(D.v_eq(vm.get(sim, n), to_bits(Z3P, env2[n], t), ty_w(t))))
        neq = False
        for d in diffs:
            neq = D.b_or(neq, d)
        # emitted assertions / simulation errors must be unreachable as well
        for c, m, w, tm in sim.obligations + sim.errors:
            neq = D.b_or(neq, c)
        r, model = check_sat(stats, sim.constraints + [neq], timeout_ms)
        res.queries += 1
        if r == "sat":
            res.notes.append(f"induction step fails at pair ({pc},{k})")
            res.closed = False
            res.step_cex = {"pair": (pc, k), "data": {n: model.eval(dsym[n], model_completion=True).as_long() for n in names},
                            "inputs": {n: model.eval(isym[n], model_completion=True).as_long() for n in ins}}
            return res
        if r == "unknown":
            res.inconclusive.append(f"step ({pc},{k}) unknown")
            return res
        # successors
        if vm.state_sig:
            snext = sim.sig[vm.state_sig].x
            for pc2, g in pcs.items():
                if g is False:
                    continue
                found = []
                while True:
                    cons = sim.constraints + ([g] if g is not True else []) + [D.b_not(D.v_eq(snext, kk, vm.state_t.width)) for kk in found]
                    r, model = check_sat(stats, cons, timeout_ms)
                    res.queries += 1
                    if r != "sat":
                        if r == "unknown":
                            res.inconclusive.append(f"successor enumeration ({pc},{k})->{pc2} unknown")
                        break
                    kk = snext if D.is_c(snext) else model.eval(D.bvv(snext, vm.state_t.width), model_completion=True).as_long()
                    found.append(kk)
                    if (pc2, kk) not in seen:
                        seen.add((pc2, kk))
                        work.append((pc2, kk))
                    if D.is_c(snext) or len(found) > vm.nstates:
                        break
        else:
            for pc2, g in pcs.items():
                if g is not False and (pc2, 0) not in seen:
                    seen.add((pc2, 0))
                    work.append((pc2, 0))
        if len(res.pairs) > 400:
            res.notes.append("pair explosion")
            return res
    res.closed = True
    return res


def _expected_after_reset(prog, ref, names, dsym):
    written = ref.written() | {n for n, _ in prog.meta.get("on_reset", [])}
    want = {}
    for n in names:
        o = prog.objs[n]
        w = ty_w(o.ty)
        if o.default is not None and not o.noreset and n in written:
            want[n] = o.default % (1 << w)
        else:
            want[n] = dsym[n]
    for n, val in prog.meta.get("on_reset", []):
        want[n] = val
    return want


def reset_check(stats, prog: SeqProgram, lib, ref: RefProc, vm: VModel, pairs, timeout_ms=20000):
    """C04: from every discovered control pair and ARBITRARY data (a superset of the reachable
    states) an active reset puts every resettable object at its default, runs the on_reset
    actions, returns the state machine to its first state and leaves everything else unchanged.
    sync: at the active clock edge; async: at any instant, held while active, no effect on release.
    -> list of violation / inconclusive dicts"""
    if prog.reset is None:
        return []
    out = []
    names = state_objs(prog)
    ins = [n for n in input_objs(prog) if n != prog.reset]
    act, inact = prog.reset_active, 1 - prog.reset_active
    lo, hi = vm.levels()

    def fresh_sim(tag, pc, k):
        sim = VS.Sim(lib, arbitrary_state=True, tag=tag)
        dsym = {n: z3.BitVec(f"D!{n}", ty_w(prog.objs[n].ty)) for n in names}
        for n in names:
            vm.put(sim, n, dsym[n])
        if vm.state_sig:
            sim.sig[vm.state_sig] = V(vm.state_t, k)
        vm.start(sim, {**{n: 0 for n in ins}, prog.reset: inact})
        return sim, dsym

    def isyms(tag):
        return {n: z3.BitVec(f"I{tag}!{n}", 1) for n in ins}

    def differs(sim, want, state_k):
        bad = False
        for n in names:
            bad = D.b_or(bad, D.b_not(D.v_eq(vm.get(sim, n), want[n], ty_w(prog.objs[n].ty))))
        if vm.state_sig and state_k is not None:
            bad = D.b_or(bad, D.b_not(D.v_eq(sim.sig[vm.state_sig].x, state_k, vm.state_t.width)))
        return bad

    def decide(sim, bad, scenario, pc, k, dsym):
        r, model = check_sat(stats, sim.constraints + [bad], timeout_ms)
        if r == "sat":
            out.append({"kind": "reset", "scenario": scenario, "pair": (pc, k),
                        "data": {n: _mv(model, dsym[n]) for n in names},
                        "after": {n: _mv(model, vm.get(sim, n)) for n in names},
                        "state_after": _mv(model, sim.sig[vm.state_sig].x) if vm.state_sig else None})
        elif r == "unknown":
            out.append({"kind": "inconclusive", "scenario": scenario, "pair": (pc, k)})

    for pc, k in pairs:
        # S1: reset active over a whole clock (asserted at the inactive edge, sampled at the active edge)
        sim, dsym = fresh_sim(f"!S1!{pc}!{k}", pc, k)
        want = _expected_after_reset(prog, ref, names, dsym)
        sim.instant({prog.clk: lo, **isyms("a"), prog.reset: act})
        if prog.reset_async:
            # asynchronous: already effective before any clock edge
            decide(sim, differs(sim, want, vm.init_state), "S2 async reset effective without clock edge", pc, k, dsym)
        sim.instant({prog.clk: hi, **isyms("b")})
        decide(sim, differs(sim, want, vm.init_state), "S1 reset active at the active clock edge", pc, k, dsym)
        if prog.reset_async:
            # held while active: a further full clock with arbitrary inputs changes nothing
            sim.instant({prog.clk: lo, **isyms("c")})
            sim.instant({prog.clk: hi, **isyms("d")})
            decide(sim, differs(sim, want, vm.init_state), "S3 async reset held over further clock edges", pc, k, dsym)
            # release without a clock edge has no effect
            sim.instant({prog.reset: inact})
            decide(sim, differs(sim, want, vm.init_state), "S4 release of async reset without clock edge", pc, k, dsym)
            # assertion at an instant at which only reset changes (clock high and stable)
            sim2, dsym2 = fresh_sim(f"!S5!{pc}!{k}", pc, k)
            want2 = _expected_after_reset(prog, ref, names, dsym2)
            sim2.instant({prog.reset: act})
            decide(sim2, differs(sim2, want2, vm.init_state), "S5 async reset asserted while the clock is stable", pc, k, dsym2)
        else:
            # synchronous: a reset pulse that ends before the active edge must have no effect at all
            sim2, dsym2 = fresh_sim(f"!S6!{pc}!{k}", pc, k)
            sim2.instant({prog.clk: lo, prog.reset: act})
            unchanged = {n: dsym2[n] for n in names}
            decide(sim2, differs(sim2, unchanged, k if vm.state_sig else None), "S6 sync reset has no effect without clock edge", pc, k, dsym2)
    return out


def _mv(model, x):
    if D.is_c(x):
        return x
    r = model.eval(x, model_completion=True)
    return z3.is_true(r) if z3.is_bool(r) else r.as_long()


# --------------------------------------------------------------------------- BMC
def bmc(stats, prog: SeqProgram, lib, ref: RefProc, vm: VModel, K: int, timeout_ms=60000, with_reset=True):
    """K clocks from power-up, symbolic inputs (and reset) per clock.
    -> None (no difference up to K) | 'unknown' | dict(trace=[...], init=..., clock=i)"""
    names = state_objs(prog)
    ins = input_objs(prog)
    sim = VS.Sim(lib, tag="!bmc")
    zero_in = {n: 0 for n in ins}
    vm.start(sim, {**zero_in, **_reset_inactive(prog)})
    P = Z3P
    env = {n: P.const(v) for n, v in ref.initial_env(P).items()}
    pcg = {START: True}
    written = ref.written()
    trace_syms = []
    solver = z3.Solver()
    solver.set("timeout", timeout_ms)
    for c in sim.constraints:
        solver.add(c)
    n_oblig = 0
    for i in range(K):
        isym = {n: z3.BitVec(f"I{i}!{n}", ty_w(prog.objs[n].ty)) for n in ins}
        trace_syms.append(isym)
        vm.clock(sim, dict(isym))
        inputs = {n: to_math(P, isym[n], prog.objs[n].ty) for n in ins}
        # R: reset or activation
        new_pcg, cand = {}, []
        for pc, g in pcg.items():
            if g is False:
                continue
            paths = ref.activate(P, pc, env, inputs)
            for p in paths:
                gg = p.guard if g is True else (g if p.guard is True else z3.And(g, p.guard))
                cand.append((gg, p.pc, p.env))
        if prog.reset is not None and with_reset:
            rst = isym[prog.reset] == z3.BitVecVal(prog.reset_active, 1)
            renv = dict(env)
            for n in names:
                o = prog.objs[n]
                if o.default is not None and not o.noreset and n in written:
                    renv[n] = P.const(o.default)
            cand = [(z3.And(z3.Not(rst), g) if g is not True else z3.Not(rst), pc2, e) for g, pc2, e in cand]
            cand.append((rst, START, renv))
        elif prog.reset is not None:
            solver.add(isym[prog.reset] == z3.BitVecVal(1 - prog.reset_active, 1))
        for g, pc2, e in cand:
            new_pcg[pc2] = g if pc2 not in new_pcg else z3.Or(new_pcg[pc2], g)
        new_env = dict(env)
        for n in names:
            val = cand[-1][2][n]
            for g, pc2, e in reversed(cand[:-1]):
                val = P.ite(g, e[n], val) if not (isinstance(val, int) and isinstance(e[n], int) and val == e[n]) else val
            new_env[n] = val
        env, pcg = new_env, new_pcg
        diff = False
        for n in names:
            t = prog.objs[n].ty
            diff = D.b_or(diff, D.b_not(D.v_eq(vm.get(sim, n), to_bits(P, P.const(env[n]) if isinstance(env[n], int) else env[n], t), ty_w(t))))
        for c, m, w, tm in sim.obligations[n_oblig:] + []:
            diff = D.b_or(diff, c)
        n_oblig = len(sim.obligations)
        for c in sim.constraints:
            pass
        if diff is False:
            continue
        solver.push()
        solver.add(diff)
        import time as _t
        t0 = _t.time()
        r = solver.check()
        stats.solver_s += _t.time() - t0
        stats.queries += 1
        if r == z3.sat:
            stats.sat += 1
            m = solver.model()
            trace = [{n: m.eval(s[n], model_completion=True).as_long() for n in ins} for s in trace_syms]
            init = {k: eval_model(m, v) for k, v in sim.init_syms.items()}
            solver.pop()
            return {"trace": trace, "init": init, "clock": i}
        if r == z3.unknown:
            stats.unknown += 1
            solver.pop()
            return "unknown"
        stats.unsat += 1
        solver.pop()
    return None


def replay_trace(prog: SeqProgram, lib, ref: RefProc, vm: VModel, trace, init):
    """concrete re-run of V (python ints) and R (python ints); -> (first differing clock | None, log)"""
    names = state_objs(prog)
    ins = input_objs(prog)
    sim = VS.Sim(lib, uninit="zero")
    # install the model's values for uninitialised objects
    for key, val in (init or {}).items():
        kind, rest = key.split("!", 1)
        if kind == "s0" and rest in sim.sig:
            sim.sig[rest] = V(sim.sig_t[rest], _to_payload(val, sim.sig_t[rest]))
            sim.prev[rest] = sim.sig[rest]
        elif kind == "v0":
            pname, vn = rest.rsplit("!", 1)
            for fp in sim.procs:
                if fp.info is not None and fp.name == pname:
                    t = sim.var[(fp.pid, vn)].t
                    sim.var[(fp.pid, vn)] = V(t, _to_payload(val, t))
    vm.start(sim, {**{n: 0 for n in ins}, **_reset_inactive(prog)})
    env = dict(ref.initial_env(PyP))
    pc = START
    written = ref.written()
    log = []
    for i, step in enumerate(trace):
        vm.clock(sim, dict(step))
        inputs = {n: to_math(PyP, step[n], prog.objs[n].ty) for n in ins}
        if prog.reset is not None and step.get(prog.reset, 1 - prog.reset_active) == prog.reset_active:
            for n in names:
                o = prog.objs[n]
                if o.default is not None and not o.noreset and n in written:
                    env[n] = o.default
            pc = START
        else:
            paths = ref.activate(PyP, pc, env, inputs)
            live = [p for p in paths if p.guard is True]
            assert len(live) == 1, f"R not deterministic: {len(live)} live paths"
            pc, env = live[0].pc, live[0].env
        got = {n: vm.get(sim, n) for n in names}
        want = {n: to_bits(PyP, env[n], prog.objs[n].ty) for n in names}
        asserts = [m for c, m, w, tm in sim.obligations if c is True]
        log.append({"clock": i, "inputs": step, "R_pc": pc, "R": want, "V": got, "V_state": sim.sig[vm.state_sig].x if vm.state_sig else None})
        if got != want or asserts:
            return i, log
    return None, log


def _to_payload(val, t):
    from .vhdl_types import TArr
    if isinstance(t, TArr):
        return [V(t.elem, _to_payload(v, t.elem)) for v in val]
    return val
