"""Equivalence of an emitted sequential process with the reference semantics R:
pair induction (unbounded, DESIGN 2.6) with BMC from power-up as the confirming step, plus
reset checks from arbitrary paired states (C04)."""
from __future__ import annotations
from dataclasses import dataclass, field
import z3

from . import dom as D
from . import vhdl_sim as VS
from .vhdl_types import V, TEnum, TStd, TVec, TBool, eval_model, width_of
from .vhdl_parse import Illegal, Unsupported
from .core import check_sat
from .refsem import RefProc, Obj, START, merge_paths, RejectExpected, RUnsupported
from .spec import Ty, PyP, Z3P, W64


@dataclass
class SeqProgram:
    source: str
    objs: dict  # name -> Obj
    proc: str = "proc"
    clk: str = "clk"
    reset: str | None = "reset"
    reset_active: int = 1
    reset_async: bool = False
    rising: bool = True
    entity: str = "Coro"
    meta: dict = field(default_factory=dict)


def ty_w(t: Ty):
    return 1 if t.kind in ("Bit", "bool") else t.w


def to_math(P, bits, t: Ty):
    w = ty_w(t)
    if P is PyP:
        return PyP.wrap(bits, w, True) if t.signed else bits
    bv = D.bvv(bits, w)
    return z3.SignExt(W64 - w, bv) if t.signed else z3.ZeroExt(W64 - w, bv)


def to_bits(P, m, t: Ty):
    w = ty_w(t)
    if isinstance(m, bool):
        return 1 if m else 0
    if isinstance(m, int):
        return m % (1 << w)
    if isinstance(m, z3.BoolRef):
        return z3.If(m, z3.BitVecVal(1, w), z3.BitVecVal(0, w))
    return z3.Extract(w - 1, 0, m)


def _is_arr(t):
    return getattr(t, "kind", None) == "Arr"


def mk_sym(name, t):
    if _is_arr(t):
        return [z3.BitVec(f"{name}[{i}]", ty_w(t.elem)) for i in range(t.n)]
    return z3.BitVec(name, ty_w(t))


def obj_to_math(P, bits, t):
    if _is_arr(t):
        return [to_math(P, b, t.elem) for b in bits]
    return to_math(P, bits, t)


def obj_to_bits(P, m, t):
    if _is_arr(t):
        return [to_bits(P, x, t.elem) for x in m]
    return to_bits(P, P.const(m) if (P is Z3P and isinstance(m, int) and not isinstance(m, bool)) else m, t)


def obj_neq(a, b, t):
    if _is_arr(t):
        r = False
        for x, y in zip(a, b):
            r = D.b_or(r, D.b_not(D.v_eq(x, y, ty_w(t.elem))))
        return r
    return D.b_not(D.v_eq(a, b, ty_w(t)))


def obj_model(model, x):
    if isinstance(x, list):
        return [obj_model(model, e) for e in x]
    return _mv(model, x)


def obj_default_bits(o):
    t = o.ty
    if _is_arr(t):
        d = o.default if isinstance(o.default, list) else [o.default or 0] * t.n
        return [x % (1 << ty_w(t.elem)) for x in d]
    return o.default % (1 << ty_w(t))


class VModel:
    """locates R's objects inside the elaborated VHDL"""

    def __init__(self, prog: SeqProgram, lib: VS.Library):
        self.prog, self.lib = prog, lib
        sim = VS.Sim(lib)
        self.loc = {}  # obj name -> ('sig', flat) | ('var', pid, name)
        self.fp = None
        for fp in sim.procs:
            if fp.info is not None and fp.info.label.lower() == prog.proc.lower():
                self.fp = fp
        if self.fp is None:
            raise Unsupported(f"process {prog.proc} not found in emitted text")
        for n, o in prog.objs.items():
            low = n.lower()
            if o.kind == "in":
                self.loc[n] = ("sig", low)
            elif o.kind == "var":
                if low in self.fp.info.vars:
                    self.loc[n] = ("var", self.fp.pid, low)
                else:
                    # never referenced by the process: not emitted at all
                    prog.meta.setdefault("unused", set()).add(n)
            else:
                if "buffer_" + low in sim.sig_t:
                    self.loc[n] = ("sig", "buffer_" + low)
                elif low in sim.sig_t:
                    self.loc[n] = ("sig", low)
                else:
                    raise Unsupported(f"signal {n} not found")
        # the state signal: enum-typed signal written by the process
        self.state_sig = None
        for s in sorted(self.fp.writes):
            if isinstance(sim.sig_t[s], TEnum):
                if self.state_sig is not None:
                    raise Unsupported("more than one enumeration signal written by the process")
                self.state_sig = s
        self.state_t = sim.sig_t[self.state_sig] if self.state_sig else None
        self.nstates = len(self.state_t.lits) if self.state_t else 1
        self.init_state = 0
        if self.state_sig:
            iv = sim.sig_init[self.state_sig]
            self.init_state = iv.x if iv is not None else 0

    def get(self, sim, n):
        l = self.loc[n]
        v = sim.sig[l[1]] if l[0] == "sig" else sim.var[(l[1], l[2])]
        if isinstance(v.x, list):
            return [e.x for e in v.x]
        if isinstance(v.t, TBool):
            # VHDL boolean <-> one bit
            return D.bool_to_bit(v.x)
        return v.x

    def put(self, sim, n, bits):
        l = self.loc[n]
        t = sim.sig_t[l[1]] if l[0] == "sig" else sim.var[(l[1], l[2])].t
        if isinstance(t, TBool):
            bits = D.bit_to_bool(bits)
        val = V(t, [V(t.elem, b) for b in bits]) if isinstance(bits, list) else V(t, bits)
        if l[0] == "sig":
            sim.sig[l[1]] = val
            sim.prev[l[1]] = val
        else:
            sim.var[(l[1], l[2])] = val

    # ---- clocking helpers
    def levels(self):
        return (0, 1) if self.prog.rising else (1, 0)

    def start(self, sim, inputs):
        lo, hi = self.levels()
        sim.elaborate({self.prog.clk: lo, **inputs})

    def clock(self, sim, inputs):
        """inputs change on the inactive edge, then the active edge"""
        lo, hi = self.levels()
        sim.instant({self.prog.clk: lo, **inputs})
        sim.instant({self.prog.clk: hi})


def state_objs(prog):
    return [n for n, o in prog.objs.items() if o.kind != "in" and n not in prog.meta.get("unused", ())]


def input_objs(prog):
    return [n for n, o in prog.objs.items() if o.kind == "in"]


class Result:
    def __init__(self):
        self.pairs = []
        self.closed = False
        self.bounded_k = None
        self.violation = None  # dict
        self.inconclusive = []
        self.queries = 0
        self.notes = []


def _reset_inactive(prog):
    return {} if prog.reset is None else {prog.reset: 1 - prog.reset_active}


def pair_induction(stats, prog: SeqProgram, lib, ref: RefProc, vm: VModel, timeout_ms=20000, check_reset=True) -> Result:
    res = Result()
    names = state_objs(prog)
    ins = input_objs(prog)
    work = [(START, vm.init_state)]
    seen = set(work)
    while work:
        pc, k = work.pop(0)
        res.pairs.append((pc, k))
        sim = VS.Sim(lib, arbitrary_state=True, tag=f"!{pc}!{k}")
        dsym = {n: mk_sym(f"D!{n}", prog.objs[n].ty) for n in names}
        isym = {n: z3.BitVec(f"I!{n}", ty_w(prog.objs[n].ty)) for n in ins}
        for n in names:
            vm.put(sim, n, dsym[n])
        if vm.state_sig:
            sim.sig[vm.state_sig] = V(vm.state_t, k)
        zero_in = {n: 0 for n in ins}
        vm.start(sim, {**zero_in, **_reset_inactive(prog)})
        # combinational copies may have moved; registers must still hold the chosen pre-state
        vm.clock(sim, {**{n: isym[n] for n in ins}, **_reset_inactive(prog)})
        env = {n: obj_to_math(Z3P, dsym[n], prog.objs[n].ty) for n in names}
        for n in prog.meta.get("unused", ()):
            env[n] = prog.objs[n].default or 0
        inputs = {n: to_math(Z3P, isym[n], prog.objs[n].ty) for n in ins}
        try:
            paths = ref.activate(Z3P, pc, env, inputs)
        except RejectExpected as e:
            res.violation = {"kind": "accepted-but-must-reject", "why": str(e), "pair": (pc, k)}
            return res
        pcs, env2 = merge_paths(Z3P, paths, names)
        diffs = []
        for n in names:
            t = prog.objs[n].ty
            diffs.append(obj_neq(vm.get(sim, n), obj_to_bits(Z3P, env2[n], t), t))
        neq = False
        for d in diffs:
            neq = D.b_or(neq, d)
        # emitted assertions / simulation errors must be unreachable as well
        for c, m, w, tm in sim.obligations + sim.errors:
            neq = D.b_or(neq, c)
        r, model = check_sat(stats, sim.constraints + [neq], timeout_ms)
        res.queries += 1
        if r == "sat":
            res.notes.append(f"induction step fails at pair ({pc},{k})")
            res.closed = False
            res.step_cex = {"pair": (pc, k), "data": {n: obj_model(model, dsym[n]) for n in names},
                            "after_V": {n: obj_model(model, vm.get(sim, n)) for n in names},
                            "after_R": {n: obj_model(model, obj_to_bits(Z3P, env2[n], prog.objs[n].ty)) for n in names},
                            "inputs": {n: model.eval(isym[n], model_completion=True).as_long() for n in ins}}
            return res
        if r == "unknown":
            res.inconclusive.append(f"step ({pc},{k}) unknown")
            return res
        # successors
        if vm.state_sig:
            snext = sim.sig[vm.state_sig].x
            for pc2, g in pcs.items():
                if g is False:
                    continue
                found = []
                while True:
                    cons = sim.constraints + ([g] if g is not True else []) + [D.b_not(D.v_eq(snext, kk, vm.state_t.width)) for kk in found]
                    r, model = check_sat(stats, cons, timeout_ms)
                    res.queries += 1
                    if r != "sat":
                        if r == "unknown":
                            res.inconclusive.append(f"successor enumeration ({pc},{k})->{pc2} unknown")
                        break
                    kk = snext if D.is_c(snext) else model.eval(D.bvv(snext, vm.state_t.width), model_completion=True).as_long()
                    found.append(kk)
                    if (pc2, kk) not in seen:
                        seen.add((pc2, kk))
                        work.append((pc2, kk))
                    if D.is_c(snext) or len(found) > vm.nstates:
                        break
        else:
            for pc2, g in pcs.items():
                if g is not False and (pc2, 0) not in seen:
                    seen.add((pc2, 0))
                    work.append((pc2, 0))
        if len(res.pairs) > 400:
            res.notes.append("pair explosion")
            return res
    res.closed = True
    return res


def _expected_after_reset(prog, ref, names, dsym):
    written = ref.written() | {n for n, _ in prog.meta.get("on_reset", [])}
    want = {}
    for n in names:
        o = prog.objs[n]
        if o.default is not None and not o.noreset and n in written:
            want[n] = obj_default_bits(o)
        else:
            want[n] = dsym[n]
    for n, val in prog.meta.get("on_reset", []):
        want[n] = val
    return want


def reset_check(stats, prog: SeqProgram, lib, ref: RefProc, vm: VModel, pairs, timeout_ms=20000):
    """C04: from every discovered control pair and ARBITRARY data (a superset of the reachable
    states) an active reset puts every resettable object at its default, runs the on_reset
    actions, returns the state machine to its first state and leaves everything else unchanged.
    sync: at the active clock edge; async: at any instant, held while active, no effect on release.
    -> list of violation / inconclusive dicts"""
    if prog.reset is None:
        return []
    out = []
    names = state_objs(prog)
    ins = [n for n in input_objs(prog) if n != prog.reset]
    act, inact = prog.reset_active, 1 - prog.reset_active
    lo, hi = vm.levels()

    def fresh_sim(tag, pc, k):
        sim = VS.Sim(lib, arbitrary_state=True, tag=tag)
        dsym = {n: mk_sym(f"D!{n}", prog.objs[n].ty) for n in names}
        for n in names:
            vm.put(sim, n, dsym[n])
        if vm.state_sig:
            sim.sig[vm.state_sig] = V(vm.state_t, k)
        vm.start(sim, {**{n: 0 for n in ins}, prog.reset: inact})
        return sim, dsym

    def isyms(tag):
        return {n: z3.BitVec(f"I{tag}!{n}", 1) for n in ins}

    def differs(sim, want, state_k):
        bad = False
        for n in names:
            bad = D.b_or(bad, obj_neq(vm.get(sim, n), want[n], prog.objs[n].ty))
        if vm.state_sig and state_k is not None:
            bad = D.b_or(bad, D.b_not(D.v_eq(sim.sig[vm.state_sig].x, state_k, vm.state_t.width)))
        return bad

    def decide(sim, bad, scenario, pc, k, dsym):
        r, model = check_sat(stats, sim.constraints + [bad], timeout_ms)
        if r == "sat":
            out.append({"kind": "reset", "scenario": scenario, "pair": (pc, k),
                        "data": {n: obj_model(model, dsym[n]) for n in names},
                        "after": {n: obj_model(model, vm.get(sim, n)) for n in names},
                        "state_after": _mv(model, sim.sig[vm.state_sig].x) if vm.state_sig else None})
        elif r == "unknown":
            out.append({"kind": "inconclusive", "scenario": scenario, "pair": (pc, k)})

    for pc, k in pairs:
        # S1: reset active over a whole clock (asserted at the inactive edge, sampled at the active edge)
        sim, dsym = fresh_sim(f"!S1!{pc}!{k}", pc, k)
        want = _expected_after_reset(prog, ref, names, dsym)
        sim.instant({prog.clk: lo, **isyms("a"), prog.reset: act})
        if prog.reset_async:
            # asynchronous: already effective before any clock edge
            decide(sim, differs(sim, want, vm.init_state), "S2 async reset effective without clock edge", pc, k, dsym)
        sim.instant({prog.clk: hi, **isyms("b")})
        decide(sim, differs(sim, want, vm.init_state), "S1 reset active at the active clock edge", pc, k, dsym)
        if prog.reset_async:
            # held while active: a further full clock with arbitrary inputs changes nothing
            sim.instant({prog.clk: lo, **isyms("c")})
            sim.instant({prog.clk: hi, **isyms("d")})
            decide(sim, differs(sim, want, vm.init_state), "S3 async reset held over further clock edges", pc, k, dsym)
            # release without a clock edge has no effect
            sim.instant({prog.reset: inact})
            decide(sim, differs(sim, want, vm.init_state), "S4 release of async reset without clock edge", pc, k, dsym)
            # assertion at an instant at which only reset changes (clock high and stable)
            sim2, dsym2 = fresh_sim(f"!S5!{pc}!{k}", pc, k)
            want2 = _expected_after_reset(prog, ref, names, dsym2)
            sim2.instant({prog.reset: act})
            decide(sim2, differs(sim2, want2, vm.init_state), "S5 async reset asserted while the clock is stable", pc, k, dsym2)
        else:
            # synchronous: a reset pulse that ends before the active edge must have no effect at all
            sim2, dsym2 = fresh_sim(f"!S6!{pc}!{k}", pc, k)
            sim2.instant({prog.clk: lo, prog.reset: act})
            unchanged = {n: dsym2[n] for n in names}
            decide(sim2, differs(sim2, unchanged, k if vm.state_sig else None), "S6 sync reset has no effect without clock edge", pc, k, dsym2)
    return out


def noninterference(stats, prog: SeqProgram, lib, vm: VModel, pairs, timeout_ms=20000):
    """C08 (2-safety): two runs of one activation from the same control state, the same contents of
    every declared object and the same inputs, but DIFFERENT arbitrary contents of everything else
    the emitted process keeps (compiler temporaries), must agree on every declared object and on
    the next control state.  -> list of dicts (sat = an output depends on a stale intermediate)"""
    out = []
    names = state_objs(prog)
    ins = input_objs(prog)
    for pc, k in pairs:
        sims = []
        dsym = {n: mk_sym(f"D!{n}", prog.objs[n].ty) for n in names}
        isym = {n: z3.BitVec(f"I!{n}", ty_w(prog.objs[n].ty)) for n in ins}
        if prog.reset is not None:
            isym[prog.reset] = 1 - prog.reset_active
        for tag in ("!A", "!B"):
            sim = VS.Sim(lib, arbitrary_state=True, tag=f"{tag}!{pc}!{k}")
            for n in names:
                vm.put(sim, n, dsym[n])
            if vm.state_sig:
                sim.sig[vm.state_sig] = V(vm.state_t, k)
            vm.start(sim, {**{n: 0 for n in ins}, **_reset_inactive(prog)})
            vm.clock(sim, dict(isym))
            sims.append(sim)
        a, b = sims
        diff = False
        for n in names:
            diff = D.b_or(diff, obj_neq(vm.get(a, n), vm.get(b, n), prog.objs[n].ty))
        if vm.state_sig:
            diff = D.b_or(diff, D.b_not(D.v_eq(a.sig[vm.state_sig].x, b.sig[vm.state_sig].x, vm.state_t.width)))
        r, model = check_sat(stats, a.constraints + b.constraints + [diff], timeout_ms)
        if r == "sat":
            stale = {}
            for key, va in a.init_syms.items():
                vb = b.init_syms.get(key)
                if vb is None:
                    continue
                xa, xb = obj_model(model, va.x if not isinstance(va.x, list) else [e.x for e in va.x]), obj_model(model, vb.x if not isinstance(vb.x, list) else [e.x for e in vb.x])
                if xa != xb:
                    stale[key] = (xa, xb)
            out.append({"kind": "stale", "pair": (pc, k), "data": {n: obj_model(model, dsym[n]) for n in names},
                        "inputs": {n: _mv(model, isym[n]) for n in ins},
                        "stale_contents": stale,
                        "after_A": {n: obj_model(model, vm.get(a, n)) for n in names},
                        "after_B": {n: obj_model(model, vm.get(b, n)) for n in names}})
        elif r == "unknown":
            out.append({"kind": "inconclusive", "pair": (pc, k)})
    return out


def replay_stale(prog, lib, vm, finding):
    """concrete confirmation: run the activation twice with the two stale valuations"""
    names = state_objs(prog)
    ins = input_objs(prog)
    res = []
    for which in (0, 1):
        sim = VS.Sim(lib, uninit="zero")
        for key, pair in finding["stale_contents"].items():
            val = pair[which]
            kind, rest = key.split("!", 1)
            if kind == "s0" and rest in sim.sig:
                sim.sig[rest] = V(sim.sig_t[rest], _to_payload(val, sim.sig_t[rest]))
                sim.prev[rest] = sim.sig[rest]
            elif kind == "v0":
                pname, vn = rest.rsplit("!", 1)
                for fp in sim.procs:
                    if fp.info is not None and fp.name == pname and (fp.pid, vn) in sim.var:
                        t = sim.var[(fp.pid, vn)].t
                        sim.var[(fp.pid, vn)] = V(t, _to_payload(val, t))
        for n in names:
            vm.put(sim, n, finding["data"][n])
        if vm.state_sig:
            sim.sig[vm.state_sig] = V(vm.state_t, finding["pair"][1])
        vm.start(sim, {**{n: 0 for n in ins}, **_reset_inactive(prog)})
        vm.clock(sim, dict(finding["inputs"]))
        res.append({n: vm.get(sim, n) for n in names})
    return res[0] != res[1], res


def _mv(model, x):
    if D.is_c(x):
        return x
    r = model.eval(x, model_completion=True)
    return z3.is_true(r) if z3.is_bool(r) else r.as_long()


# --------------------------------------------------------------------------- BMC
def bmc(stats, prog: SeqProgram, lib, ref: RefProc, vm: VModel, K: int, timeout_ms=60000, with_reset=True):
    """K clocks from power-up, symbolic inputs (and reset) per clock.
    -> None (no difference up to K) | 'unknown' | dict(trace=[...], init=..., clock=i)"""
    names = state_objs(prog)
    ins = input_objs(prog)
    sim = VS.Sim(lib, tag="!bmc")
    zero_in = {n: 0 for n in ins}
    vm.start(sim, {**zero_in, **_reset_inactive(prog)})
    P = Z3P
    env = {n: ([P.const(x) for x in v] if isinstance(v, list) else P.const(v)) for n, v in ref.initial_env(P).items()}
    for n in names:
        if prog.objs[n].default is None:
            # no declared initial value: arbitrary at power-up, the same arbitrary pattern on both sides
            env[n] = obj_to_math(P, vm.get(sim, n), prog.objs[n].ty)
    pcg = {START: True}
    written = ref.written()
    trace_syms = []
    solver = z3.Solver()
    solver.set("timeout", timeout_ms)
    for c in sim.constraints:
        solver.add(c)
    n_oblig = 0
    for i in range(K):
        isym = {n: z3.BitVec(f"I{i}!{n}", ty_w(prog.objs[n].ty)) for n in ins}
        trace_syms.append(isym)
        vm.clock(sim, dict(isym))
        inputs = {n: to_math(P, isym[n], prog.objs[n].ty) for n in ins}
        # R: reset or activation
        new_pcg, cand = {}, []
        for pc, g in pcg.items():
            if g is False:
                continue
            paths = ref.activate(P, pc, env, inputs)
            for p in paths:
                gg = p.guard if g is True else (g if p.guard is True else z3.And(g, p.guard))
                cand.append((gg, p.pc, p.env))
        if prog.reset is not None and with_reset:
            rst = isym[prog.reset] == z3.BitVecVal(prog.reset_active, 1)
            renv = dict(env)
            for n in names:
                o = prog.objs[n]
                if o.default is not None and not o.noreset and n in written:
                    renv[n] = obj_to_math(P, obj_default_bits(o), o.ty) if _is_arr(o.ty) else P.const(o.default)
            for n, val in prog.meta.get("on_reset", []):
                renv[n] = P.const(val)
            cand = [(z3.And(z3.Not(rst), g) if g is not True else z3.Not(rst), pc2, e) for g, pc2, e in cand]
            cand.append((rst, START, renv))
        elif prog.reset is not None:
            solver.add(isym[prog.reset] == z3.BitVecVal(1 - prog.reset_active, 1))
        for g, pc2, e in cand:
            new_pcg[pc2] = g if pc2 not in new_pcg else z3.Or(new_pcg[pc2], g)
        new_env = dict(env)
        for n in names:
            val = cand[-1][2][n]
            for g, pc2, e in reversed(cand[:-1]):
                if isinstance(val, list):
                    val = [P.ite(g, x, y) for x, y in zip(e[n], val)]
                else:
                    val = P.ite(g, e[n], val) if not (isinstance(val, int) and isinstance(e[n], int) and val == e[n]) else val
            new_env[n] = val
        env, pcg = new_env, new_pcg
        diff = False
        for n in names:
            t = prog.objs[n].ty
            diff = D.b_or(diff, obj_neq(vm.get(sim, n), obj_to_bits(P, env[n], t), t))
        for c, m, w, tm in sim.obligations[n_oblig:] + []:
            diff = D.b_or(diff, c)
        n_oblig = len(sim.obligations)
        for c in sim.constraints:
            pass
        if diff is False:
            continue
        solver.push()
        solver.add(diff)
        import time as _t
        t0 = _t.time()
        r = solver.check()
        stats.solver_s += _t.time() - t0
        stats.queries += 1
        if r == z3.sat:
            stats.sat += 1
            m = solver.model()
            trace = [{n: m.eval(s[n], model_completion=True).as_long() for n in ins} for s in trace_syms]
            init = {k: eval_model(m, v) for k, v in sim.init_syms.items()}
            solver.pop()
            return {"trace": trace, "init": init, "clock": i}
        if r == z3.unknown:
            stats.unknown += 1
            solver.pop()
            return "unknown"
        stats.unsat += 1
        solver.pop()
    return None


def replay_trace(prog: SeqProgram, lib, ref: RefProc, vm: VModel, trace, init):
    """concrete re-run of V (python ints) and R (python ints); -> (first differing clock | None, log)"""
    names = state_objs(prog)
    ins = input_objs(prog)
    sim = VS.Sim(lib, uninit="zero")
    # install the model's values for uninitialised objects
    for key, val in (init or {}).items():
        kind, rest = key.split("!", 1)
        if kind == "s0" and rest in sim.sig:
            sim.sig[rest] = V(sim.sig_t[rest], _to_payload(val, sim.sig_t[rest]))
            sim.prev[rest] = sim.sig[rest]
        elif kind == "v0":
            pname, vn = rest.rsplit("!", 1)
            for fp in sim.procs:
                if fp.info is not None and fp.name == pname:
                    t = sim.var[(fp.pid, vn)].t
                    sim.var[(fp.pid, vn)] = V(t, _to_payload(val, t))
    vm.start(sim, {**{n: 0 for n in ins}, **_reset_inactive(prog)})
    env = dict(ref.initial_env(PyP))
    pc = START
    written = ref.written()
    log = []
    for i, step in enumerate(trace):
        vm.clock(sim, dict(step))
        inputs = {n: to_math(PyP, step[n], prog.objs[n].ty) for n in ins}
        if prog.reset is not None and step.get(prog.reset, 1 - prog.reset_active) == prog.reset_active:
            for n in names:
                o = prog.objs[n]
                if o.default is not None and not o.noreset and n in written:
                    env[n] = ([o.default] * o.ty.n if _is_arr(o.ty) and not isinstance(o.default, list) else o.default)
            for n, val in prog.meta.get("on_reset", []):
                env[n] = val
            pc = START
        else:
            paths = ref.activate(PyP, pc, env, inputs)
            live = [p for p in paths if p.guard is True]
            assert len(live) == 1, f"R not deterministic: {len(live)} live paths"
            pc, env = live[0].pc, live[0].env
        got = {n: vm.get(sim, n) for n in names}
        want = {n: obj_to_bits(PyP, env[n], prog.objs[n].ty) for n in names}
        asserts = [m for c, m, w, tm in sim.obligations if c is True]
        log.append({"clock": i, "inputs": step, "R_pc": pc, "R": want, "V": got, "V_state": sim.sig[vm.state_sig].x if vm.state_sig else None})
        if got != want or asserts:
            return i, log
    return None, log


def _to_payload(val, t):
    from .vhdl_types import TArr
    if isinstance(t, TArr):
        return [V(t.elem, _to_payload(v, t.elem)) for v in val]
    return val
