"""'constructs' family for C06: small designs that exercise every statement / expression form of the
emitted text which the operator, coroutine and assignment families do not reach: case / with-select
selectors of every kind (whole objects, slices and bits of BitVector / Unsigned / Signed, views, enums,
bits), unclocked sequential processes (inferred sensitivity lists, read-back of driven signals and
output ports), explicit sensitivity, arrays, enumerations, local objects, if-expressions on every type.

Only legality of the emitted text is judged on these (C06); every design is rejected or accepted by cohdl
on its own terms."""
from __future__ import annotations
import itertools

HEADER = '''from __future__ import annotations
import cohdl
from cohdl import Bit, BitVector, Unsigned, Signed, Port, Signal, Variable, Temporary, Array, Attribute, Null, Full, std, enum


class keep(Attribute, type=str): ...


class max_fanout(Attribute, type=int): ...


class Color(enum.Enum):
    red = enum.auto()
    green = enum.auto()
    blue = enum.auto()

'''

PORTS = ["    clk = Port.input(Bit)", "    reset = Port.input(Bit)", "    bv = Port.input(BitVector[4])", "    us = Port.input(Unsigned[4])", "    sg = Port.input(Signed[4])",
         "    b = Port.input(Bit)", "    a = Port.input(Unsigned[4])",
         "    o = Port.output(Unsigned[4], default=Null)", "    ob = Port.output(BitVector[4], default=Null)", "    os = Port.output(Signed[4], default=Null)", "    q = Port.output(Bit, default=Null)"]


def entity(body):
    return "\n".join([HEADER, "class E(cohdl.Entity):"] + PORTS + ["    def architecture(self):"] + ["        " + l for l in body]) + "\n"


CONTEXTS = {
    "clocked": ["@std.sequential(std.Clock(self.clk))", "def proc():"],
    "clocked-reset": ["@std.sequential(std.Clock(self.clk), std.Reset(self.reset))", "def proc():"],
    "unclocked": ["@std.sequential", "def proc():"],
    "concurrent": ["@std.concurrent", "def proc():"],
}

# selector expression, kind of patterns it takes: 'bits:n' string patterns of n bits, 'int:n' integers 0..2^n-1, 'bit'
SELECTORS = [
    ("self.bv", "bits:4"), ("self.bv[3:2]", "bits:2"), ("self.bv[1:0]", "bits:2"), ("self.bv[2]", "bit"),
    ("self.us", "int:4"), ("self.us[3:2]", "bits:2"), ("self.us[1:0]", "bits:2"), ("self.us[0]", "bit"),
    ("self.sg[3:2]", "bits:2"), ("self.sg[1:0]", "bits:2"), ("self.sg[3]", "bit"),
    ("self.bv.unsigned", "int:4"), ("self.bv[2:1].unsigned", "int:2"), ("self.us.bitvector", "bits:4"), ("self.sg.bitvector[3:2]", "bits:2"),
    ("self.sg.unsigned[1:0]", "bits:2"), ("self.b", "bit"),
]


def _patterns(kind):
    k, _, n = kind.partition(":")
    if k == "bit":
        return ["Bit(0)", "Bit(1)"]
    n = int(n)
    if k == "bits":
        return [f'BitVector[{n}]("{v:0{n}b}")' for v in range(min(1 << n, 3))]
    return [str(v) for v in range(min(1 << n, 3))]


def _match_patterns(kind):
    k, _, n = kind.partition(":")
    if k == "bit":
        return ["Bit(0)", "Bit(1)"]
    n = int(n)
    if k == "bits":
        return [f'"{v:0{n}b}"' for v in range(min(1 << n, 3))]
    return [str(v) for v in range(min(1 << n, 3))]


def programs(tier="quick"):
    out = []
    # --- match statements on every selector kind in every sequential context
    for (sel, kind), cname in itertools.product(SELECTORS, ("clocked", "unclocked", "clocked-reset")):
        if kind == "bit":
            continue  # cohdl has no match patterns for single bits
        pats = _match_patterns(kind)
        body = CONTEXTS[cname] + [f"    match {sel}:"]
        for i, p in enumerate(pats):
            body += [f"        case {p}:", f"            self.o <<= self.a + {i}"]
        body += ["        case _:", "            self.o <<= self.a"]
        out.append((f"match|{sel}|{cname}", entity(body)))
    # --- select_with / std.select on every selector kind, concurrent and sequential
    for (sel, kind), cname in itertools.product(SELECTORS, ("concurrent", "clocked", "unclocked")):
        pats = _patterns(kind)
        branches = ", ".join(f"{p}: self.a + {i}" for i, p in enumerate(pats))
        body = CONTEXTS[cname] + [f"    self.o <<= cohdl.select_with({sel}, {{{branches}}}, default=self.a)"]
        out.append((f"select_with|{sel}|{cname}", entity(body)))
        body = CONTEXTS[cname] + [f"    self.o <<= std.select({sel}, {{{branches}}}, default=self.a)"]
        out.append((f"std.select|{sel}|{cname}", entity(body)))
    # --- enum selectors
    for cname in ("clocked", "unclocked"):
        body = ["col = Signal[Color](Color.red, name='col')"] + CONTEXTS[cname] + ["    match col:", "        case Color.red:", "            col.next = Color.green", "            self.q <<= True",
                                                                                "        case Color.green:", "            col.next = Color.blue", "        case _:", "            col.next = Color.red", "            self.q <<= False"]
        out.append((f"match|enum|{cname}", entity(body)))
    body = ["col = Signal[Color](Color.red, name='col')"] + CONTEXTS["concurrent"] + ["    self.o <<= cohdl.select_with(col, {Color.red: self.a, Color.green: self.us}, default=Null)"] + \
        CONTEXTS["clocked"][:1] + ["def step():", "    col.next = Color.green if self.b else Color.blue"]
    out.append(("select_with|enum|concurrent", entity(body)))
    # --- unclocked sequential processes: chains through signals the process itself drives, read-back of output ports
    out.append(("unclocked|chain-through-own-signals", entity(["partial = Signal[Unsigned[4]](name='partial')", "total = Signal[Unsigned[4]](name='total')", "@std.sequential", "def comb():",
                                                              "    partial.next = self.a + self.us", "    total.next = partial + 1", "    self.o <<= total", "    self.q <<= total[3]"])))
    out.append(("unclocked|output-port-read-back", entity(["@std.sequential", "def comb():", "    self.o <<= self.a + 1", "    self.ob <<= self.o.bitvector", "    self.q <<= self.o[0]"])))
    out.append(("unclocked|variable-chain", entity(["@std.sequential", "def comb():", "    v = Variable[Unsigned[4]](self.a)", "    v @= v + self.us", "    self.o <<= v", "    if self.b:", "        self.q <<= v[0]", "    else:", "        self.q <<= self.o[1]"])))
    out.append(("unclocked|if-elif-reads", entity(["s1 = Signal[Bit](name='s1')", "@std.sequential", "def comb():", "    s1.next = self.b & self.us[0]", "    if s1:", "        self.o <<= self.a", "    elif self.sg[3]:", "        self.o <<= self.us",
                                                   "    else:", "        self.o <<= self.o"])))
    out.append(("core-context|explicit-sensitivity", entity(["@cohdl.sequential_context", "def p():", "    cohdl.sensitivity.list(self.clk)", "    if cohdl.rising_edge(self.clk):", "        self.o <<= self.a"])))
    out.append(("core-context|sensitivity-all", entity(["@cohdl.sequential_context", "def p():", "    cohdl.sensitivity.all()", "    self.o <<= self.a + self.us", "    self.q <<= self.o[0]"])))
    out.append(("core-context|falling-edge", entity(["@cohdl.sequential_context", "def p():", "    if cohdl.falling_edge(self.clk):", "        self.o <<= self.a", "        self.q <<= self.o[0]"])))
    out.append(("core-context|async-reset-shape", entity(["@cohdl.sequential_context", "def p():", "    if self.reset:", "        self.o <<= 0", "    elif cohdl.rising_edge(self.clk):", "        self.o <<= self.o + 1"])))
    # --- arrays
    out.append(("array|signal-array-dynamic-index", entity(["arr = Signal[Array[Unsigned[4], 4]](name='arr')", "@std.sequential(std.Clock(self.clk))", "def p():", "    arr[self.us[1:0].unsigned] <<= self.a", "    self.o <<= arr[self.bv[1:0].unsigned]",
                                                            "    self.q <<= arr[2][0]"])))
    # index expressions of plain BitVector type (no numeric interpretation): rejected, or converted legally
    out.append(("array|bitvector-index", entity(["arr = Signal[Array[Unsigned[4], 4]](name='arr')", "@std.sequential(std.Clock(self.clk))", "def p():", "    arr[self.bv[1:0]] <<= self.a", "    self.o <<= arr[self.bv[3:2]]"])))
    out.append(("index|bitvector-index-of-vector", entity(["@std.concurrent", "def p():", "    self.q <<= self.us[self.bv[1:0]]"])))
    out.append(("index|slice-of-unsigned-as-index", entity(["@std.concurrent", "def p():", "    self.q <<= self.bv[self.us[1:0]]"])))
    out.append(("array|variable-array", entity(["@std.sequential(std.Clock(self.clk))", "def p():", "    arr = Variable[Array[BitVector[4], 2]]([self.bv, Null])", "    arr[1] @= self.us.bitvector", "    self.ob <<= arr[self.b]" if False else "    self.ob <<= arr[0] | arr[1]"])))
    # --- if-expressions / merges on every type
    for cname in ("concurrent", "clocked", "unclocked"):
        out.append((f"ifexpr|all-types|{cname}", entity(CONTEXTS[cname] + ["    self.o <<= self.a if self.b else self.us", "    self.ob <<= self.bv if self.us[0] else self.us.bitvector", "    self.os <<= self.sg if self.bv[1] else -self.sg",
                                                                           "    self.q <<= self.b if self.sg[0] else self.us[2]"])))
    # --- signed arithmetic, comparisons, shifts
    for cname in ("concurrent", "unclocked"):
        out.append((f"signed-ops|{cname}", entity(CONTEXTS[cname] + ["    self.os <<= (self.sg + 1) if self.sg < 0 else (self.sg - self.sg[1:0].signed)", "    self.q <<= (self.sg >> 1) >= -2", "    self.o <<= (self.us << 1) | (self.a >> 2)",
                                                                     "    self.ob <<= self.sg.bitvector ^ self.bv"])))
    # --- attributes on signals, variables and temporaries (a temporary is a signal in a concurrent context, a variable in a process)
    out.append(("attributes|signal-variable-temporaries", entity([
        "sig = Signal[BitVector[4]]('0011', name='sig', attributes=[keep('yes')])",
        "@std.concurrent", "def logic():", "    t_conc = Temporary[Unsigned[4]](self.a + 1, attributes=[keep('true'), max_fanout(4)])", "    self.o <<= t_conc + sig.unsigned",
        "@std.sequential(std.Clock(self.clk))", "def proc():", "    t_seq = Temporary[Unsigned[4]](self.a + 2, attributes=[max_fanout(2)])", "    v = Variable[Unsigned[4]](name='v', attributes=[keep('v')])",
        "    v @= t_seq", "    sig.next = v", "    self.ob <<= (v + t_seq).bitvector"])))
    out.append(("attributes|unclocked-process-temporary", entity([
        "@std.sequential", "def comb():", "    t = Temporary[Unsigned[4]](self.a & self.us, attributes=[keep('x')])", "    self.o <<= t + 1"])))
    # --- texts that end up inside comments and string literals
    # entities without ports: no port clause in the declaration, the instantiation statement is still terminated
    out.append(("hierarchy|instance-of-entity-without-ports", entity(["class NoPorts(cohdl.Entity):", "    def architecture(self):", "        s = Signal[Bit](False, name='s')", "        @std.concurrent", "        def logic():", "            s.next = ~s",
                                                                    "NoPorts()", "@std.concurrent", "def l():", "    self.o <<= self.a"])))
    out.append(("text|comment-with-line-breaks", entity(["@std.sequential(std.Clock(self.clk))", "def p():", "    cohdl.comment('first line\\nsecond line', 'third')", "    self.o <<= self.a"])))
    out.append(("text|assert-message-with-quotes", entity(["@std.sequential(std.Clock(self.clk))", "def p():", "    assert self.b, 'say \"hi\" twice'", "    self.o <<= self.a"])))
    out.append(("text|assert-message-with-line-break", entity(["@std.sequential(std.Clock(self.clk))", "def p():", "    assert self.b, 'one\\ntwo'", "    self.o <<= self.a"])))
    # --- local objects and helper functions with early return
    out.append(("locals|signal-alias-and-helper", entity(["def pick(x, y, c):", "    if c:", "        return x + 1", "    return y", "@std.sequential(std.Clock(self.clk), std.Reset(self.reset))", "def p():", "    loc = Signal[Unsigned[4]](self.a + self.us)",
                                                          "    tmp = pick(loc, self.a, self.b)", "    self.o <<= tmp", "    self.q <<= loc[3] | tmp[0]"])))
    return [(k, s, "E") for k, s in out]
