"""E-PY harness for C07: the real usage check of ir.EntityTemplate.__init__ with symbolic
placements of three writers (context index, object, target part) and one sub-entity output."""
from __future__ import annotations
from cohdl import Signal, Variable, Port, Bit, BitVector
from cohdl._core._ir import repr as ir
from cohdl._core._context import EntityInfo


def _conc(i, n):
    for k in range(n):
        if i == k:
            return k
    return 0


def build_and_check(c0, o0, p0, c1, o1, p1, c2, o2, p2):
    """-> True if the design is rejected"""
    ws = [(_conc(c0, 3), _conc(o0, 4), _conc(p0, 3)), (_conc(c1, 3), _conc(o1, 4), _conc(p1, 3)), (_conc(c2, 3), _conc(o2, 4), _conc(p2, 3))]
    sigs = [Signal[BitVector[4]](name="s0"), Signal[BitVector[4]](name="s1"), Port[BitVector[4], Port.Direction.INPUT](name="pin"), Variable[BitVector[4]](name="v0")]
    src = Signal[BitVector[4]](name="src")
    ctxs = []
    loc = None
    for ci in range(3):
        stmts = []
        for (c, o, p) in ws:
            if c != ci:
                continue
            tgt = sigs[o]
            val = src
            if p == 1:
                tgt, val = tgt[0], src[0]
            elif p == 2:
                tgt, val = tgt[3:2], src[1:0]
            if o == 3:
                stmts.append(ir.VariableAssignment(tgt, val))
            else:
                stmts.append(ir.SignalAssignment(tgt, val))
        if stmts:
            ctxs.append(ir.Concurrent(f"ctx{ci}", ir.CodeBlock(stmts, None), {}, ir.SourceLocation("f", 1, 1) if hasattr(ir, "SourceLocation") else None))
    info = EntityInfo("E", {"pin": sigs[2]}, {}, architecture=lambda self: None)
    try:
        ir.EntityTemplate(info, [], ctxs)
    except (AssertionError, ir.VisitException):
        return True
    return False


def expected_reject(c0, o0, p0, c1, o1, p1, c2, o2, p2):
    ws = [(c0, o0), (c1, o1), (c2, o2)]
    if any(o == 2 for _, o in ws):
        return True  # input port written
    for i in range(3):
        for j in range(i + 1, 3):
            if ws[i][1] == ws[j][1] and ws[i][0] != ws[j][0]:
                return True  # same object (any part) driven / used from two contexts
    return False


def placement_ok(c0, o0, p0, c1, o1, p1, c2, o2, p2) -> bool:
    return build_and_check(c0, o0, p0, c1, o1, p1, c2, o2, p2) == expected_reject(c0, o0, p0, c1, o1, p1, c2, o2, p2)
