"""C10 -- the compile-time Python subset evaluates like CPython: PARTIAL.
Decided here (E-PY, CrossHair): argument binding (FunctionDefinition.bind_args vs
inspect.Signature.bind + apply_defaults) for a bank of 18 signatures x every call shape with
0..5 positionals and any subset of the keyword names {a,b,c,d,x}; starred-target splitting
(PrepareAst._split_target vs real starred assignment).  The construct-by-construct equivalence
of the tracer with CPython is NOT reachable with this technique (see DESIGN 3/C10)."""
from __future__ import annotations
import re

from ..core import Reporter
from .. import chrun
from . import c10_epy as H

PRELUDE = "from vfw.props import c10_epy as H\n"


def functions():
    fs = []
    for fi, f in enumerate(H.BANK):
        n = f"c10_bind_{fi:02d}"
        fs.append((n, f'''def {n}(npos: int, mask: int) -> bool:
    """
    pre: 0 <= npos <= 5 and 0 <= mask <= 31
    post: _
    """
    return H.bind_ok({fi}, npos, mask)
'''))
    fs.append(("c10_split", '''def c10_split(n: int, s: int, L: int) -> bool:
    """
    pre: 1 <= n <= 4 and -1 <= s <= 3 and 0 <= L <= 6
    post: _
    """
    return H.split_ok(n, s, L)
'''))
    for pi, pr in enumerate(H.PROGS.BANK):
        n = f"c10_trace_{pi:02d}"
        fs.append((n, f'''def {n}(a: int, b: int, c: int) -> bool:
    """
    pre: 0 <= a <= 3 and 0 <= b <= 3 and 0 <= c <= 3
    post: _
    """
    return H.trace_ok({pi}, a, b, c)
'''))
    return fs


def census():
    """native census of the program bank: how many selector triples are accepted / rejected / raise under CPython"""
    import itertools
    out = {}
    for pi, pr in enumerate(H.PROGS.BANK):
        acc = rej = err = 0
        for a, b, c in itertools.product(range(4), repeat=3):
            if H.python_eval(pi, a, b, c) is None:
                err += 1
            elif H.cohdl_eval(pi, a, b, c) is None:
                rej += 1
            else:
                acc += 1
        out[pr.__name__] = {"accepted": acc, "rejected_by_cohdl": rej, "raises_in_cpython": err}
    return out


def run(tier: str) -> int:
    rep = Reporter("C10", tier, "other")
    fs = functions()
    res, cpu = chrun.run_functions(fs, PRELUDE, per_cond=600 if tier == "quick" else 1800, chunk=2)
    confirmed = 0
    for fn, (status, msg) in sorted(res.items()):
        rep.stats.queries += 1
        if status == "confirmed":
            confirmed += 1
            rep.stats.unsat += 1
            rep.stats.nontrivial.add(fn)
            continue
        if status == "counterexample":
            rep.stats.sat += 1
            m = re.search(r"calling \w+\(([^)]*)\)", msg)
            vals = [int(x.split("=")[-1]) for x in m.group(1).split(",")] if m else None
            if vals and fn.startswith("c10_bind_"):
                fi = int(fn.split("_")[2])
                if not H.bind_ok(fi, *vals):
                    rep.violation(f"bind|{H.BANK[fi].__name__}|npos={vals[0]}|mask={vals[1]}", "argument binding differs from CPython: " + H.describe(fi, *vals), {"args": vals, "crosshair": msg})
                    continue
            if vals and fn.startswith("c10_trace_"):
                pi = int(fn.split("_")[2])
                if not H.trace_ok_concrete(pi, *vals):
                    rep.violation(f"trace|{H.PROGS.BANK[pi].__name__}", "compile-time evaluation differs from CPython: " + H.trace_describe(pi, *vals), {"args": vals, "prog": H.PROGS.BANK[pi].__name__, "crosshair": msg})
                    continue
            if vals and fn == "c10_split" and not H.split_ok(*vals):
                rep.violation(f"split|n={vals[0]}|star={vals[1]}|len={vals[2]}", f"starred target splitting differs from CPython for {vals}", {"args": vals})
                continue
            rep.inconclusive_query(f"{fn}: counterexample does not reproduce natively: {msg[:150]}")
        else:
            rep.stats.unknown += 1
            rep.inconclusive_query(f"{fn}: {msg[:150]}")
    cen = census()
    usable = [k for k, v in cen.items() if v["accepted"] > 0]
    must_work = [k for k, v in cen.items() if v["raises_in_cpython"] < 64]
    if len(usable) * 2 < len(must_work):
        rep.inconclusive_query(f"only {len(usable)} of {len(must_work)} bank programs are accepted by the compiler at all: the trace-evaluation part is vacuous")
    rep.stats.units |= {"cohdl._compiler.frontend._prepare_ast.PrepareAst.apply_impl (Compare / BinOp dispatch with reflected fallback, BoolOp, Call, constructor emulation, super, properties, comprehensions, starred unpacking, subscripts, constant control flow) -- executed concretely per path",
                        "cohdl._core._collect_ast_and_scope (_ClassifyNames, closure capture)"}
    rep.stats.units |= {"cohdl._core._collect_ast_and_scope.FunctionDefinition.bind_args / from_callable", "cohdl._compiler.frontend._prepare_ast.PrepareAst._split_target"}
    rep.assumptions += ["claimed: argument binding, starred-target splitting, and a bank of %d plain-Python programs over three selectors in 0..3 each (operator dispatch with reflected fallbacks and declining operands, chained comparisons, and/or/not as truth values, parameter kinds, binding errors, closures vs globals, late binding, classes / super / properties / __call__, unpacking, subscripts and slices, comprehensions, constant control flow, builtins): compile-time value == CPython value, or rejected; CPython raises => rejected" % len(H.PROGS.BANK),
                        "the tracer cannot run on symbolic values (it dispatches through unbound builtin descriptors): CrossHair only chooses the selector values path by path, the real tracer then runs concretely (NoTracing); 'Confirmed over all paths' = all 64 selector triples of a program agree. NOT claimed: programs outside the bank (the quantifier over program text)",
                        "signature bank: 18 signatures with every parameter-kind mix up to 4 parameters; call shapes: 0..5 positionals x any subset of 5 keyword names"]
    return rep.finish({
        "explanation": f"{len(fs)} CrossHair conditions ({confirmed} confirmed over all paths, cpu {round(cpu)} s): 18 signatures x 192 call shapes each + starred target splitting + {len(H.PROGS.BANK)} bank programs x 64 selector triples; partial claim",
        "program_census": cen,
        "evaluations": len(fs), "distinct_nontrivial": len(rep.stats.nontrivial), "conditions": len(fs), "confirmed": confirmed,
        "samples": [{"condition": fs[13][0], "signature": str(H.SIGS[13])}],
    })
