"""Bounded model checking of a compiled wrapper entity against a reference machine / monitor
(DESIGN 2.6 `bmc` + `monitor`).  The monitor is ordinary Python over the folding domain (dom.py),
so the very same monitor code runs symbolically (z3 terms) and concretely (replay)."""
from __future__ import annotations
import time
import z3

from . import dom as D
from . import vhdl_sim as VS
from .vhdl_types import V, eval_model, TArr
from .core import try_compile, reset_cohdl_state, text_hash
from .vhdl_parse import Illegal, Unsupported


class Monitor:
    """subclass: reset() and step(i, ins, outs) using D.* operations.
    self.assume(cond) -- environment assumption; self.check(cond, msg) -- obligation"""

    def __init__(self):
        self.assumes = []
        self.checks = []  # (violated_cond, msg, clock)
        self.i = 0

    def assume(self, c):
        if c is not True:
            self.assumes.append(c)

    def check(self, c, msg):
        bad = D.b_not(c)
        if bad is not False:
            self.checks.append((bad, msg, self.i))


def ite(c, a, b, w):
    return D.v_ite(c, a, b, w)


def compile_design(wd, source, entity, stem="bmc"):
    try:
        mod = wd.load(source, stem)
        text, exc = try_compile(getattr(mod, entity))
    except BaseException as e:
        if isinstance(e, (KeyboardInterrupt, SystemExit)):
            raise
        reset_cohdl_state()
        text, exc = None, e
    return text, exc


def run_bmc(stats, lib, inputs: dict, outputs: list, K: int, make_monitor, *, clk="clk", rising=True, timeout_ms=120000,
            extra_instants=None):
    """inputs: name -> width of every non-clock input port; outputs: port/signal names handed to the monitor.
    -> ('ok', info) | ('violation', dict) | ('unknown', why) | ('vacuous', why)"""
    lo, hi = (0, 1) if rising else (1, 0)

    def drive(sim, mon, trace_fn):
        sim.elaborate({clk: lo, **{n: 0 for n in inputs}})
        for i in range(K):
            mon.i = i
            ins = trace_fn(i)
            sim.instant({clk: lo, **ins})
            sim.instant({clk: hi})
            outs = {n: _payload(sim.sig[n.lower()]) for n in outputs}
            mon.step(i, ins, outs)

    sim = VS.Sim(lib, tag="!bmc")
    mon = make_monitor()
    syms = []

    def sym_trace(i):
        d = {n: z3.BitVec(f"I{i}!{n}", w) for n, w in inputs.items()}
        syms.append(d)
        return d

    drive(sim, mon, sym_trace)
    bad = False
    for c, m, i in mon.checks:
        bad = D.b_or(bad, c)
    for c, m, w, tm in sim.obligations:
        bad = D.b_or(bad, c)
    for c, m, w, tm in sim.errors:
        bad = D.b_or(bad, c)
    s = z3.SolverFor("QF_BV")
    s.set("timeout", timeout_ms)
    for c in sim.constraints:
        s.add(c)
    for a in mon.assumes:
        s.add(D.boolv(a))
    t0 = time.time()
    # reachability twin: the assumptions must be satisfiable
    r0 = s.check()
    stats.queries += 1
    if r0 != z3.sat:
        stats.solver_s += time.time() - t0
        return ("vacuous" if r0 == z3.unsat else "unknown"), "environment assumptions unsatisfiable"
    stats.sat += 1
    # the witness of the twin is replayed concretely (same interpreter and monitor code on Python ints): every
    # obligation must hold on it and every assumption must be true -- cross-check of symbolic vs concrete semantics
    m0 = s.model()
    wtrace = [{n: m0.eval(sy[n], model_completion=True).as_long() for n in inputs} for sy in syms]
    winit = {k: eval_model(m0, v) for k, v in sim.init_syms.items()}

    def witness_ok():
        a_ok, failed, _ = _concrete(lib, make_monitor, drive, wtrace, winit)
        return a_ok and not failed

    if bad is False:
        stats.solver_s += time.time() - t0
        return "ok", {"obligations": len(mon.checks) + len(sim.obligations), "trivially": True}
    s.add(D.boolv(bad))
    r = s.check()
    stats.solver_s += time.time() - t0
    stats.queries += 1
    if r == z3.unsat:
        stats.unsat += 1
        if not witness_ok():
            return "unknown", "unsat, but the concrete replay of the reachability witness fails an obligation or assumption (symbolic/concrete disagreement)"
        stats.extra["traces_validated"] = stats.extra.get("traces_validated", 0) + 1
        return "ok", {"obligations": len(mon.checks) + len(sim.obligations) + len(sim.errors)}
    if r == z3.unknown:
        stats.unknown += 1
        return "unknown", "solver"
    stats.sat += 1
    m = s.model()
    trace = [{n: m.eval(sy[n], model_completion=True).as_long() for n in inputs} for sy in syms]
    init = {k: eval_model(m, v) for k, v in sim.init_syms.items()}
    a_ok, failed, log = _concrete(lib, make_monitor, drive, trace, init)
    if not a_ok:
        return "unknown", "model violates an assumption concretely"
    if not failed:
        return "unknown", "counterexample does not reproduce concretely"
    return "violation", {"failed": failed[:4], "trace": trace, "init": init, "log": log[: failed[0][1] + 2 if isinstance(failed[0][1], int) else None]}


def _concrete(lib, make_monitor, drive, trace, init):
    """concrete run of the same text + monitor -> (assumptions hold, failed obligations, log)"""
    sim2 = VS.Sim(lib, uninit="zero")
    _install_init(sim2, init)
    mon2 = make_monitor()
    log = []
    orig_step = mon2.step

    def step(i, ins, outs):
        log.append({"clock": i, "in": ins, "out": outs})
        orig_step(i, ins, outs)

    mon2.step = step
    drive(sim2, mon2, lambda i: dict(trace[i]))
    if any(a is False for a in mon2.assumes):
        return False, [], log
    failed = [(msg, i) for c, msg, i in mon2.checks if c is True]
    failed += [(f"emitted assertion: {msg}", tm) for c, msg, w, tm in sim2.obligations if c is True]
    failed += [(f"simulation error: {msg}", tm) for c, msg, w, tm in sim2.errors if c is True]
    return True, failed, log


def _payload(v):
    if isinstance(v.x, list):
        return [_payload(e) for e in v.x]
    return v.x


def _install_init(sim, init):
    for key, val in (init or {}).items():
        kind, rest = key.split("!", 1)
        if kind == "s0" and rest in sim.sig:
            sim.sig[rest] = V(sim.sig_t[rest], _to_payload(val, sim.sig_t[rest]))
            sim.prev[rest] = sim.sig[rest]
        elif kind == "v0":
            pname, vn = rest.rsplit("!", 1)
            for fp in sim.procs:
                if fp.info is not None and fp.name == pname and (fp.pid, vn) in sim.var:
                    t = sim.var[(fp.pid, vn)].t
                    sim.var[(fp.pid, vn)] = V(t, _to_payload(val, t))


def _to_payload(val, t):
    if isinstance(t, TArr):
        return [V(t.elem, _to_payload(v, t.elem)) for v in val]
    return val
