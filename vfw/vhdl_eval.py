"""Expression evaluation (typing + value) for the VHDL subset, numeric_std / std_logic_1164
overloads as listed in DESIGN Appendix A.  Works on the folding domain of dom.py."""
from __future__ import annotations
import z3
from . import dom as D
from .vhdl_parse import (
    Illegal, Unsupported, Name, IntLit, CharLit, StrLit, Call, SliceN, Qualified, Attr,
    Selected, Unary, Binary, Aggregate, Paren,
)
from .vhdl_types import (
    TStd, TBool, TInt, TStr, TVec, TEnum, TArr, STD, BOOL, INT, INT_W, V, norm_vec,
    width_of, v_ite, v_eq,
)

PREDEFINED_TYPES = {"std_logic", "std_ulogic", "std_logic_vector", "std_ulogic_vector", "unsigned", "signed",
                    "boolean", "integer", "natural", "positive", "string", "bit", "bit_vector", "character",
                    "time", "real", "severity_level"}
PREDEFINED_FUNCS = {"resize", "to_integer", "to_unsigned", "to_signed", "shift_left", "shift_right",
                    "rotate_left", "rotate_right", "rising_edge", "falling_edge", "to_x01", "is_x",
                    "std_match", "to_stdlogicvector", "to_bitvector", "to_01", "now"}
PREDEFINED_LITS = {"true", "false", "note", "warning", "error", "failure"}
PREDEFINED_OTHER = {"ieee", "std", "work", "std_logic_1164", "numeric_std", "standard", "textio"}
PREDEFINED = PREDEFINED_TYPES | PREDEFINED_FUNCS | PREDEFINED_LITS | PREDEFINED_OTHER


def int_v(n, static=True):
    return V(INT, n & D.mask(INT_W), static)


def int_signed(x):
    """python value of concrete integer payload"""
    return D.to_signed_int(x, INT_W)


class AmbiguousLiteral(Exception):
    """overloaded enumeration literal whose type must come from context"""


class Evaluator:
    """env must provide:
      resolve(name:str) -> tuple kind,...   kinds: signal/variable/constant/enumlit/type/func
      read_obj(kind, key) -> V
      edge(key, rising:bool) -> bool payload
      runtime_error(cond, msg)   cond true => simulation error
      path -> current path condition payload
    """

    def __init__(self, env):
        self.env = env

    # ---------------------------------------------------------------- helpers
    def ill(self, rule, msg, node=None):
        raise Illegal(rule, msg, getattr(node, "line", None))

    def coerce(self, v: V, t, node=None, what="assignment") -> V:
        """make v assignable to type t (only literal polymorphism; otherwise types must match)"""
        if isinstance(v.t, TStr):
            if isinstance(t, TVec):
                if t.width != v.t.n:
                    self.ill("width", f"{what}: string literal of length {v.t.n} for {t}", node)
                return V(t, v.x, v.static)
            self.ill("type", f"{what}: string literal where {t} expected", node)
        if isinstance(t, TVec):
            if not isinstance(v.t, TVec) or v.t.kind != t.kind:
                self.ill("type", f"{what}: {v.t} where {t} expected", node)
            if v.t.width != t.width:
                self.ill("width", f"{what}: {v.t} where {t} expected", node)
            return V(t, v.x, v.static)
        if isinstance(t, TArr):
            if v.t != t:
                self.ill("type", f"{what}: {v.t} where {t} expected", node)
            return v
        if type(v.t) is not type(t) or (isinstance(t, TEnum) and v.t != t):
            self.ill("type", f"{what}: {v.t} where {t} expected", node)
        return v

    def static_int(self, node) -> int:
        v = self.eval(node)
        if not isinstance(v.t, TInt) or not D.is_c(v.x):
            self.ill("static", "static integer expression required", node)
        return int_signed(v.x)

    # ---------------------------------------------------------------- eval
    def eval(self, n, expect=None) -> V:
        m = getattr(self, "e_" + type(n).__name__, None)
        if m is None:
            raise Unsupported(f"expression {type(n).__name__}")
        return m(n, expect)

    def e_Paren(self, n, expect):
        return self.eval(n.expr, expect)

    def e_IntLit(self, n, expect):
        if n.value >= 1 << 31:
            raise Unsupported("integer literal >= 2**31")
        return int_v(n.value)

    def e_CharLit(self, n, expect):
        if n.ch not in "01":
            raise Unsupported(f"std_logic metavalue '{n.ch}'")
        return V(STD, int(n.ch), True)

    def e_StrLit(self, n, expect):
        if any(c not in "01" for c in n.s):
            if any(c not in "01UXZW-LH" for c in n.s):
                raise Unsupported(f"string literal {n.s!r}")
            # metavalues: 'L'/'H' read as 0/1; 'U', 'X', 'Z', 'W', '-' have no two-valued meaning: an ARBITRARY
            # (but fixed) bit each, like an object without initial value -- only inside executing processes
            meta = getattr(self.env, "meta_literal", None)
            if meta is None:
                raise Unsupported(f"string literal {n.s!r} with metavalues")
            v = V(TStr(len(n.s)), meta(n.s, getattr(n, "line", 0)), False)
            if isinstance(expect, TVec):
                return self.coerce(v, expect, n, "literal")
            return v
        v = V(TStr(len(n.s)), int(n.s, 2) if n.s else 0, True)
        if isinstance(expect, TVec):
            return self.coerce(v, expect, n, "literal")
        return v

    def e_Name(self, n, expect):
        r = self.env.resolve(n.id, n)
        k = r[0]
        if k in ("signal", "variable", "port", "local"):
            return self.env.read_obj(r, n)
        if k == "constant":
            return r[1]
        if k == "enumlit":
            cands = r[1]
            if isinstance(expect, TEnum):
                for c in cands:
                    if c.t == expect:
                        return c
                self.ill("type", f"enumeration literal {n.id} is not of type {expect}", n)
            if len(cands) == 1:
                return cands[0]
            raise AmbiguousLiteral(n.id)
        if k == "builtin_lit":
            return r[1]
        self.ill("type", f"{n.id} ({k}) is not a value", n)

    def e_Qualified(self, n, expect):
        t = self.type_mark(n.tname, n)
        if isinstance(n.expr, Aggregate):
            raise Unsupported("qualified aggregate")
        v = self.eval(n.expr)
        if isinstance(t, str):  # unconstrained vector kind
            if isinstance(v.t, TStr):
                return V(norm_vec(t, v.t.n), v.x, True)
            if isinstance(v.t, TVec) and v.t.kind == t:
                return v
            self.ill("type", f"qualified expression {n.tname}'({v.t})", n)
        return self.coerce(v, t, n, "qualified expression")

    def type_mark(self, name, node):
        """-> type object, or kind string for unconstrained vector types"""
        r = self.env.resolve(name, node)
        if r[0] != "type":
            self.ill("type", f"{name} is not a type", node)
        return r[1]

    def e_Attr(self, n, expect):
        raise Unsupported(f"attribute '{n.attr}")

    def e_Selected(self, n, expect):
        raise Unsupported("selected name")

    def e_Aggregate(self, n, expect):
        if not isinstance(expect, TArr):
            if isinstance(expect, TVec):
                raise Unsupported("vector aggregate")
            self.ill("type", "aggregate without array context", n)
        t = expect
        elems = [None] * t.count
        others = None
        for ch, e in n.items:
            if ch == "others":
                others = e
                continue
            if ch is None:
                raise Unsupported("positional aggregate")
            idx = self.static_int(ch)
            if not (t.lo <= idx <= t.hi):
                self.ill("range", f"aggregate index {idx} outside {t.lo} to {t.hi}", n)
            if elems[idx - t.lo] is not None:
                self.ill("aggregate", f"duplicate aggregate index {idx}", n)
            elems[idx - t.lo] = self.coerce(self.eval(e, t.elem), t.elem, n, "aggregate element")
        if others is not None:
            ov = None
            for i in range(t.count):
                if elems[i] is None:
                    if ov is None:
                        ov = self.coerce(self.eval(others, t.elem), t.elem, n, "aggregate element")
                    elems[i] = ov
        if any(e is None for e in elems):
            self.ill("aggregate", "aggregate does not cover all elements", n)
        return V(t, elems, all(e.static for e in elems))

    # -------------------------------------------------------- index / slice / call
    def e_SliceN(self, n, expect):
        base = self.eval(n.base)
        if not isinstance(base.t, TVec):
            if isinstance(base.t, TArr):
                raise Unsupported("array slice")
            self.ill("type", f"slice of {base.t}", n)
        l, r = self.static_int(n.left), self.static_int(n.right)
        t = base.t
        if n.downto != t.downto:
            self.ill("range", f"slice direction differs from {t}", n)
        if (n.downto and l < r) or ((not n.downto) and l > r):
            raise Unsupported("null slice")
        if not (t.in_range(l) and t.in_range(r)):
            self.ill("range", f"slice ({l},{r}) outside {t}", n)
        hi, lo = t.pos(l), t.pos(r)
        return V(TVec(t.kind, l, r, n.downto), D.v_extract(base.x, hi, lo, t.width))

    def index_value(self, base: V, idx: V, node):
        if not isinstance(idx.t, TInt):
            self.ill("type", f"index of type {idx.t}", node)
        t = base.t
        if isinstance(t, TVec):
            if D.is_c(idx.x):
                i = int_signed(idx.x)
                if not t.in_range(i):
                    if idx.static:
                        self.ill("range", f"index {i} outside {t}", node)
                    self.env.runtime_error(True, f"index {i} out of range for {t}")
                    i = t.right
                p = t.pos(i)
                return V(STD, D.v_extract(base.x, p, p, t.width))
            # run-time index: ite chain over positions
            lo, hi = (t.right, t.left) if t.downto else (t.left, t.right)
            self.env.runtime_error(D.b_or(D.v_slt(idx.x, lo & D.mask(INT_W), INT_W), D.v_slt(hi & D.mask(INT_W), idx.x, INT_W)),
                                   f"index out of range for {t}")
            res = D.v_extract(base.x, t.pos(hi), t.pos(hi), t.width)
            for i in range(hi - 1, lo - 1, -1):
                p = t.pos(i)
                res = D.v_ite(D.v_eq(idx.x, i & D.mask(INT_W), INT_W), D.v_extract(base.x, p, p, t.width), res, 1)
            return V(STD, res)
        if isinstance(t, TArr):
            if D.is_c(idx.x):
                i = int_signed(idx.x)
                if not (t.lo <= i <= t.hi):
                    if idx.static:
                        self.ill("range", f"index {i} outside array {t}", node)
                    self.env.runtime_error(True, f"index {i} out of range for {t}")
                    i = t.lo
                return base.x[i - t.lo]
            self.env.runtime_error(D.b_or(D.v_slt(idx.x, t.lo & D.mask(INT_W), INT_W), D.v_slt(t.hi & D.mask(INT_W), idx.x, INT_W)),
                                   f"index out of range for {t}")
            res = base.x[-1]
            for i in range(t.hi - 1, t.lo - 1, -1):
                res = v_ite(D.v_eq(idx.x, i & D.mask(INT_W), INT_W), base.x[i - t.lo], res)
            return res
        self.ill("type", f"indexing a {t}", node)

    def e_Call(self, n, expect):
        if isinstance(n.fn, Name):
            r = self.env.resolve(n.fn.id, n)
            k = r[0]
            if k == "type":
                return self.conversion(r[1], n)
            if k == "builtin_func":
                return self.builtin(n.fn.id.lower(), n)
            if k == "func":
                return self.env.call_function(r[1], [self.eval(a) for a in n.args], n, self)
            if k not in ("signal", "variable", "port", "constant"):
                self.ill("type", f"{n.fn.id} cannot be called or indexed", n)
        base = self.eval(n.fn)
        if len(n.args) != 1:
            raise Unsupported("multi-dimensional index")
        return self.index_value(base, self.eval(n.args[0]), n)

    def conversion(self, t, n):
        if len(n.args) != 1:
            self.ill("type", "type conversion takes one argument", n)
        a = n.args[0]
        if isinstance(a, (StrLit, Aggregate)) or (isinstance(a, Paren) and isinstance(a.expr, StrLit)):
            self.ill("type", "type conversion of a literal (operand type must be determinable)", n)
        v = self.eval(a)
        if isinstance(t, str):
            if not isinstance(v.t, TVec):
                self.ill("type", f"conversion of {v.t} to {t}", n)
            return V(TVec(t, v.t.left, v.t.right, v.t.downto), v.x, v.static)
        if isinstance(t, TInt):
            if isinstance(v.t, TInt):
                return v
            self.ill("type", f"conversion of {v.t} to integer", n)
        if isinstance(t, (TBool, TStd, TEnum)):
            if v.t == t:
                return v
            self.ill("type", f"conversion of {v.t} to {t}", n)
        raise Unsupported(f"conversion to {t}")

    def builtin(self, f, n):
        args = n.args
        ev = self.eval

        def need(k):
            if len(args) != k:
                self.ill("type", f"{f} expects {k} arguments", n)

        if f in ("rising_edge", "falling_edge"):
            need(1)
            a = args[0]
            while isinstance(a, Paren):
                a = a.expr
            if not isinstance(a, Name):
                raise Unsupported("edge of non-simple name")
            r = self.env.resolve(a.id, a)
            if r[0] not in ("signal", "port") or not isinstance(r[2], TStd):
                self.ill("type", f"{f} needs a std_logic signal", n)
            self.env.read_obj(r, a)
            return V(BOOL, self.env.edge(r, f == "rising_edge"))
        if f == "resize":
            need(2)
            v = ev(args[0])
            nw = self.static_nat(args[1], n)
            if not isinstance(v.t, TVec) or v.t.kind == "slv":
                self.ill("type", f"resize of {v.t}", n)
            if nw < 1:
                raise Unsupported("resize to null vector")
            w = v.t.width
            if v.t.kind == "unsigned":
                x = D.v_zext(v.x, w, nw)
            else:
                if nw >= w:
                    x = D.v_sext(v.x, w, nw)
                elif nw == 1:
                    x = D.v_extract(v.x, w - 1, w - 1, w)
                else:
                    x = D.v_concat(D.v_extract(v.x, w - 1, w - 1, w), 1, D.v_extract(v.x, nw - 2, 0, w), nw - 1)
            return V(norm_vec(v.t.kind, nw), x, v.static)
        if f in ("to_unsigned", "to_signed"):
            need(2)
            v = ev(args[0])
            nw = self.static_nat(args[1], n)
            if not isinstance(v.t, TInt):
                self.ill("type", f"{f} of {v.t}", n)
            if nw < 1:
                raise Unsupported("null vector")
            if f == "to_unsigned":
                self.natural_check(v, n, "to_unsigned argument")
            if nw >= INT_W:
                x = D.v_sext(v.x, INT_W, nw)
            else:
                x = D.v_extract(v.x, nw - 1, 0, INT_W)
            return V(norm_vec("unsigned" if f == "to_unsigned" else "signed", nw), x, v.static)
        if f == "to_integer":
            need(1)
            v = ev(args[0])
            if not isinstance(v.t, TVec) or v.t.kind == "slv":
                self.ill("type", f"to_integer of {v.t}", n)
            w = v.t.width
            if v.t.kind == "unsigned":
                if w > 31:
                    # value may not fit in integer: flag when it does not
                    self.env.runtime_error(D.b_not(D.v_eq(D.v_extract(v.x, w - 1, 31, w), 0, w - 31)), "to_integer overflow")
                    return V(INT, D.v_extract(v.x, 31, 0, w) if w > 32 else D.v_zext(v.x, w, INT_W))
                return V(INT, D.v_zext(v.x, w, INT_W), v.static)
            if w > 32:
                raise Unsupported("to_integer of signed wider than 32")
            return V(INT, D.v_sext(v.x, w, INT_W), v.static)
        if f in ("shift_left", "shift_right"):
            need(2)
            v = ev(args[0])
            c = ev(args[1])
            if not isinstance(v.t, TVec) or v.t.kind == "slv":
                self.ill("type", f"{f} of {v.t}", n)
            if not isinstance(c.t, TInt):
                self.ill("type", f"{f} count of type {c.t}", n)
            self.natural_check(c, n, f"{f} count")
            w = v.t.width
            if D.is_c(c.x):
                cnt = min(int_signed(c.x), w) if int_signed(c.x) >= 0 else 0
            else:
                big = D.v_ule(w, c.x, INT_W)
                cw = D.v_extract(c.x, w - 1, 0, INT_W) if w < INT_W else D.v_zext(c.x, INT_W, w)
                cnt = D.v_ite(big, w & D.mask(w), cw, w)
            if f == "shift_left":
                x = D.v_shl(v.x, cnt, w)
            elif v.t.kind == "unsigned":
                x = D.v_lshr(v.x, cnt, w)
            else:
                x = D.v_ashr(v.x, cnt, w)
            return V(norm_vec(v.t.kind, w), x)
        raise Unsupported(f"builtin {f}")

    def static_nat(self, node, n):
        k = self.static_int(node)
        if k < 0:
            self.ill("range", "negative value for natural parameter", n)
        return k

    def natural_check(self, v: V, node, what):
        if D.is_c(v.x):
            if int_signed(v.x) < 0:
                self.ill("range", f"{what}: negative value for NATURAL parameter", node)
        else:
            self.env.runtime_error(D.v_slt(v.x, 0, INT_W), f"{what}: negative value for NATURAL")

    # ---------------------------------------------------------------- operators
    def e_Unary(self, n, expect):
        v = self.eval(n.arg, expect if n.op == "not" else None)
        t = v.t
        if n.op == "not":
            if isinstance(t, TBool):
                return V(BOOL, D.b_not(v.x), v.static)
            if isinstance(t, TStd):
                return V(STD, D.v_not(v.x, 1), v.static)
            if isinstance(t, TVec):
                return V(norm_vec(t.kind, t.width), D.v_not(v.x, t.width), v.static)
            self.ill("type", f"not {t}", n)
        if n.op in ("-", "+"):
            if isinstance(t, TInt):
                return V(INT, D.v_neg(v.x, INT_W) if n.op == "-" else v.x, v.static)
            if isinstance(t, TVec) and t.kind == "signed":
                return V(norm_vec("signed", t.width), D.v_neg(v.x, t.width) if n.op == "-" else v.x)
            self.ill("type", f"unary {n.op} on {t}", n)
        if n.op == "abs":
            if isinstance(t, TInt):
                return V(INT, D.v_ite(D.v_slt(v.x, 0, INT_W), D.v_neg(v.x, INT_W), v.x, INT_W))
            if isinstance(t, TVec) and t.kind == "signed":
                w = t.width
                return V(norm_vec("signed", w), D.v_ite(D.v_slt(v.x, 0, w), D.v_neg(v.x, w), v.x, w))
            self.ill("type", f"abs on {t}", n)
        raise Unsupported(n.op)

    def e_Binary(self, n, expect):
        op = n.op
        if op in ("and", "or", "xor", "nand", "nor", "xnor"):
            a, b = self.eval(n.lhs, expect), self.eval(n.rhs, expect)
            return self.logical(op, a, b, n)
        if op in ("=", "/=", "<", "<=", ">", ">="):
            try:
                a = self.eval(n.lhs)
            except AmbiguousLiteral:
                b = self.eval(n.rhs)
                a = self.eval(n.lhs, b.t)
            else:
                b = self.eval(n.rhs, a.t if isinstance(a.t, TEnum) else None)
            return self.compare(op, a, b, n)
        a, b = self.eval(n.lhs), self.eval(n.rhs)
        if op == "&":
            return self.concat(a, b, n, expect)
        if op in ("+", "-", "*", "/", "mod", "rem"):
            return self.arith(op, a, b, n)
        raise Unsupported(op)

    def logical(self, op, a, b, n):
        neg = op in ("nand", "nor", "xnor")
        base = {"nand": "and", "nor": "or", "xnor": "xor"}.get(op, op)
        if isinstance(a.t, TStr) and isinstance(b.t, TVec):
            a = self.coerce(a, b.t, n)
        if isinstance(b.t, TStr) and isinstance(a.t, TVec):
            b = self.coerce(b, a.t, n)
        ta, tb = a.t, b.t
        if isinstance(ta, TBool) and isinstance(tb, TBool):
            x = {"and": D.b_and, "or": D.b_or, "xor": D.b_xor}[base](a.x, b.x)
            return V(BOOL, D.b_not(x) if neg else x)
        if isinstance(ta, TStd) and isinstance(tb, TStd):
            x = {"and": D.v_and, "or": D.v_or, "xor": D.v_xor}[base](a.x, b.x, 1)
            return V(STD, D.v_not(x, 1) if neg else x)
        if isinstance(ta, TVec) and isinstance(tb, TVec) and ta.kind == tb.kind:
            if ta.width != tb.width:
                self.ill("width", f"'{op}' on {ta} and {tb}", n)
            w = ta.width
            x = {"and": D.v_and, "or": D.v_or, "xor": D.v_xor}[base](a.x, b.x, w)
            return V(norm_vec(ta.kind, w), D.v_not(x, w) if neg else x)
        self.ill("type", f"'{op}' on {ta} and {tb}", n)

    def _cmp_bits(self, op, ax, bx, w, signed):
        if op == "=":
            return D.v_eq(ax, bx, w)
        if op == "/=":
            return D.b_not(D.v_eq(ax, bx, w))
        lt, le = (D.v_slt, D.v_sle) if signed else (D.v_ult, D.v_ule)
        if op == "<":
            return lt(ax, bx, w)
        if op == "<=":
            return le(ax, bx, w)
        if op == ">":
            return lt(bx, ax, w)
        return le(bx, ax, w)

    def compare(self, op, a, b, n):
        ta, tb = a.t, b.t
        if isinstance(ta, TStr) and isinstance(tb, TStr):
            self.ill("type", "comparison of two string literals is ambiguous", n)
        if isinstance(ta, TStr) and isinstance(tb, TVec):
            a = V(norm_vec(tb.kind, ta.n), a.x, True)
            ta = a.t
        if isinstance(tb, TStr) and isinstance(ta, TVec):
            b = V(norm_vec(ta.kind, tb.n), b.x, True)
            tb = b.t
        if isinstance(ta, TVec) and isinstance(tb, TVec):
            if ta.kind != tb.kind:
                self.ill("type", f"comparison {ta} {op} {tb}", n)
            if ta.kind == "slv":
                if ta.width != tb.width:
                    # predefined array equality: legal but always false; ordering lexicographic.
                    self.ill("width", f"std_logic_vector comparison of different lengths {ta} {op} {tb}", n)
                if op not in ("=", "/="):
                    raise Unsupported("ordering on std_logic_vector")
                return V(BOOL, self._cmp_bits(op, a.x, b.x, ta.width, False))
            w = max(ta.width, tb.width)
            sg = ta.kind == "signed"
            ext = D.v_sext if sg else D.v_zext
            return V(BOOL, self._cmp_bits(op, ext(a.x, ta.width, w), ext(b.x, tb.width, w), w, sg))
        # vector vs integer
        for (x, y, flip) in ((a, b, False), (b, a, True)):
            if isinstance(x.t, TVec) and isinstance(y.t, TInt):
                if x.t.kind == "slv":
                    self.ill("type", f"comparison of std_logic_vector with integer", n)
                w = max(x.t.width + 1, INT_W + 1)
                if x.t.kind == "unsigned":
                    self.natural_check(y, n, "unsigned/natural comparison")
                    xx = D.v_zext(x.x, x.t.width, w)
                else:
                    xx = D.v_sext(x.x, x.t.width, w)
                yy = D.v_sext(y.x, INT_W, w)
                if flip:
                    return V(BOOL, self._cmp_bits(op, yy, xx, w, True))
                return V(BOOL, self._cmp_bits(op, xx, yy, w, True))
        if isinstance(ta, TInt) and isinstance(tb, TInt):
            return V(BOOL, self._cmp_bits(op, a.x, b.x, INT_W, True), a.static and b.static)
        if isinstance(ta, TStd) and isinstance(tb, TStd):
            if op not in ("=", "/="):
                raise Unsupported("ordering on std_logic")
            return V(BOOL, self._cmp_bits(op, a.x, b.x, 1, False))
        if isinstance(ta, TBool) and isinstance(tb, TBool):
            if op == "=":
                return V(BOOL, D.b_eq(a.x, b.x))
            if op == "/=":
                return V(BOOL, D.b_xor(a.x, b.x))
            raise Unsupported("ordering on boolean")
        if isinstance(ta, TEnum) and ta == tb:
            return V(BOOL, self._cmp_bits(op, a.x, b.x, ta.width, False))
        if isinstance(ta, TArr) and ta == tb and op in ("=", "/="):
            e = v_eq(a, b)
            return V(BOOL, e if op == "=" else D.b_not(e))
        self.ill("type", f"comparison {ta} {op} {tb}", n)

    def concat(self, a, b, n, expect):
        def as_vec(v, other):
            if isinstance(v.t, TStr):
                k = other.t.kind if isinstance(other.t, TVec) else (expect.kind if isinstance(expect, TVec) else None)
                if k is None:
                    raise Unsupported("concatenation of literals without context")
                return k, v.x, v.t.n
            if isinstance(v.t, TVec):
                return v.t.kind, v.x, v.t.width
            if isinstance(v.t, TStd):
                return None, v.x, 1
            self.ill("type", f"'&' on {v.t}", n)

        ka, ax, wa = as_vec(a, b)
        kb, bx, wb = as_vec(b, a)
        if ka is None and kb is None:
            k = expect.kind if isinstance(expect, TVec) else "slv"
        elif ka is None or kb is None:
            k = ka or kb
        else:
            if ka != kb:
                self.ill("type", f"'&' on {a.t} and {b.t}", n)
            k = ka
        return V(norm_vec(k, wa + wb), D.v_concat(ax, wa, bx, wb))

    def arith(self, op, a, b, n):
        ta, tb = a.t, b.t
        if isinstance(ta, TInt) and isinstance(tb, TInt):
            w = INT_W
            if op in ("/", "mod", "rem"):
                self.div_check(b, n)
            f = {"+": D.v_add, "-": D.v_sub, "*": D.v_mul, "/": D.v_sdiv, "mod": D.v_smod, "rem": D.v_srem}[op]
            return V(INT, f(a.x, b.x, w), a.static and b.static)
        va, vb = isinstance(ta, TVec), isinstance(tb, TVec)
        if not (va or vb):
            self.ill("type", f"'{op}' on {ta} and {tb}", n)
        vec = ta if va else tb
        if vec.kind == "slv":
            self.ill("type", f"arithmetic '{op}' on std_logic_vector", n)
        sg = vec.kind == "signed"
        ext = D.v_sext if sg else D.v_zext

        def from_int(v, w):
            # numeric_std: TO_UNSIGNED / TO_SIGNED (value, w) -- truncating (with a warning)
            if not sg:
                self.natural_check(v, n, f"'{op}' integer operand")
            return D.v_extract(v.x, w - 1, 0, INT_W) if w <= INT_W else D.v_sext(v.x, INT_W, w)

        if va and vb:
            if ta.kind != tb.kind:
                self.ill("type", f"'{op}' on {ta} and {tb}", n)
            wa, wb = ta.width, tb.width
        elif va and isinstance(tb, TInt):
            # numeric_std does not truncate the integer operand of / mod rem
            wa = ta.width
            wb = wa if op in ("+", "-", "*") else max(wa, INT_W + 1)
            b = V(ta, from_int(b, wb))
        elif vb and isinstance(ta, TInt):
            wb = tb.width
            wa = wb if op in ("+", "-", "*") else max(wb, INT_W + 1)
            a = V(tb, from_int(a, wa))
        elif va and isinstance(tb, TStd) and op in ("+", "-"):
            raise Unsupported("vector + std_logic (2008)")
        else:
            self.ill("type", f"'{op}' on {ta} and {tb}", n)
        k = vec.kind
        if op in ("+", "-"):
            w = max(wa, wb)
            f = D.v_add if op == "+" else D.v_sub
            return V(norm_vec(k, w), f(ext(a.x, wa, w), ext(b.x, wb, w), w))
        if op == "*":
            w = wa + wb
            return V(norm_vec(k, w), D.v_mul(ext(a.x, wa, w), ext(b.x, wb, w), w))
        # division family
        self.div_check(b, n)
        w = max(wa, wb)
        ax, bx = ext(a.x, wa, w), ext(b.x, wb, w)
        if op == "/":
            r = (D.v_sdiv if sg else D.v_udiv)(ax, bx, w)
            rw = wa
        elif op == "rem":
            r = (D.v_srem if sg else D.v_urem)(ax, bx, w)
            rw = wb
        else:
            r = (D.v_smod if sg else D.v_urem)(ax, bx, w)
            rw = wb
        # numeric_std: vector/integer forms return the vector length
        if va and not vb:
            rw = wa
        if vb and not va:
            rw = wb
        return V(norm_vec(k, rw), D.v_extract(r, rw - 1, 0, w) if rw < w else r)

    def div_check(self, b, n):
        w = width_of(b.t)
        if D.is_c(b.x):
            if b.x == 0:
                if b.static:
                    self.ill("range", "division by constant zero", n)
                self.env.runtime_error(True, "division by zero")  # concrete run: a simulation error, not a property of the text
        else:
            self.env.runtime_error(D.v_eq(b.x, 0, w), "division by zero")
