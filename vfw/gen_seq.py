"""'seqbody' program family (DESIGN Appendix C): straight-line and branching bodies of plain
(non-coroutine) sequential contexts: signals, variables, slices, push targets, locally constructed
objects, if/elif/else, match, for-break/else chains, helper functions returning from branches,
cohdl.always."""
from __future__ import annotations
import random
from .refsem import Obj
from .refseq import ArrTy
from .spec import U, BV, BIT, Ty
from .seqcheck import SeqProgram

HEADER = '''from __future__ import annotations
import cohdl
from cohdl import Bit, BitVector, Unsigned, Signed, Port, Signal, Variable, Array, Null, Full, std
from cohdl import true, false, always, select_with


def helper0(a, b, c):
    if c:
        return a + b
    return a - b


def helper1(a, b, c, d):
    if c:
        if d:
            return a
        return b
    else:
        return a ^ b


def helper2(sig, val, c):
    if c:
        sig <<= val
        return
    sig <<= val + 1


def helper4(x, c, d, flag):
    if c:
        if d:
            return x + 1
        flag <<= True
    return x


def helper5(x, y, c, d):
    if c:
        if d:
            return x
    else:
        if d:
            return y
        return x ^ y
    return x & y


def helper8(sig, val):
    # executes a statement and returns a compile-time constant
    sig <<= val
    return True


def helper9(flag, v):
    flag ^= True
    v @= v + 1
    return 1 > 0


def helper10(sig, other, val, bits):
    # for loop whose body ends in return: the statements after the loop run when no iteration matched
    for i in range(3):
        if bits[i]:
            sig <<= val + i
            return
    other <<= val


def helper11(val, bits):
    for i in range(3):
        if bits[i]:
            return val + i
    return val - 1


def helper6(acc, p, q, c0, c1):
    # the if-body falls through, a later branch returns, code follows the statement
    if c0:
        acc @= p
    elif c1:
        return q
    acc @= acc + 1
    return p


def helper7(sig, p, q, c0, c1):
    if c0:
        sig <<= p
    elif c1:
        sig <<= q
        return p + q
    else:
        return q
    sig <<= p + 1
    return p

'''

LOCALS = {"loc": ("Signal", U(3)), "lv": ("Variable", U(3)), "lb": ("Signal", BV(2))}


def render(body_lines, reset="sync", ename="Seq", use_arr=False, locals_used=(), extra_objs=None):
    lines = [HEADER, f"class {ename}(cohdl.Entity):", "    clk = Port.input(Bit)"]
    if reset != "none":
        lines.append("    reset = Port.input(Bit)")
    lines += ["    a = Port.input(Unsigned[3])", "    b = Port.input(Unsigned[3])", "    c = Port.input(Bit)", "    d = Port.input(Bit)",
              "    sel = Port.input(BitVector[2])", "    idx = Port.input(Unsigned[2])",
              "    o1 = Port.output(Unsigned[3], default=Null)", "    o2 = Port.output(Unsigned[3], default=Null)",
              "    ob = Port.output(Bit, default=Null)", "    ov = Port.output(BitVector[4], default=Null)",
              "    p = Port.output(Unsigned[3], default=Unsigned[3](5))", "    oa = Port.output(Unsigned[2], default=Null)",
              "    pv = Port.output(BitVector[3], default=BitVector[3]('010'))"] + \
        (["    pn = Port.output(Bit, default=False, noreset=True)"] if any("self.pn" in ln for ln in body_lines) else []) + [
              "    def architecture(self):",
              "        x = Variable[Unsigned[3]](Null, name='x')", "        y = Variable[Unsigned[3]](Null, name='y')"]
    use_vb = any("vb" in ln.replace("ovb", "") for ln in body_lines)
    if use_vb:
        lines.append("        vb = Variable[bool](False, name='vb')")
    if use_arr:
        lines.append("        arr = Signal[Array[Unsigned[2], 4]](Null, name='arr')")
        lines.append("        ptr = Variable[Unsigned[2]](Null, name='ptr')")
    if reset == "sync":
        lines.append("        @std.sequential(std.Clock(self.clk), std.Reset(self.reset))")
    elif reset == "async":
        lines.append("        @std.sequential(std.Clock(self.clk), std.Reset(self.reset, is_async=True))")
    else:
        lines.append("        @std.sequential(std.Clock(self.clk))")
    lines.append("        def proc():")
    lines.append("            nonlocal x, y" + (", ptr" if use_arr else "") + (", vb" if use_vb else ""))
    for ln in body_lines:
        lines.append("            " + ln)
    src = "\n".join(lines) + "\n"
    objs = {"a": Obj("a", U(3), "in"), "b": Obj("b", U(3), "in"), "c": Obj("c", BIT, "in"), "d": Obj("d", BIT, "in"),
            "sel": Obj("sel", BV(2), "in"), "idx": Obj("idx", U(2), "in")}
    if reset != "none":
        objs["reset"] = Obj("reset", BIT, "in")
    objs.update({"o1": Obj("o1", U(3), "out", 0), "o2": Obj("o2", U(3), "out", 0), "ob": Obj("ob", BIT, "out", 0),
                 "ov": Obj("ov", BV(4), "out", 0), "p": Obj("p", U(3), "out", 5), "oa": Obj("oa", U(2), "out", 0), "pv": Obj("pv", BV(3), "out", 2),
                 "x": Obj("x", U(3), "var", 0), "y": Obj("y", U(3), "var", 0)})
    if use_arr:
        objs["arr"] = Obj("arr", ArrTy(U(2), 4), "signal", 0)
        objs["ptr"] = Obj("ptr", U(2), "var", 0)
    if use_vb:
        objs["vb"] = Obj("vb", Ty("bool"), "var", 0)
    if any("self.pn" in ln for ln in body_lines):
        objs["pn"] = Obj("pn", BIT, "out", 0, noreset=True)
    for n in locals_used:
        q, t = LOCALS[n]
        objs[n] = Obj(n, t, "var" if q == "Variable" else "signal", None, local=True)
    return SeqProgram(source=src, objs=objs, proc="proc", reset="reset" if reset != "none" else None, entity=ename,
                      reset_async=reset == "async", meta={"body": body_lines})


LEAVES = ["self.a", "self.b", "x", "y", "1", "3", "self.o1"]
CONDS = ["self.c", "self.d", "self.a > self.b", "x == 3", "not self.c", "self.c and self.d", "self.a[0]", "self.c or self.b == 2", 'self.sel == "10"']


def expr(rng, depth=2):
    if depth == 0 or rng.random() < 0.3:
        return rng.choice(LEAVES)
    r = rng.random()
    a, b = expr(rng, depth - 1), expr(rng, depth - 1)
    if a.isdigit() and b.isdigit():
        a = "self.a"
    if r < 0.75:
        op = rng.choice(['+', '-', '&', '|', '^'])
        if op in "&|^":
            a = "self.b" if a.isdigit() else a
            b = "y" if b.isdigit() else b
        return f"({a} {op} {b})"
    if r < 0.9:
        return f"({a} if {rng.choice(CONDS)} else {b})"
    if a.isdigit():
        a = "x"
    return f"helper0({a}, {b}, {rng.choice(CONDS[:3])})"


def u3(e):
    """make sure an expression that may be a bare int literal is usable as Unsigned[3] source"""
    return e


def simple_stmt(rng, used):
    r = rng.random()
    e = expr(rng)
    if r < 0.22:
        return [f"self.{rng.choice(['o1', 'o2'])} <<= {e}"]
    if r < 0.40:
        return [f"{rng.choice(['x', 'y'])} @= {e}"]
    if r < 0.47:
        return [f"self.p ^= {e}"]
    if r < 0.50:
        k = rng.randint(0, 2)
        return [f"self.pv[{k}] ^= {rng.choice(['self.c', 'self.d', 'True'])}"] if rng.random() < 0.7 else ["self.pv[2:1] ^= self.sel"]
    if r < 0.58:
        hi = rng.randint(1, 3)
        lo = rng.randint(0, hi)
        w = hi - lo + 1
        k1 = rng.randint(0, 2)
        src = {1: f"self.a[{k1}:{k1}]", 2: "self.a[2:1]", 3: "self.b[2:0]", 4: "self.sel @ self.a[1:0]"}[w]
        return [f"self.ov[{hi}:{lo}] <<= {src}"]
    if r < 0.64:
        return [f"self.ov[{rng.randint(0, 3)}] <<= {rng.choice(['self.c', 'self.d', 'self.a[1]'])}"]
    if r < 0.70:
        return [f"self.ob <<= {rng.choice(CONDS)}"]
    if r < 0.76:
        return [f"self.o2.next = {e}"] if rng.random() < 0.5 else [f"x.value = {e}"]
    if r < 0.82:
        t = f"t{rng.randint(0, 99)}"
        return [f"{t} = {e}", f"self.{rng.choice(['o1', 'o2'])} <<= {t} + 1"]
    if r < 0.88:
        return [f"helper2(self.{rng.choice(['o1', 'o2'])}, {rng.choice(['self.a', 'x', 'self.b'])}, {rng.choice(CONDS[:4])})"]
    if r < 0.94:
        return [f"self.o1 <<= helper1(self.a, self.b, {rng.choice(CONDS[:3])}, {rng.choice(CONDS[:3])})"]
    if r < 0.97:
        return [f"self.{rng.choice(['o1', 'o2'])} <<= helper4({rng.choice(['self.a', 'x', 'self.b'])}, {rng.choice(CONDS[:3])}, {rng.choice(CONDS[:3])}, self.ob)"]
    return [f"self.{rng.choice(['o1', 'o2'])} <<= helper5(self.a, {rng.choice(['x', 'self.b'])}, {rng.choice(CONDS[:3])}, {rng.choice(CONDS[:3])})"]


def indent(lines):
    return ["    " + ln for ln in lines]


def block(rng, depth, n=None):
    out = []
    for _ in range(n or rng.randint(1, 3)):
        r = rng.random()
        if depth > 0 and r < 0.25:
            out.append(f"if {rng.choice(CONDS)}:")
            out += indent(block(rng, depth - 1))
            if rng.random() < 0.4:
                out.append(f"elif {rng.choice(CONDS)}:")
                out += indent(block(rng, depth - 1))
            if rng.random() < 0.6:
                out.append("else:")
                out += indent(block(rng, depth - 1))
        elif depth > 0 and r < 0.35:
            out.append("match self.sel:")
            pats = rng.sample(['"00"', '"01"', '"10"', '"11"'], rng.randint(1, 3))
            for pt in pats:
                out.append(f"    case {pt}:")
                out += indent(indent(block(rng, depth - 1, 1)))
            if rng.random() < 0.7:
                out.append("    case _:")
                out += indent(indent(block(rng, depth - 1, 1)))
        elif depth > 0 and r < 0.43:
            out.append("for bit, val in zip([self.c, self.d, self.a[2]], [self.a, self.b, x]):")
            out.append("    if bit:")
            out.append(f"        self.{rng.choice(['o1', 'o2'])} <<= val")
            out.append("        break")
            if rng.random() < 0.6:
                out.append("else:")
                out += indent(block(rng, 0, 1))
        else:
            out += simple_stmt(rng, None)
    return out


CORE = [
    # signal semantics: later reads see the old value, last assignment wins, unassigned holds
    ["self.o1 <<= self.a", "self.o2 <<= self.o1"],
    ["self.o1 <<= self.a", "self.o1 <<= self.b"],
    ["self.o1 <<= self.a", "if self.c:", "    self.o1 <<= self.b"],
    ["if self.c:", "    self.o1 <<= self.a + 1"],
    # variables change immediately
    ["x @= self.a", "self.o1 <<= x", "x @= x + 1", "self.o2 <<= x"],
    ["x @= x + 1", "if x == 3:", "    x @= 0", "self.o1 <<= x"],
    ["y @= x", "x @= self.a", "self.o1 <<= y", "self.o2 <<= x"],
    # push
    ["if self.c:", "    self.p ^= self.a"],
    ["self.p ^= self.a", "if self.d:", "    self.p ^= self.b"],
    ["if self.c:", "    self.p.push = self.b", "self.o1 <<= self.p"],
    # pushes of bits / slices: the whole vector returns to its default in steps without push
    ["if self.c:", "    self.pv[0] ^= self.d"],
    ["if self.c:", "    self.ob <<= True", "    self.pv[0] ^= self.d", "elif self.d:", "    self.pv[2] ^= True", "else:", "    self.o1 <<= self.a"],
    ["self.pv[2:1] ^= self.sel", "if self.c:", "    self.pv[0] ^= self.d"],
    ["if self.d:", "    self.pv ^= self.a.bitvector", "self.pv[1] ^= self.c"],
    # slices and bits
    ["self.ov[3:2] <<= self.sel", "self.ov[0] <<= self.c"],
    ["self.ov <<= self.sel @ self.sel", "if self.c:", "    self.ov[2:1] <<= self.a[1:0]"],
    ["self.ov[1] <<= self.c", "self.ov[1] <<= self.d", "self.ob <<= self.ov[1]"],
    # if / elif / else : exactly the first matching branch
    ["if self.c:", "    self.o1 <<= 1", "elif self.d:", "    self.o1 <<= 2", "elif self.a == 3:", "    self.o1 <<= 3", "else:", "    self.o1 <<= 4"],
    ["if self.c:", "    x @= x + 1", "elif self.d:", "    x @= x + 2", "self.o1 <<= x"],
    # match with / without default
    ["match self.sel:", '    case "00":', "        self.o1 <<= self.a", '    case "01":', "        self.o1 <<= self.b", "    case _:", "        self.o1 <<= x"],
    ["match self.sel:", '    case "10":', "        self.o1 <<= self.a", '    case "11":', "        x @= self.b"],
    ["match self.a:", "    case 1:", "        self.o2 <<= 7", "    case 5:", "        self.o2 <<= self.b", "    case _:", "        pass"],
    # for-break chains / for-else
    ["for bit, val in zip([self.c, self.d], [self.a, self.b]):", "    if bit:", "        self.o1 <<= val", "        break", "else:", "    self.o1 <<= 0"],
    ["for i in range(3):", "    if self.a[i]:", "        self.o2 <<= i", "        break"],
    ["for i in range(3):", "    x @= x + 1", "self.o1 <<= x"],
    # helper functions with returns in branches
    ["self.o1 <<= helper0(self.a, self.b, self.c)"],
    ["self.o1 <<= helper1(self.a, self.b, self.c, self.d)", "self.o2 <<= helper1(x, self.a, self.d, self.c)"],
    ["helper2(self.o1, self.a, self.c)", "helper2(self.o2, x, self.d)"],
    ["t = helper0(self.a, x, self.c)", "x @= t", "self.o1 <<= t + x"],
    ["self.o1 <<= helper4(self.a, self.c, self.d, self.ob)", "self.o2 <<= helper4(x, self.d, self.c, self.ov[0])"],
    ["self.o1 <<= helper4(self.a, self.c, self.d, self.ob)", "self.o2 <<= self.b", "x @= x + 1"],
    ["self.o1 <<= helper5(self.a, self.b, self.c, self.d)"],
    ["self.o1 <<= helper6(x, self.a, self.b, self.c, self.d)", "self.o2 <<= x"],
    ["self.o2 <<= helper6(y, self.b, x, self.d, self.c)", "x @= y + 1"],
    ["self.o1 <<= helper7(self.o2, self.a, self.b, self.c, self.d)"],
    ["t = helper7(self.p, self.a, x, self.d, self.c)", "x @= t", "self.o1 <<= t"],
    # assignments routed through std.assign / _assign_ with an explicit mode
    ["if self.c:", "    std.assign(self.ob, self.d, cohdl.AssignMode.PUSH)", "std.assign(self.o1, self.a, cohdl.AssignMode.NEXT)"],
    ["std.assign(x, self.a, cohdl.AssignMode.VALUE)", "if self.d:", "    std.assign(self.pv, self.a.bitvector, cohdl.AssignMode.PUSH)", "std.assign(self.o2, x)"],
    # a truth value captured before the variable is reassigned keeps the OLD value (test-and-set)
    ["old = bool(vb)", "vb @= self.c", "if old:", "    self.o1 <<= self.a", "self.ob <<= vb"],
    ["old = bool(vb)", "vb.value = self.c and not self.d", "self.ob <<= old", "if vb:", "    self.o2 <<= self.b"],
    ["t = bool(x == 3)", "x @= x + 1", "if t:", "    self.o1 <<= x"],
    # a selected value bound to a name first and assigned to a variable later: the variable changes at the assignment, not where the value was computed
    ["t = self.a if self.c else Null", "self.o1 <<= x", "x @= t", "self.o2 <<= x"],
    ["t = self.a if self.c else Full", "self.o1 <<= x", "x @= 0", "self.p <<= x", "x @= t", "self.o2 <<= x"],
    ["t = helper0(self.a, self.b, self.c)", "self.o1 <<= x", "x.value = t", "self.o2 <<= x + 1"],
    ["t = self.b if self.d else (Null if self.c else self.a)", "y @= x", "x @= t", "self.o1 <<= y", "self.o2 <<= x"],
    # loops that return from a helper, code after the loop
    ["helper10(self.o1, self.o2, self.b, self.a)"],
    ["helper10(self.o1, self.o2, x, self.a)", "x @= x + 1", "self.p <<= x"],
    ["self.o1 <<= helper11(self.b, self.a)"],
    ["x @= helper11(x, self.a)", "self.o2 <<= x + self.b"],
    ["if self.c:", "    helper10(self.o1, self.o2, self.b, self.a)", "else:", "    self.o1 <<= helper11(self.b, self.a)", "self.p <<= self.b"],
    # helper calls with side effects inside a test that folds to a constant: the side effects are part of the program
    ["if helper8(self.o1, self.a):", "    self.o2 <<= self.b"],
    ["if helper9(self.ob, x):", "    pass", "self.o1 <<= x"],
    ["x @= self.a", "if not helper8(self.o2, x):", "    self.o1 <<= 1", "else:", "    self.o1 <<= 2"],
    ["self.o1 <<= 3 if helper8(self.o2, self.b) else 4"],
    # match: guards and repeated patterns follow Python (first matching case whose guard holds) -- or are rejected
    ['match self.sel:', '    case "01" if self.c:', '        self.o1 <<= self.a', '    case "01":', '        self.o1 <<= self.b', '    case _:', '        self.o1 <<= 1'],
    ['match self.sel:', '    case "10" if self.d:', '        self.o2 <<= self.a', '    case _:', '        self.o2 <<= self.b'],
    ['match self.sel:', '    case "00":', '        x @= self.a', '    case "00":', '        x @= self.b', '    case "11":', '        x @= 3', 'self.o1 <<= x'],
    # pushed signals return to their default in every activation that does not push them, noreset or not
    ["if self.c:", "    self.pn ^= True", "self.o1 <<= self.a"],
    ["if self.c:", "    self.pn ^= self.d", "else:", "    self.ob ^= True"],
    ["x @= helper5(x, self.a, self.d, self.c)", "self.o2 <<= helper4(x, self.c, self.d, self.ob) + 1"],
    # python-level names merged over branches
    ["t = self.a & self.b", "if self.c:", "    self.o1 <<= t", "else:", "    self.o2 <<= t + 1"],
    # if-expressions / select_with
    ["self.o1 <<= self.a if self.c else (self.b if self.d else x)"],
    ['self.o1 <<= select_with(self.sel, {"00": self.a, "11": self.b}, default=x)'],
    # always expressions
    ["w = always(self.a + self.b)", "if self.c:", "    self.o1 <<= w"],
    ["w = always(self.a & self.b)", "self.o1 <<= w", "x @= w", "self.o2 <<= x + 1"],
]

CORE_LOCAL = [
    (["loc = Signal[Unsigned[3]](self.a, name='loc')", "self.o1 <<= loc"], ("loc",)),
    (["loc = Signal[Unsigned[3]](self.a + 1, name='loc')", "if self.c:", "    loc <<= self.b", "self.o1 <<= loc"], ("loc",)),
    (["lv = Variable[Unsigned[3]](self.a, name='lv')", "lv @= lv + x", "self.o1 <<= lv"], ("lv",)),
    (["lv = Variable[Unsigned[3]](x, name='lv')", "x @= self.b", "self.o1 <<= lv", "self.o2 <<= x"], ("lv",)),
]

CORE_LOCAL += [
    (["lb = Signal[BitVector[2]](self.sel, name='lb')", "self.ov[1:0] <<= lb", "self.ob <<= lb[0]", "if lb[1]:", "    self.o1 <<= self.a"], ("lb",)),
    (["lb = Signal[BitVector[2]](self.sel, name='lb')", "self.ov[3] <<= lb[1]", "self.ov[0] <<= lb[0]", "self.o2 <<= self.a if lb[1] else self.b"], ("lb",)),
    (["loc = Signal[Unsigned[3]](self.a, name='loc')", "self.ob <<= loc[2]", "self.ov[1:0] <<= loc[1:0]", "self.o1 <<= loc + 1"], ("loc",)),
    (["lv = Variable[Unsigned[3]](self.a, name='lv')", "self.ob <<= lv[0]", "lv @= lv + 1", "self.ov[2:0] <<= lv[2:0]"], ("lv",)),
]

CORE_ARR = [
    # a name bound to an element selected by a VARIABLE index refers to the element selected at that moment
    ["ptr @= self.idx", "slot = arr[ptr]", "ptr @= ptr + 1", "slot <<= self.a[1:0].unsigned", "self.oa <<= arr[ptr]"],
    ["ptr @= self.idx", "val = arr[ptr]", "ptr @= ptr + 1", "self.oa <<= val", "arr[ptr] <<= self.idx"],
    ["ptr @= ptr + 1", "slot = arr[ptr]", "if self.c:", "    ptr @= self.idx", "slot <<= ptr", "self.oa <<= arr[self.idx]"],
    ["arr[self.idx] <<= self.a[1:0].unsigned", "self.oa <<= arr[self.idx]"],
    ["arr[0] <<= self.idx", "arr[3] <<= self.a[2:1].unsigned", "self.oa <<= arr[self.idx]"],
    ["if self.c:", "    arr[self.idx] <<= 3", "else:", "    arr[1] <<= self.idx", "self.oa <<= arr[2]"],
]


def programs(tier, seed, reset="sync"):
    out = [render(b, reset=reset) for b in CORE]
    out += [render(b, reset=reset, locals_used=l) for b, l in CORE_LOCAL]
    out += [render(b, reset=reset, use_arr=True) for b in CORE_ARR]
    rng = random.Random(seed)
    n = 150 if tier == "quick" else 2500
    for _ in range(n):
        out.append(render(block(rng, 2 if tier == "quick" else 3), reset=reset))
    seen, res = set(), []
    for p in out:
        if p.source not in seen:
            seen.add(p.source)
            res.append(p)
    return res
