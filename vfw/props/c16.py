"""C16 -- std timing utilities are exact to the clock.  BMC from power-up against small reference
machines (monitors); the start instant, enables, resets and run-time durations are symbolic."""
from __future__ import annotations
import itertools

from ..core import Reporter, Workdir, text_hash
from .. import dom as D
from .. import vhdl_sim as VS
from ..vhdl_parse import Illegal
from ..bmc import Monitor, run_bmc, compile_design

HEADER = '''from __future__ import annotations
import cohdl
from cohdl import Bit, BitVector, Unsigned, Signed, Port, Signal, Variable, Null, Full, std
'''


def mux(c, a, b, w):
    return D.v_ite(c, a, b, w)


def bit(x):
    return D.bit_to_bool(x)


# ------------------------------------------------------------------ wait_for
def wait_design(kind, n, allow_zero=False):
    """kind: const | rt | waiter | waiter_rt"""
    lines = [HEADER, "class W(cohdl.Entity):", "    clk = Port.input(Bit)", "    reset = Port.input(Bit)", "    start = Port.input(Bit)"]
    if kind in ("rt", "waiter_rt", "rt_sig", "waiter_rt_sig"):
        lines.append("    n = Port.input(Unsigned[3])")
    lines += ["    busy = Port.output(Bit, default=False)", "    done = Port.output(Bit, default=False)", "    def architecture(self):"]
    if kind.startswith("waiter"):
        lines.append(f"        waiter = std.Waiter({max(7, n or 0)})")
    registered = kind.endswith("_sig")
    kind = kind[:-4] if registered else kind
    if registered:
        # the run-time duration is a local signal whose declared value is 1 and that is written by a process defined later
        lines.append("        dur = Signal[Unsigned[3]](1, name='dur')")
    arg = ("dur" if registered else "self.n") if kind in ("rt", "waiter_rt") else str(n)
    call = f"std.wait_for({arg}{', allow_zero=True' if allow_zero else ''})" if not kind.startswith("waiter") else f"waiter.wait_for({arg})"
    lines += ["        @std.sequential(std.Clock(self.clk), std.Reset(self.reset))", "        async def proc():",
              "            await self.start", "            self.busy <<= True", f"            await {call}",
              "            self.busy <<= False", "            self.done ^= True"]
    if registered:
        lines += ["        @std.sequential(std.Clock(self.clk))", "        def feed():", "            dur.next = self.n"]
    return "\n".join(lines) + "\n"


class WaitMonitor(Monitor):
    def __init__(self, n_const, runtime, allow_zero):
        super().__init__()
        self.n_const, self.runtime, self.allow_zero = n_const, runtime, allow_zero
        self.st = 0  # 0 idle, 1 waiting   (1 bit payload)
        self.rem = 0  # 4 bit payload
        self.busy = 0
        self.done = 0

    def step(self, i, ins, outs):
        W = 4
        rst = bit(ins["reset"])
        start = bit(ins["start"])
        n = D.v_zext(ins["n"], 3, W) if self.runtime else self.n_const
        idle = D.v_eq(self.st, 0, 1)
        arrive = D.b_and(D.b_not(rst), D.b_and(idle, start))
        if self.runtime and not self.allow_zero:
            # documented precondition: duration >= 1 unless allow_zero
            self.assume(D.b_implies(arrive, D.b_not(D.v_eq(n, 0, W))))
        zero = D.v_eq(n, 0, W) if self.allow_zero else False
        rem1 = D.v_sub(self.rem, 1, W)
        fire = D.b_and(D.b_not(rst), D.b_and(D.b_not(idle), D.v_eq(rem1, 0, W)))
        imm = D.b_and(arrive, zero)  # allow_zero with n == 0: resumes in the same step
        go = D.b_and(arrive, D.b_not(zero))
        n_st = mux(rst, 0, mux(go, 1, mux(fire, 0, self.st, 1), 1), 1)
        n_rem = mux(go, n, mux(D.b_not(idle), rem1, self.rem, W), W)
        n_busy = mux(rst, 0, mux(go, 1, mux(D.b_or(fire, imm), 0, self.busy, 1), 1), 1)
        n_done = mux(rst, 0, mux(D.b_or(fire, imm), 1, 0, 1), 1)
        self.st, self.rem, self.busy, self.done = n_st, n_rem, n_busy, n_done
        self.check(D.v_eq(outs["busy"], self.busy, 1), "busy differs from 'n clock steps after reached'")
        self.check(D.v_eq(outs["done"], self.done, 1), "done pulse at the wrong clock")


class WaitRegisteredMonitor(WaitMonitor):
    """the duration is read from a register (declared value 1) that follows the input n with one clock delay"""

    def step(self, i, ins, outs):
        if not hasattr(self, "_n_reg"):
            self._n_reg = 1
        super().step(i, {**ins, "n": self._n_reg}, outs)
        self._n_reg = ins["n"]


# ------------------------------------------------------------------ delayed / DelayLine
def delay_design(n, initial=None, conditional=False):
    init = "" if initial is None else f", initial=Unsigned[2]({initial})"
    lines = [HEADER, "class W(cohdl.Entity):", "    clk = Port.input(Bit)", "    inp = Port.input(Unsigned[2])", "    upd = Port.input(Bit)",
             "    o = Port.output(Unsigned[2], default=Null)", "    def architecture(self):",
             "        @std.sequential(std.Clock(self.clk))", "        def proc():"]
    if conditional:
        lines += ["            if self.upd:", f"                self.o <<= std.delayed(self.inp, {n}{init})"]
    else:
        lines += [f"            self.o <<= std.delayed(self.inp, {n}{init})"]
    return "\n".join(lines) + "\n"


class DelayMonitor(Monitor):
    """n registers + the assigned output register; without `initial` the registers have no defined
    power-up content, so an output is only checked once it stems from an input sample (valid bit)"""

    def __init__(self, n, initial, conditional):
        super().__init__()
        self.line = [initial or 0] * n
        self.valid = [initial is not None] * n
        self.o, self.ovalid = 0, True  # the output port has default Null
        self.conditional = conditional

    def step(self, i, ins, outs):
        upd = bit(ins["upd"]) if self.conditional else True
        src, srcv = (self.line[-1], self.valid[-1]) if self.line else (ins["inp"], True)
        self.o = mux(upd, src, self.o, 2)
        self.ovalid = D.b_ite(upd, srcv, self.ovalid)
        new, newv = [], []
        prev, prevv = ins["inp"], True
        for v, vv in zip(self.line, self.valid):
            new.append(mux(upd, prev, v, 2))
            newv.append(D.b_ite(upd, prevv, vv))
            prev, prevv = v, vv
        self.line, self.valid = new, newv
        self.check(D.b_implies(self.ovalid, D.v_eq(outs["o"], self.o, 2)), "delayed output differs from input n steps earlier")


# ------------------------------------------------------------------ continuous_counter
def counter_design(limit, runtime):
    lines = [HEADER, "class W(cohdl.Entity):", "    clk = Port.input(Bit)", "    reset = Port.input(Bit)", "    lim = Port.input(Unsigned[3])",
             "    o = Port.output(Unsigned[3])", "    def architecture(self):",
             "        ctx = std.SequentialContext(std.Clock(self.clk), std.Reset(self.reset))",
             f"        cnt = std.continuous_counter(ctx, {'self.lim' if runtime else limit})",
             "        std.concurrent_assign(self.o, cnt)"]
    return "\n".join(lines) + "\n"


class CounterMonitor(Monitor):
    def __init__(self, limit, runtime):
        super().__init__()
        self.limit, self.runtime = limit, runtime
        self.cnt = 0

    def step(self, i, ins, outs):
        W = 3
        lim = ins["lim"] if self.runtime else self.limit
        rst = bit(ins["reset"])
        nxt = mux(D.v_ule(lim, self.cnt, W), 0, D.v_add(self.cnt, 1, W), W)
        self.cnt = mux(rst, 0, nxt, W)
        self.check(D.v_eq(outs["o"], self.cnt, W), "counter differs from 0..limit sequence")


# ------------------------------------------------------------------ ToggleSignal (reference = upstream ToggleMock)
CALLBACK_PORTS = ["    cb_r = Port.output(Bit, default=False)", "    cb_f = Port.output(Bit, default=False)"]
CALLBACK_DEFS = ["        def on_rising():", "            self.cb_r ^= True", "        def on_falling():", "            self.cb_f ^= True"]


def toggle_design(first, second, default_state, first_state, callbacks=False, enable_api=False):
    args = [str(first)] + ([str(second)] if second is not None else [])
    if default_state:
        args.append("default_state=True")
    if first_state:
        args.append("first_state=True")
    if callbacks:
        args += ["on_rising=on_rising", "on_falling=on_falling"]
    lines = [HEADER, "class W(cohdl.Entity):", "    clk = Port.input(Bit)", "    rst_toggle = Port.input(Bit)",
             "    state = Port.output(Bit)", "    rising = Port.output(Bit)", "    falling = Port.output(Bit)"] + (CALLBACK_PORTS if callbacks else []) + ["    def architecture(self):"] + \
            (CALLBACK_DEFS if callbacks else []) + [
             "        ctx = std.SequentialContext(std.Clock(self.clk))",
             f"        t = std.ToggleSignal(ctx, {', '.join(args + (['require_enable=True'] if enable_api else []))})"] + \
            (["        @ctx", "        def control():", "            if self.rst_toggle:", "                t.disable()", "            else:", "                t.enable()"] if enable_api else
             ["        std.concurrent_assign(t.get_reset_signal(), self.rst_toggle)"]) + [
             "        @std.concurrent", "        def logic():", "            self.state <<= t.state()", "            self.rising <<= t.rising()", "            self.falling <<= t.falling()"]
    return "\n".join(lines) + "\n"


class EnableApi:
    """mixin: the counter reset is a register written by enable() / disable() from another process of the same clock
    (initially set: require_enable=True); the monitor of the directly driven variant sees the registered value"""

    def step(self, i, ins, outs):
        if not hasattr(self, "_rst_reg"):
            self._rst_reg = 1
        name = self.RST
        super().step(i, {**ins, name: self._rst_reg}, outs)
        self._rst_reg = ins[name]


class ToggleMonitor(Monitor):
    def __init__(self, first, second, default_state, first_state, callbacks=False):
        super().__init__()
        self.callbacks = callbacks
        self.first, self.second = first, (first if second is None else second)
        self.default, self.first_state = int(default_state), int(first_state)
        self.cnt = 0  # power-up == state after reset
        self.state = self.default

    def step(self, i, ins, outs):
        W = 4
        rst = bit(ins["rst_toggle"])
        prev = self.state
        wrap = D.v_eq(D.v_add(self.cnt, 1, W), (self.first + self.second) & 15, W)
        cnt2 = mux(wrap, 0, D.v_add(self.cnt, 1, W), W)
        st2 = mux(D.v_ult(cnt2, self.first, W), self.first_state, 1 - self.first_state, 1)
        self.cnt = mux(rst, 0, cnt2, W)
        self.state = mux(rst, self.default, st2, 1)
        prev_eff = mux(rst, self.default, prev, 1)
        rising = D.b_and(D.b_not(rst), D.b_and(D.v_eq(prev_eff, 0, 1), D.v_eq(self.state, 1, 1)))
        falling = D.b_and(D.b_not(rst), D.b_and(D.v_eq(prev_eff, 1, 1), D.v_eq(self.state, 0, 1)))
        self.check(D.v_eq(outs["state"], self.state, 1), "toggle state differs from configured durations")
        self.check(D.b_eq(bit(outs["rising"]), rising), "rising pulse wrong")
        self.check(D.b_eq(bit(outs["falling"]), falling), "falling pulse wrong")
        if self.callbacks:
            # the callbacks run in the step that computes the edge: their pushed pulses coincide with rising() / falling()
            self.check(D.b_eq(bit(outs["cb_r"]), rising), "on_rising callback not executed exactly with the 0->1 transition")
            self.check(D.b_eq(bit(outs["cb_f"]), falling), "on_falling callback not executed exactly with the 1->0 transition")


class ToggleEnableMonitor(EnableApi, ToggleMonitor):
    RST = "rst_toggle"


# ------------------------------------------------------------------ ClockDivider with integer ratios (reference = upstream MockClkDivider)
def clkdiv_design(ratio, default_state, tick_at_start, callbacks, runtime=False, enable_api=False):
    args = ["self.r" if runtime else str(ratio)]
    if default_state:
        args.append("default_state=True")
    if tick_at_start:
        args.append("tick_at_start=True")
    if callbacks:
        args += ["on_rising=on_rising", "on_falling=on_falling"]
    lines = [HEADER, "class W(cohdl.Entity):", "    clk = Port.input(Bit)", "    rst_div = Port.input(Bit)", "    r = Port.input(Unsigned[3])",
             "    state = Port.output(Bit)", "    rising = Port.output(Bit)", "    falling = Port.output(Bit)"] + (CALLBACK_PORTS if callbacks else []) + ["    def architecture(self):"] + \
            (CALLBACK_DEFS if callbacks else []) + [
             "        ctx = std.SequentialContext(std.Clock(self.clk))",
             f"        t = std.ClockDivider(ctx, {', '.join(args + (['require_enable=True'] if enable_api else []))})"] + \
            (["        @ctx", "        def control():", "            if self.rst_div:", "                t.disable()", "            else:", "                t.enable()"] if enable_api else
             ["        std.concurrent_assign(t.get_reset_signal(), self.rst_div)"]) + [
             "        @std.concurrent", "        def logic():", "            self.state <<= t.state()", "            self.rising <<= t.rising()", "            self.falling <<= t.falling()"]
    return "\n".join(lines) + "\n"


class ClkDivMonitor(Monitor):
    """state() differs from default_state for exactly one step per `ratio` steps; the first such step is the first one after
    power-up / reset when tick_at_start, the ratio-th otherwise; rising/falling flag the transitions; callbacks coincide with them.
    Run-time ratio: held constant over the run, >= 2 (assumed)."""

    def __init__(self, ratio, default_state, tick_at_start, callbacks, runtime=False):
        super().__init__()
        self.ratio, self.default, self.tick, self.callbacks, self.runtime = ratio, int(default_state), tick_at_start, callbacks, runtime
        self.pos = None
        self.state = self.default
        self.r0 = None

    def step(self, i, ins, outs):
        W = 4
        if self.runtime:
            r = D.v_zext(ins["r"], 3, W)
            if self.r0 is None:
                self.r0 = r
                self.assume(D.v_ule(2, r, W))
            self.assume(D.v_eq(r, self.r0, W))
            ratio = self.r0
        else:
            ratio = self.ratio
        if self.pos is None:
            self.pos = D.v_sub(ratio, 1, W) if self.tick else 0
        rst = bit(ins["rst_div"])
        prev = self.state
        nxt = mux(D.v_eq(D.v_add(self.pos, 1, W), ratio, W), 0, D.v_add(self.pos, 1, W), W)
        st2 = mux(D.v_eq(nxt, 0, W), 1 - self.default, self.default, 1)
        start = D.v_sub(ratio, 1, W) if self.tick else 0
        self.pos = mux(rst, start, nxt, W)
        self.state = mux(rst, self.default, st2, 1)
        rising = D.b_and(D.b_not(rst), D.b_and(D.v_eq(prev, 0, 1), D.v_eq(st2, 1, 1)))
        falling = D.b_and(D.b_not(rst), D.b_and(D.v_eq(prev, 1, 1), D.v_eq(st2, 0, 1)))
        self.check(D.v_eq(outs["state"], self.state, 1), "divider state is not one step per period")
        self.check(D.b_eq(bit(outs["rising"]), rising), "rising pulse wrong")
        self.check(D.b_eq(bit(outs["falling"]), falling), "falling pulse wrong")
        if self.callbacks:
            self.check(D.b_eq(bit(outs["cb_r"]), rising), "on_rising callback not executed exactly with the 0->1 transition")
            self.check(D.b_eq(bit(outs["cb_f"]), falling), "on_falling callback not executed exactly with the 1->0 transition")


def toggle_rt_design(first_state):
    """durations given as run-time Unsigned[3] values"""
    extra = ", first_state=True" if first_state else ""
    lines = [HEADER, "class W(cohdl.Entity):", "    clk = Port.input(Bit)", "    rst_toggle = Port.input(Bit)", "    a = Port.input(Unsigned[3])", "    b = Port.input(Unsigned[3])",
             "    state = Port.output(Bit)", "    rising = Port.output(Bit)", "    falling = Port.output(Bit)", "    def architecture(self):",
             "        ctx = std.SequentialContext(std.Clock(self.clk))",
             f"        t = std.ToggleSignal(ctx, self.a, self.b{extra})",
             "        std.concurrent_assign(t.get_reset_signal(), self.rst_toggle)",
             "        @std.concurrent", "        def logic():", "            self.state <<= t.state()", "            self.rising <<= t.rising()", "            self.falling <<= t.falling()"]
    return "\n".join(lines) + "\n"


class ToggleRtMonitor(Monitor):
    """same reference machine as ToggleMonitor with symbolic durations (held constant over the run, both >= 1):
    the period is first + second as a NUMBER (up to 14), not modulo the operand width"""

    def __init__(self, first_state):
        super().__init__()
        self.first_state = int(first_state)
        self.cnt = 0
        self.state = 0
        self.a0 = self.b0 = None

    def step(self, i, ins, outs):
        W = 5
        if self.a0 is None:
            self.a0, self.b0 = ins["a"], ins["b"]
            self.assume(D.b_not(D.v_eq(self.a0, 0, 3)))
            self.assume(D.b_not(D.v_eq(self.b0, 0, 3)))
        self.assume(D.v_eq(ins["a"], self.a0, 3))
        self.assume(D.v_eq(ins["b"], self.b0, 3))
        first, second = D.v_zext(self.a0, 3, W), D.v_zext(self.b0, 3, W)
        rst = bit(ins["rst_toggle"])
        prev = self.state
        wrap = D.v_eq(D.v_add(self.cnt, 1, W), D.v_add(first, second, W), W)
        cnt2 = mux(wrap, 0, D.v_add(self.cnt, 1, W), W)
        st2 = mux(D.v_ult(cnt2, first, W), self.first_state, 1 - self.first_state, 1)
        self.cnt = mux(rst, 0, cnt2, W)
        self.state = mux(rst, 0, st2, 1)
        prev_eff = mux(rst, 0, prev, 1)
        rising = D.b_and(D.b_not(rst), D.b_and(D.v_eq(prev_eff, 0, 1), D.v_eq(self.state, 1, 1)))
        falling = D.b_and(D.b_not(rst), D.b_and(D.v_eq(prev_eff, 1, 1), D.v_eq(self.state, 0, 1)))
        self.check(D.v_eq(outs["state"], self.state, 1), "toggle state differs from the run-time durations")
        self.check(D.b_eq(bit(outs["rising"]), rising), "rising pulse wrong")
        self.check(D.b_eq(bit(outs["falling"]), falling), "falling pulse wrong")


# ------------------------------------------------------------------ debounce
def debounce_design(period, initial):
    lines = [HEADER, "class W(cohdl.Entity):", "    clk = Port.input(Bit)", "    reset = Port.input(Bit)", "    inp = Port.input(Bit)",
             "    o = Port.output(Bit)", "    def architecture(self):",
             "        ctx = std.SequentialContext(std.Clock(self.clk), std.Reset(self.reset))",
             f"        deb = std.debounce(ctx, self.inp, {period}, initial={'True' if initial else 'False'})",
             "        std.concurrent_assign(self.o, deb)"]
    return "\n".join(lines) + "\n"


class DebounceMonitor(Monitor):
    """documented: saturating up/down counter starting at period/2; output '1' exactly when the counter reaches the period,
    '0' when it reaches zero"""

    def __init__(self, period, initial):
        super().__init__()
        self.period = period
        self.cnt = period // 2
        self.out = int(initial)
        self.initial = int(initial)

    def step(self, i, ins, outs):
        W = 4
        rst = bit(ins["reset"])
        up = bit(ins["inp"])
        at_max = D.v_eq(self.cnt, self.period, W)
        at_min = D.v_eq(self.cnt, 0, W)
        cnt2 = mux(up, mux(at_max, self.cnt, D.v_add(self.cnt, 1, W), W), mux(at_min, self.cnt, D.v_sub(self.cnt, 1, W), W), W)
        # (upstream MockDebounce): the output follows once the counter IS at its bound and the input still pushes against it
        out2 = mux(D.b_and(up, at_max), 1, mux(D.b_and(D.b_not(up), at_min), 0, self.out, 1), 1)
        self.cnt = mux(rst, self.period // 2, cnt2, W)
        self.out = mux(rst, self.initial, out2, 1)
        self.check(D.v_eq(outs["o"], self.out, 1), "debounced output differs from the saturating-counter model")


class ClkDivEnableMonitor(EnableApi, ClkDivMonitor):
    RST = "rst_div"


def jobs(tier):
    js = []
    ns = (1, 2, 3, 5) if tier == "quick" else (1, 2, 3, 4, 5, 6, 7, 8, 9, 12)
    for n in ns:
        js.append((f"wait_for|const|{n}", wait_design("const", n), {"reset": 1, "start": 1}, ["busy", "done"], 2 * n + 8, lambda n=n: WaitMonitor(n, False, False)))
        js.append((f"Waiter.wait_for|const|{n}", wait_design("waiter", n), {"reset": 1, "start": 1}, ["busy", "done"], 2 * n + 8, lambda n=n: WaitMonitor(n, False, False)))
    js.append(("wait_for|runtime", wait_design("rt", None), {"reset": 1, "start": 1, "n": 3}, ["busy", "done"], 14 if tier == "quick" else 20, lambda: WaitMonitor(None, True, False)))
    js.append(("wait_for|runtime|allow_zero", wait_design("rt", None, True), {"reset": 1, "start": 1, "n": 3}, ["busy", "done"], 14 if tier == "quick" else 20, lambda: WaitMonitor(None, True, True)))
    js.append(("Waiter.wait_for|runtime", wait_design("waiter_rt", None), {"reset": 1, "start": 1, "n": 3}, ["busy", "done"], 14 if tier == "quick" else 20, lambda: WaitMonitor(None, True, False)))
    js.append(("wait_for|runtime|registered duration", wait_design("rt_sig", None), {"reset": 1, "start": 1, "n": 3}, ["busy", "done"], 14 if tier == "quick" else 20, lambda: WaitRegisteredMonitor(None, True, False)))
    js.append(("Waiter.wait_for|runtime|registered duration", wait_design("waiter_rt_sig", None), {"reset": 1, "start": 1, "n": 3}, ["busy", "done"], 14 if tier == "quick" else 20, lambda: WaitRegisteredMonitor(None, True, False)))
    for n in (0, 1, 2, 4):
        for initial in (None, 2):
            if n == 0 and initial is not None:
                continue
            js.append((f"delayed|{n}|init={initial}", delay_design(n, initial), {"inp": 2, "upd": 1}, ["o"], n + 5, lambda n=n, initial=initial: DelayMonitor(n, initial, False)))
        js.append((f"delayed|{n}|conditional", delay_design(n, None, True), {"inp": 2, "upd": 1}, ["o"], n + 6, lambda n=n: DelayMonitor(n, None, True)))
    for lim in (1, 3, 5, 7):
        js.append((f"continuous_counter|{lim}", counter_design(lim, False), {"reset": 1, "lim": 3}, ["o"], lim + 6, lambda lim=lim: CounterMonitor(lim, False)))
    js.append(("continuous_counter|runtime", counter_design(None, True), {"reset": 1, "lim": 3}, ["o"], 12, lambda: CounterMonitor(None, True)))
    for (f, s), ds, fs in itertools.product(((1, 1), (2, 1), (3, 3), (1, 0), (0, 1), (2, None), (4, 2)), (False, True), (False, True)):
        if tier == "quick" and (ds and fs):
            continue
        tot = f + (f if s is None else s)
        js.append((f"ToggleSignal|{f}|{s}|default={ds}|first={fs}", toggle_design(f, s, ds, fs), {"rst_toggle": 1}, ["state", "rising", "falling"], 2 * tot + 5,
                   lambda f=f, s=s, ds=ds, fs=fs: ToggleMonitor(f, s, ds, fs)))
    for (f, s2), ds, fs in (((2, 1), False, False), ((1, 2), True, False), ((3, 3), False, True), ((1, 1), False, False)):
        js.append((f"ToggleSignal|callbacks|{f}|{s2}|default={ds}|first={fs}", toggle_design(f, s2, ds, fs, True), {"rst_toggle": 1}, ["state", "rising", "falling", "cb_r", "cb_f"], 2 * (f + s2) + 5,
                   lambda f=f, s2=s2, ds=ds, fs=fs: ToggleMonitor(f, s2, ds, fs, True)))
    for ratio, ds, tick in itertools.product((2, 3, 5) if tier == "quick" else (2, 3, 4, 5, 7, 8), (False, True), (False, True)):
        cb = (ratio, ds, tick) in ((3, False, False), (2, False, True), (5, True, False), (3, True, True))
        js.append((f"ClockDivider|{ratio}|default={ds}|tick_at_start={tick}" + ("|callbacks" if cb else ""), clkdiv_design(ratio, ds, tick, cb), {"rst_div": 1, "r": 3},
                   ["state", "rising", "falling"] + (["cb_r", "cb_f"] if cb else []), 2 * ratio + 5, lambda ratio=ratio, ds=ds, tick=tick, cb=cb: ClkDivMonitor(ratio, ds, tick, cb)))
    # enable() / disable() from another process, require_enable=True (generation starts only after the first enable())
    for (f, s2), ds, fs in (((2, 1), False, False), ((1, 2), True, False), ((2, 2), False, True)):
        js.append((f"ToggleSignal|enable-api|{f}|{s2}|default={ds}|first={fs}", toggle_design(f, s2, ds, fs, False, True), {"rst_toggle": 1}, ["state", "rising", "falling"], 2 * (f + s2) + 6,
                   lambda f=f, s2=s2, ds=ds, fs=fs: ToggleEnableMonitor(f, s2, ds, fs)))
    for ratio, ds, tick in ((3, False, False), (2, True, False), (3, False, True), (5, True, True)):
        js.append((f"ClockDivider|enable-api|{ratio}|default={ds}|tick_at_start={tick}", clkdiv_design(ratio, ds, tick, False, False, True), {"rst_div": 1, "r": 3}, ["state", "rising", "falling"], 2 * ratio + 6,
                   lambda ratio=ratio, ds=ds, tick=tick: ClkDivEnableMonitor(ratio, ds, tick, False)))
    for ds in (False, True):
        js.append((f"ClockDivider|runtime ratio|default={ds}", clkdiv_design(None, ds, False, False, True), {"rst_div": 1, "r": 3}, ["state", "rising", "falling"], 14 if tier == "quick" else 22,
                   lambda ds=ds: ClkDivMonitor(None, ds, False, False, True)))
    for fs in (False, True):
        js.append((f"ToggleSignal|runtime durations|first={fs}", toggle_rt_design(fs), {"rst_toggle": 1, "a": 3, "b": 3}, ["state", "rising", "falling"], 20 if tier == "quick" else 32,
                   lambda fs=fs: ToggleRtMonitor(fs)))
    for period, initial in ((2, False), (3, True), (4, False), (5, False)):
        js.append((f"debounce|{period}|initial={initial}", debounce_design(period, initial), {"reset": 1, "inp": 1}, ["o"], 2 * period + 6, lambda period=period, initial=initial: DebounceMonitor(period, initial)))
    return js


def run(tier: str) -> int:
    rep = Reporter("C16", tier, "model_checking")
    wd = Workdir()
    counts = {}
    states = transitions = 0
    try:
        for key, src, inputs, outputs, K, mk in jobs(tier):
            text, exc = compile_design(wd, src, "W", "c16")
            rep.stats.programs += 1
            if text is None:
                counts["rejected"] = counts.get("rejected", 0) + 1
                rep.violation(f"rejected|{key.split('|')[0]}|{key}", f"{key}: wrapper rejected: {type(exc).__name__}: {str(exc)[:200]}", {"source": src})
                continue
            try:
                lib = VS.Library(text)
                VS.Sim(lib)
            except Illegal as e:
                rep.violation(f"illegal|{key}", f"{key}: emitted VHDL illegal: {e}", {"source": src, "vhdl": text})
                continue
            status, info = run_bmc(rep.stats, lib, inputs, outputs, K, mk)
            counts[status] = counts.get(status, 0) + 1
            transitions += K
            states += K + 1
            if status == "ok":
                rep.stats.nontrivial.add(key)
                if len(rep.stats.samples) < 4 and key.startswith(("wait_for|runtime", "ToggleSignal|2|1", "debounce|3")):
                    rep.stats.sample({"design": key, "K": K, "symbolic_inputs": list(inputs), "verdict": "unsat: outputs equal the reference machine at every clock for all input sequences of length K"})
            elif status == "violation":
                fam = key.split("|")[0]
                rep.violation(f"{fam}|{key}", f"{key}: {info['failed'][0][0]} at clock {info['failed'][0][1]}; trace {info['trace'][:info['failed'][0][1] + 1] if isinstance(info['failed'][0][1], int) else ''}",
                              {"source": src, "vhdl": text, **info})
                rep.stats.extra.setdefault("traces_validated", 0)
                rep.stats.extra["traces_validated"] += 1
            else:
                rep.inconclusive_query(f"{key}: {status} {info}")
        rep.stats.units |= {"cohdl.std.utility.wait_for / Waiter.wait_for / tick", "DelayLine / delayed", "continuous_counter", "ToggleSignal (incl. on_rising / on_falling callbacks)", "ClockDivider", "debounce"}
        rep.assumptions += ["BMC from power-up, depth K >= 2*period+4 per design; inputs (start, reset, enable, data, run-time duration) symbolic at every clock",
                            "run-time duration >= 1 unless allow_zero (documented precondition)",
                            "Duration (float) arguments are not covered (Duration.count_periods is floating point); ClockDivider with integer ratios (reference = upstream MockClkDivider); enable() / disable() issued from a second process of the same clock",
                            "ToggleSignal reference = upstream ToggleMock (ghdl-validated test bench), first sample after power-up skipped"]
        return rep.finish({
            "states": states, "transitions": transitions, "traces_validated_against_impl": rep.stats.extra.get("traces_validated", 0),
            "designs": rep.stats.programs, "design_results": counts,
            "samples": rep.stats.samples or [{"design": "wait_for|const|1"}],
            "distinct_nontrivial": len(rep.stats.nontrivial), "evaluations": rep.stats.programs,
            "explanation": "states/transitions = clock steps unrolled symbolically over all designs (each step covers all input valuations)",
        })
    finally:
        wd.close()
