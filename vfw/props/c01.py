"""C01 -- coroutine -> state machine translation is clock-accurate.
Per generated coroutine: pair induction between the emitted state machine (interpreted VHDL) and
the reference semantics R (unbounded input sequences when it closes); BMC from power-up + concrete
replay confirms any failing step before it is reported."""
from __future__ import annotations
import time
from ..core import Reporter, Workdir, try_compile, text_hash, reset_cohdl_state
from .. import vhdl_sim as VS
from ..vhdl_parse import Illegal, Unsupported
from ..refsem import RefProc, RejectExpected, RUnsupported
from ..refseq import UseBeforeDef
from ..seqcheck import VModel, pair_induction, bmc, replay_trace, SeqProgram
from .. import gen_coro


def check_program(rep, wd, prog: SeqProgram, K, want_reset_pairs=False, ref_cls=RefProc):
    """-> dict(status=..., ...)"""
    st = rep.stats
    try:
        mod = wd.load(prog.source, "coro")
        text, exc = try_compile(getattr(mod, prog.entity))
    except BaseException as e:
        if isinstance(e, (KeyboardInterrupt, SystemExit)):
            raise
        reset_cohdl_state()
        text, exc = None, e
    st.programs += 1
    if text is None:
        st.rejected += 1
        return {"status": "rejected", "why": f"{type(exc).__name__}: {str(exc)[:200]}"}
    st.accepted += 1
    try:
        ref = ref_cls(prog.source, prog.proc, prog.objs)
        if prog.meta.get("step_cond"):
            ref.step_cond = prog.meta["step_cond"]
    except RUnsupported as e:
        return {"status": "outside", "why": str(e)}
    try:
        lib = VS.Library(text)
        vm = VModel(prog, lib)
    except Illegal as e:
        return {"status": "illegal", "why": str(e), "vhdl": text}
    h = text_hash(text)
    try:
        res = pair_induction(st, prog, lib, ref, vm)
    except RUnsupported as e:
        return {"status": "outside", "why": str(e)}
    except UseBeforeDef as e:
        return {"status": "must-reject", "why": f"name {e} is bound on some paths only", "vhdl": text, "lib": lib, "vm": vm}
    if res.violation:
        return {"status": "outside", "why": "R: " + res.violation["why"]}
    if res.inconclusive:
        return {"status": "inconclusive", "why": res.inconclusive[0]}
    out = {"status": "closed" if res.closed else "open", "pairs": res.pairs, "hash": h, "nstates": vm.nstates, "lib": lib, "ref": ref, "vm": vm, "text": text}
    if res.closed:
        return out
    # induction step failed: look for a real trace
    try:
        r = bmc(st, prog, lib, ref, vm, K)
    except RejectExpected as e:
        return {"status": "outside", "why": "R: " + str(e)}
    if r == "unknown":
        return {"status": "inconclusive", "why": "bmc unknown"}
    if r is None:
        out["status"] = "bounded"
        out["K"] = K
        out["step_cex"] = getattr(res, "step_cex", None)
        return out
    clock, log = replay_trace(prog, lib, ref, vm, r["trace"], r["init"])
    if clock is None:
        return {"status": "inconclusive", "why": f"bmc counterexample at clock {r['clock']} does not reproduce concretely"}
    return {"status": "violation", "trace": r["trace"], "init": r["init"], "clock": clock, "log": log[-4:], "vhdl": text}


def run(tier: str) -> int:
    rep = Reporter("C01", tier, "translation_validation")
    wd = Workdir()
    K = 10 if tier == "quick" else 20
    counts = {}
    try:
        progs = gen_coro.programs(tier, rep.seed)
        budget = 150 if tier == "quick" else 2400
        t0 = time.time()
        def job(i, rw, wdw):
            r = check_program(rw, wdw, progs[i], K)
            keep = {k: r[k] for k in ("status", "why", "clock", "log", "trace", "init", "vhdl", "hash", "nstates") if k in r}
            if "pairs" in r:
                keep["pairs"] = [list(p) for p in r["pairs"]]
            return keep

        from ..core import parallel_programs
        results = parallel_programs(rep, len(progs), job, deadline=t0 + budget)
        done = len(results)
        for i in sorted(results):
            prog, r = progs[i], results[i]
            if r["status"] == "worker-error":
                r = {"status": "inconclusive", "why": r["why"]}
            s = r["status"]
            counts[s] = counts.get(s, 0) + 1
            if s == "violation":
                body = prog.meta.get("body")
                rep.violation(f"coro|{hash_body(prog)}", f"emitted state machine differs from the coroutine at clock {r['clock']}: {r['log'][-1]}",
                              {"source": prog.source, "trace": r["trace"], "init": r["init"], "log": r["log"], "vhdl": r["vhdl"]})
            elif s == "illegal":
                rep.violation(f"coro-illegal|{hash_body(prog)}", f"emitted VHDL illegal: {r['why']}", {"source": prog.source, "vhdl": r["vhdl"]})
            elif s == "inconclusive":
                rep.inconclusive_query(f"{hash_body(prog)}: {r['why']}")
            elif s in ("closed", "bounded"):
                if r["nstates"] > 1:
                    rep.stats.nontrivial.add(r["hash"])
                rep.stats.hashes.add(r["hash"])
                if len(rep.stats.samples) < 4 and r["nstates"] > 2:
                    rep.stats.sample({"source_proc": prog.source.split("async def proc():")[1], "verdict": s, "control_pairs": [list(p) for p in r["pairs"]][:12]})
        rep.stats.units |= {"cohdl._compiler.frontend._generate_ir.IrGenerator (Await/While/If/Continue/Break lowering)",
                            "cohdl._core._ir._repr.StatemachineContext.finish / Statemachine.as_case_when",
                            "cohdl.std._context sequential wrapper (clock/reset)", "VHDL backend (process emission)"}
        rep.assumptions += ["programs: coro grammar of DESIGN Appendix C (3 bit inputs, trace/seen outputs, 2 variables)",
                            "induction closes => all input sequences of any length; otherwise BMC depth K from power-up",
                            "two-valued logic; reference semantics R of DESIGN Appendix B"]
        return rep.finish({
            "programs": done,
            "program_results": counts,
            "disagreements_checked": counts.get("violation", 0) + counts.get("illegal", 0),
            "distinct_nontrivial": len(rep.stats.nontrivial),
            "evaluations": done,
            "rule": "one program = one coroutine body; non-trivial = accepted, emitted text distinct (hash) and more than one state",
            "samples": rep.stats.samples or [{"source": progs[0].source}],
            "bounds": {"bmc_K": K, "grammar_depth": 2 if tier == "quick" else 3, "programs_generated": len(progs)},
            "unbounded_closed": counts.get("closed", 0), "bounded_only": counts.get("bounded", 0),
        }, max_inconclusive=2)
    finally:
        wd.close()


def hash_body(prog):
    import hashlib
    return hashlib.sha1(prog.source.encode()).hexdigest()[:10]
