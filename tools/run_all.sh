#!/bin/bash
# runs every claimed check of the given tier against /repo and prints one line per check
TIER=${1:-quick}
cd "$(dirname "$0")/.."
for id in $(python3 -c "import json;print(' '.join(c['property_id'] for c in json.load(open('MANIFEST.json'))['checks']))"); do
  S=$(date +%s)
  OUT=$(bin/check $id --tier $TIER 2>&1); RC=$?
  echo "$id rc=$RC $(( $(date +%s) - S ))s $(echo "$OUT" | tail -1 | cut -c1-150)"
  echo "$OUT" | grep -E "^(VIOLATION|KNOWN-FINDING|HARNESS)" | head -5
done
