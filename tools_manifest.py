#!/usr/bin/env python3
"""regenerates MANIFEST.json from the table below (keeps it valid at all times)"""
import json, os
HERE = os.path.dirname(os.path.abspath(__file__))
props = [json.loads(l) for l in open(os.path.join(HERE, "properties.jsonl"))]
ids = [p["id"] for p in props]

CHECKS = {
    "C02": dict(
        category="translation_validation",
        text="For every generated expression cell (operator x operand types x widths 1..3 quick / 1..4 thorough x concurrent+clocked context, plus seeded depth-2 trees) the real compiler's emitted VHDL is parsed and interpreted symbolically and z3 proves output == documented value for ALL operand values; sat models are replayed concretely on the recompiled text.",
        design_ref="DESIGN.md 3/C02, 2.3-2.6",
        note="Trusted: VHDL-subset semantics of vfw/vhdl_*.py (numeric_std per Appendix A, two-valued logic), spec table vfw/spec.py written from the property statement, z3. Assumes divisor != 0; integer literals representable in the vector operand type; programs enumerated, operand values symbolic.",
        technique="bounded symbolic translation validation: z3 (QF_BV) over interpreted emitted VHDL vs single-source spec",
    ),
}
CHECKS["C09"] = dict(
    category="translation_validation",
    text="(a) CrossHair executes the real Python methods of Unsigned/Signed/BitVector/Bit symbolically (operand values symbolic, widths <=2 quick / <=3 thorough, every operator x type pair x operand order incl. Python ints) and must report 'Confirmed over all paths' for type/width/value == spec; (b) designs with constant operands are compiled and the emitted literal is compared with the same spec. C02 proves the run-time logic against the same spec functions, so agreement of compile-time and run-time follows. (c) the division / remainder / modulus kernels of _op, Signed, Unsigned, Integer are translated from their AST into QF_BVFP (int / int as the correctly rounded quotient) and proved equal to the exact operation for all 64-bit operands; sat witnesses are replayed on the public API.",
    design_ref="DESIGN.md 3/C09, 2.5, 2.7, 2.7b",
    note="Trusted: CrossHair/z3, the spec table; widths bounded as stated (one path per operand valuation); divisor != 0; int operands representable in the vector type. 'Not confirmed' counts as inconclusive (exit 2), never as held.",
    technique="CrossHair symbolic execution of the Python primitives vs single-source spec + z3 check of folded literals + z3 (QF_BVFP) on the AST-translated full-width division kernels",
    engine="E-PY",
)
CHECKS["C01"] = dict(
    category="translation_validation",
    text="For every generated coroutine body (grammar of DESIGN App. C: awaits on conditions, await true, if/else with awaits, while with break/continue/return, awaited sub-coroutines) the emitted state machine (interpreted VHDL) is proved equivalent to the reference coroutine semantics R by pair induction: a control-state relation is discovered by solver-driven closure and, for every pair with ARBITRARY equal data, z3 proves equal registers/outputs after one clock for all inputs -- i.e. all input sequences of any length. A failing step is confirmed by BMC from power-up and a concrete replay before it is reported.",
    design_ref="DESIGN.md 3/C01, 2.2, 2.6, App. B",
    note="Trusted: VHDL-subset semantics, R (written from the property statement), z3. Programs enumerated (core exhaustive + seeded), inputs/schedules symbolic. If induction does not close the result for that program is bounded (BMC depth K) and says so.",
    technique="pair induction (z3) between interpreted emitted VHDL and reference coroutine semantics; BMC + replay to confirm",
)
CHECKS["C04"] = dict(
    category="translation_validation",
    text="Generated contexts wrapped with every reset flavour (sync/async x polarity x clock edge x objects with default / without / noreset x on_reset action): control pairs discovered by pair induction; from every pair with ARBITRARY data z3 decides reset scenarios S1-S6 (active at the edge, async assertion without edge / while clock stable, held over further edges, release without edge, sync pulse between edges has no effect).",
    design_ref="DESIGN.md 3/C04",
    note="Trusted: event-driven VHDL-subset semantics (sensitivity lists honoured), R, z3. Arbitrary pre-state is a superset of reachable states; 'behaves as after power-up' follows from state equality on resettable objects plus the C01-style equivalence proved for the same program.",
    technique="one-step symbolic reset scenarios from arbitrary paired states (z3 over interpreted VHDL)",
)
CHECKS["C03"] = dict(
    category="translation_validation",
    text="seqbody family (signals, variables, slices/bits, push targets, locally constructed objects, run-time indexed arrays, if/elif/else, match, for-break/else, helper functions returning from branches, always expressions): for every accepted program z3 proves that one activation of the emitted process from an ARBITRARY pre-state equals the reference interpreter of the Python source for all inputs (identity relation on declared state => all input histories); concurrent cells prove continuous driving.",
    design_ref="DESIGN.md 3/C03, 2.2, 2.6",
    note="Trusted: VHDL-subset semantics, reference interpreter vfw/refseq.py, z3. Programs enumerated (core + seeded), pre-state and inputs symbolic.",
    technique="one-step inductive equivalence (z3) of interpreted emitted VHDL vs reference interpreter of the source",
)
CHECKS["C08"] = dict(
    category="translation_validation",
    text="(1) 2-safety query per control state of every emitted process of the def/use, seqbody and coro families: two activations with equal declared state and inputs but different arbitrary contents of all compiler temporaries must agree (sat = output depends on a stale intermediate, replayed concretely); (2) programs whose reference interpretation meets a Python-level intermediate that is unbound on some path must be rejected by the compiler.",
    design_ref="DESIGN.md 3/C08, 2.6 noninterference",
    note="Trusted: VHDL-subset semantics, reference interpreter, z3. Storage inference for intermediates = dependence on pre-activation contents, decided for all inputs per enumerated program.",
    technique="2-safety (noninterference) SMT query over interpreted emitted VHDL + must-reject oracle from the reference interpreter",
)
CHECKS["C18"] = dict(
    category="translation_validation",
    text="Every std helper of the statement (population counts, leading/trailing counts, one_hot/is_one_hot, reverse_bits, rol/ror, shift-fills, repeat/stretch/pads, concat, apply_mask/Mask, batched/select_batch, minimum/maximum/min_element/max_element/min_index/max_index, count, clamp, count_elements_while/until, choose_first/select/cond, binary_fold/batched_fold) is compiled in a concurrent wrapper for widths 1..5 (quick) / 1..8 (thorough), list lengths <=7, batch sizes 2/3/6; z3 proves output == bit-loop definition for all inputs. BitwiseCrc: one step of 1..3 bits from an arbitrary register (inductive over message length) equals polynomial division.",
    design_ref="DESIGN.md 3/C18",
    note="Trusted: VHDL-subset semantics, the bit-loop specifications in vfw/props/c18.py, z3. Python-constant path of the helpers is not separately decided here (it shares the code path: helpers are ordinary cohdl functions evaluated by the same operators C09 covers).",
    technique="bounded symbolic translation validation: z3 over interpreted emitted VHDL vs bit-loop definitions",
)
CHECKS["C05"] = dict(
    category="translation_validation",
    text="Matrix of ordered (source, target) type pairs over Bit/bool/BitVector[n]/Unsigned[n]/Signed[n] (n<=3 quick, <=4 thorough), int/str literals, Null/Full x assignment forms (<<=, .next, ^=, .push, @=, .value, initialisation of local Signals/Variables, slice and bit targets, if-expression and return merges). Oracle = accept/reject matrix of the statement: must-accept cells are proved value preserving for ALL source values by z3 over the interpreted emitted VHDL (range-checked), must-reject cells must fail to compile, merges must be rejected or preserve the selected operand's value.",
    design_ref="DESIGN.md 3/C05, App. E",
    note="Trusted: spec.conv_assign (written from the statement), VHDL-subset semantics, z3. Vector truthiness and slices of typed vectors are outside (statement silent). Port connections are exercised by C12.",
    technique="accept/reject matrix + z3 value-preservation proof per accepted cell",
)
CHECKS["C17"] = dict(
    category="translation_validation",
    text="Bank of serialisable type compositions (primitives; records nested / inherited / templated / with bool, enum and array fields; std.Array incl. nested and of records; std.Enum, FlagEnum; SFixed/UFixed; Serialized[T]; BitField incl. nested): for each, z3 proves for ALL bit patterns / field values that to_bits(from_bits[T](b)) == b, each field of from_bits[T](b) is exactly its documented bit range (first field / element 0 at the LSBs), to_bits of a value built from fields is the documented concatenation, from_bits(to_bits(x)) == x, count_bits(T) is the documented width, and BitField reads/writes touch exactly their range.",
    design_ref="DESIGN.md 3/C17",
    note="Trusted: VHDL-subset semantics, layout rule of the statement, z3. Total width <= 10 bits per type (12 thorough), hand-written and generated type compositions; the compile-time side is covered by literal twins of the round-trip / layout cells (concrete evaluations, not a solver claim).",
    technique="bounded symbolic translation validation (z3) of serialisation cells against the documented layout",
)
CHECKS["C16"] = dict(
    category="model_checking",
    text="Wrapper designs for std.wait_for / Waiter.wait_for (constant 1..5(7) and run-time Unsigned[3] durations, allow_zero), std.delayed (0..4 stages, with/without initial value, conditionally executed), continuous_counter (constant and run-time limit), ToggleSignal (durations incl. 0, default_state, first_state, run-time reset) and debounce (periods 2..5) are unrolled from power-up for K >= 2*period+4 clocks with start/reset/enable/data/duration inputs symbolic at every clock; z3 proves the outputs equal a small reference machine at every clock; emitted VHDL assertions are proof obligations; counterexamples are replayed concretely.",
    design_ref="DESIGN.md 3/C16, 2.6",
    note="Bounded claim (depth K). Trusted: event-driven VHDL-subset semantics, reference machines (ToggleSignal / debounce follow the upstream ghdl-validated mocks), z3. Not covered: Duration (float) arguments / Duration.count_periods rounding, ClockDivider.",
    technique="bounded model checking (z3) of interpreted emitted VHDL against reference machines",
)
CHECKS["C14"] = dict(
    category="model_checking",
    text="Wrapper entities around std.Fifo[Unsigned[2],N] (N in {3,4} quick / {2..5} thorough; producer and consumer in two contexts or one) and std.Stack[Unsigned[2],N] (default / NO_OVERFLOW / DROP_OLD) are unrolled K = 3N+4 clocks from power-up with a symbolic request (push(v), pop, both, clear, context reset, none) and symbolic data at every clock under the documented preconditions; z3 proves popped values, order, front, empty/full/size equal a ghost bounded sequence at every clock, and that the emitted 'writing to full fifo' / 'reading from empty fifo' assertions are unreachable.",
    design_ref="DESIGN.md 3/C14, 2.6",
    note="Bounded claim (depth K). Trusted: VHDL-subset semantics, ghost model, z3. Delayed (tx/rx delay) clock-domain-crossing configurations are not covered; reading Stack.front while empty is excluded (documented as undefined).",
    technique="bounded model checking (z3) of interpreted emitted VHDL against a ghost sequence model",
)
CHECKS["C15"] = dict(
    category="model_checking",
    text="Two-process (and one-process) wrapper entities around std.SyncFlag and std.Mailbox[Unsigned[2]] with tx/rx delays in 0..2 are unrolled K=14 (quick) / 24 (thorough) clocks from power-up; the producer's attempt, the consumer's readiness, the payload and the context reset are symbolic at every clock. z3 proves the hand-over monitor at every clock: a set/send issued while the producer observes clear is observed by the consumer exactly once (no duplicate or phantom receive), payloads arrive unmodified and in order, a set while set has no effect, the producer observes clear again only after the consumer cleared; plus bounded progress when both sides are always willing.",
    design_ref="DESIGN.md 3/C15, 2.6",
    note="Bounded claim (depth K), both contexts on one clock (relative timing is varied through the symbolic per-clock willingness and the configured delays). Trusted: VHDL-subset semantics, monitors, z3.",
    technique="bounded model checking (z3) of interpreted emitted VHDL with ghost monitors",
)
CHECKS["C06"] = dict(
    category="other",
    text="(a) the strict VHDL-subset front end (parse, declared-once case-insensitively, reserved words, name resolution with user declarations shadowing predefined names, typing with numeric_std/std_logic_1164 overloads and width rules, out-port reads, case choice rules, sensitivity lists, drivers) is run over the emitted text of the coro / seqbody / expression / std-helper / serialisation families; (b) a 'names' family pushes reserved words, predefined names, case variants, underscore-decorated and generated-looking names through every declaration kind (ports, signals, variables, processes, enum literals, entities) of the whole compiler: accepted => text legal; (c) CrossHair executes the real VhdlScope.declare/complete_setup symbolically over name choices and pre-reserved suffixes (16 conditions, all must be 'Confirmed over all paths'): assigned names distinct, legal, not reserved/predefined.",
    design_ref="DESIGN.md 3/C06, 2.3",
    note="(a)/(b) are decided by a deterministic checker (not a solver verdict) and say 'inside the strictly checked subset of VHDL-2008', not 'accepted by every tool'; (c) is the solver-based part. Coverage of std_logic metavalues by case choices is not demanded.",
    technique="deterministic VHDL-subset legality checker over emitted text + CrossHair on backend name allocation",
    engine="E-VHDL",
)
CHECKS["C19"] = dict(
    category="translation_validation",
    text="SFixed/UFixed formats left in [-2..3], right in [-3..2], width <= 4 (quick, seeded subset of pairs) / <= 5 (thorough, all pairs): for every format pair and every style combination z3 proves for ALL raw values that + - * are exact in the result format the implementation chooses (range-checked; UFixed '-' modulo the range), resize equals floor / round-half-even followed by wrap / saturate in exact scaled-integer arithmetic (saturating cells split into in-range / above-max / below-min obligations), constructors from int, Signed, Unsigned and other formats preserve the number, equality compares represented numbers.",
    design_ref="DESIGN.md 3/C19",
    note="Trusted: exact scaled-integer specification in vfw/props/c19.py, VHDL-subset semantics, z3. Not covered: construction from Python floats. Known findings (resize between non-overlapping formats) are listed in known_findings.json.",
    technique="bounded symbolic translation validation (z3) against exact scaled-integer arithmetic + z3 (QF_BVFP) on the AST-translated number-to-raw kernel",
)
CHECKS["C07"] = dict(
    category="other",
    text="(a) CrossHair executes the real usage check of ir.EntityTemplate.__init__ on IR built from symbolic placements of three writers (context index, object in {2 signals, input port, variable}, target part in {whole, bit, slice}); 36 conditions, each must be 'Confirmed over all paths': rejected <=> (input port written, or one root object written/used from two contexts). (b) placement programs through the whole compiler: two writer sites from {2 sequential, 2 concurrent contexts, sub-entity instance output} x target parts x {signal, output port, input port}, plus variable / temporary sharing and nested-function writers: conflict => must be rejected; no conflict => accepted and the emitted architecture passes the front end's one-driver-per-element rule.",
    design_ref="DESIGN.md 3/C07",
    note="(b) is enumeration + deterministic checker; (a) is the solver-based part (bounded: 3 writers, 3 contexts). Overlapping assignments inside ONE concurrent block are one context by definition and are not judged (resolution function).",
    technique="CrossHair symbolic execution of the IR usage check + placement family with reject/accept oracle",
    engine="E-PY",
)
CHECKS["C13"] = dict(
    category="other",
    text="(1) CrossHair executes the real metaclass __getitem__ machinery of BitVector/Unsigned/Signed/Array and Signal/Variable/Temporary/Port and the view accessors symbolically (87 conditions, all must be 'Confirmed over all paths') over symbolic widths (1..8), kinds, qualifier kinds, port directions, both orders of first use (type caches reset to the import-time snapshot on every path), and for views the contents, written slice, written bits, read view and qualifier. Post-conditions: identical class <=> equal parameters; issubclass matrix of the statement incl. 'unrelated => False'; Port[T,d] is a Signal[T], a Port/Signal of every documented base of T and of nothing unrelated; writes through any view (also views of plain values: x.bitvector / x.unsigned / x.signed and slices of them) are read back through every other view, same _root and qualifier. (2) 363 view cells through the whole compiler (chains of up to three slices with .bitvector/.unsigned/.signed views in between, element access and iteration; reads and writes; 10-bit roots of each kind): z3 proves that the emitted text reads / writes exactly the bits the view denotes, for all contents.",
    design_ref="DESIGN.md 3/C13, 2.7",
    note="Bounded (widths, two first-use orders per pair, object width 2/3 for views). Trusted: CrossHair/z3; harness vfw/props/c13_epy.py.",
    technique='CrossHair symbolic execution of the type-construction and view code with PEP316 post-conditions; z3 equivalence of emitted view accesses with the bit-range specification (cell engine)',
    engine="E-PY",
)
CHECKS["C10"] = dict(
    category="other",
    text="PARTIAL claim. (1) CrossHair executes the real FunctionDefinition.bind_args for a bank of 18 signatures (every mix of positional-only, positional-or-keyword, *args, keyword-only, **kwargs, defaults, up to 4 parameters) with a symbolic call shape (0..5 positionals, any subset of keyword names a,b,c,d,x) and compares with CPython's inspect.Signature.bind + apply_defaults: same binding or both reject; likewise PrepareAst._split_target vs real starred assignment. (2) A bank of plain-Python programs over three selectors in 0..3 (operator dispatch with reflected fallbacks and declining operands, chained comparisons, and/or/not as truth values, parameter kinds and binding errors, closures vs globals incl. pre-built closures, late binding, classes / super / properties / __call__, unpacking, subscripts, slices, comprehensions, constant control flow, builtins): the value cohdl's tracer computes at compile time (read off the emitted literal) equals CPython's, or the program is rejected; programs CPython rejects must be rejected. One CrossHair condition per signature / program, all must be 'Confirmed over all paths'.",
    design_ref="DESIGN.md 3/C10, 4",
    note="For part (2) the tracer cannot run on symbolic values (it dispatches through unbound builtin descriptors): CrossHair chooses the selector values path by path and the real tracer then runs concretely under NoTracing, so 'Confirmed over all paths' means all 64 selector triples of a program agree. Not claimed: programs outside the bank (the quantifier over program text is outside the reach of solver-based checking). One known finding (late binding of closures created in comprehensions).",
    technique='CrossHair symbolic execution of bind_args vs inspect.Signature.bind (call shapes symbolic); CrossHair path enumeration over selector values with the real tracer run concretely per path, differential against CPython',
    engine="E-PY",
)
CHECKS["C12"] = dict(
    category="translation_validation",
    text="Instantiation trees (depth <= 3, fan-out <= 3, repeated templates, nested instances, slice and typed-view actuals, instances created inside a concurrent context; combinational, registered, counter and coroutine leaves) are compiled twice -- hierarchically and with the same leaf functions inlined in the parent -- and z3 proves the two emitted designs (hierarchy flattened along the port maps by the front end) produce equal outputs: for all inputs (combinational trees) / for all input sequences of K=6 (quick) / 12 (thorough) clocks from power-up. The emitted interface (names, directions, types, order), one unit per template and sub-entities-before-users are read off the elaborated text.",
    design_ref="DESIGN.md 3/C12",
    note="Bounded for clocked trees (depth K). Trusted: front end's port-map flattening (aliases for plain names, implicit assignments otherwise), z3. The interface / ordering part is a deterministic reading of the text.",
    technique="symbolic equivalence (z3) of two compiler outputs: hierarchical vs inlined design",
)
CHECKS["C20"] = dict(
    category="model_checking",
    text="Register maps connected through std.axi.axi4_light (Register with MemField/Field, MemWords with unmapped holes, nested RegFiles; 8-bit addresses, 32-bit data) are unrolled K=8 (quick) / 10 (thorough) clocks from power-up against a fully symbolic AXI4-Lite master: arbitrary valid/ready/address/data/strobe on all five channels at every clock under the master rules (valid held, payload stable until ready). z3 proves the protocol monitor (each request answered exactly once, no response without request, valids never withdrawn, payload stable) and the data monitor (a read returns the ghost register value; a write merges exactly the strobed bytes of exactly the addressed register; unmapped writes change nothing) at every clock, plus bounded progress with an always-willing master.",
    design_ref="DESIGN.md 3/C20",
    note="Bounded claim (depth K; the unsat proof grows steeply with K: 25 s at K=8, 6 min at K=10 per map). Trusted: VHDL-subset semantics, ghost register/transaction model, z3. Read data of unmapped addresses and hardware-side notifications are not constrained.",
    technique="bounded model checking (z3, QF_BV) of interpreted emitted VHDL with protocol and data monitors",
)
NA = {
    "C11": "not applicable: the quantifier is over histories of whole-compiler runs and interpreter hash seeds; every point is one concrete whole-program compilation, there is no data domain to make symbolic and CrossHair cannot trace the compiler (probed, DESIGN.md section 3/C11 and 4); using a solver only to pick history indices would be enumeration of concrete runs under another name",
}
manifest = {
    "version": 1,
    "setup_cmd": "bin/ensure_env.sh",
    "hooks": {
        "guard": "COHDL_VERIF",
        "enable": "no source hooks are needed: checks observe cohdl through its public API (std.VhdlCompiler.to_string) on /repo's working tree",
        "baseline_off_cmd": "cd /repo && /venv/bin/python -m pytest -ra -q -p no:cacheprovider --timeout=900 --continue-on-collection-errors",
        "source_commits": [],
        "add_only": True,
    },
    "engines": [
        {"name": "E-PY", "path": "vfw/chrun.py", "serves_properties": sorted(k for k, v in CHECKS.items() if v.get("engine") == "E-PY"), "kind_free_text": "CrossHair 0.0.110 (z3) symbolic execution of pure-Python units of cohdl with PEP316 contracts generated from the spec table"},
        {"name": "E-VHDL", "path": "vfw/", "serves_properties": sorted(k for k, v in CHECKS.items() if v.get("engine", "E-VHDL") == "E-VHDL"), "kind_free_text": "own VHDL-subset front end + dual-domain (z3 / python int) interpreter of the text the real compiler emits"},
    ],
    "checks": [],
    "not_applicable": [],
    "notes": "bin/check <ID> --tier quick|thorough; exit 0 ok, 1 violation (VIOLATION line), 2 harness error / inconclusive. known_findings.json lists recorded findings and fixed: entries.",
}
for pid in ids:
    if pid in CHECKS:
        c = CHECKS[pid]
        manifest["checks"].append({
            "property_id": pid,
            "quick_cmd": f"bin/check {pid} --tier quick",
            "thorough_cmd": f"bin/check {pid} --tier thorough",
            "evidence_file": f"evidence/{pid}.json",
            "replay_cmd_template": f"bin/check {pid} --replay {{path}}",
            "engine": c.get("engine", "E-VHDL"),
            "level_claimed": {"category": c["category"], "text": c["text"], "design_ref": c["design_ref"]},
            "level_note": c["note"],
            "technique": c["technique"],
        })
    else:
        manifest["not_applicable"].append({"property_id": pid, "reason": NA.get(pid, "check not built yet in this round (planned, see DESIGN.md section 3); not claimed")})
json.dump(manifest, open(os.path.join(HERE, "MANIFEST.json"), "w"), indent=1)
print("checks:", [c["property_id"] for c in manifest["checks"]])
