"""Reference semantics for one activation of a non-coroutine sequential context (C03/C08):
a direct interpreter of the Python source (ast) of the process function, generic over the spec
prelude.  Paths are enumerated with a decision oracle (re-execution), so helper functions with
returns in branches, for/break/else chains and match statements need no special treatment."""
from __future__ import annotations
import ast
from dataclasses import dataclass

import z3

from . import spec as SP
from .spec import Ty, PyP, Z3P, INTT, BOOL, BIT
from .refsem import (Obj, RVal, Path, RUnsupported, RejectExpected, START, Expr as _BaseExpr, convert, _land, _lor,
                     _const_truth, _BINOP, _CMP)


@dataclass(frozen=True)
class ArrTy:
    elem: Ty
    n: int
    kind: str = "Arr"
    signed: bool = False

    def __str__(self):
        return f"Array[{self.elem},{self.n}]"


class UseBeforeDef(Exception):
    """a Python-level name bound only on some paths is used: the program must be rejected (C08)"""


class _Return(Exception):
    def __init__(self, v):
        self.v = v


class _Break(Exception):
    pass


class _Continue(Exception):
    pass


@dataclass
class Ref:
    name: str
    part: tuple = ()  # () | ('bit', i) | ('slice', hi, lo) | ('elem', idx_value(prelude int), captured)


class _PathCtx:
    def __init__(self, P, decisions):
        self.P = P
        self.decisions = list(decisions)
        self.pos = 0
        self.guard = True
        self.alts = []

    def decide(self, c):
        if isinstance(c, bool):
            return c
        if self.pos < len(self.decisions):
            d = self.decisions[self.pos]
        else:
            d = True
            self.alts.append(self.decisions[:self.pos] + [False])
            self.decisions.append(True)
        self.pos += 1
        cc = c if d else z3.Not(c)
        self.guard = cc if self.guard is True else z3.And(self.guard, cc)
        return d


def parse_type(node):
    """Unsigned[3] / Signed[2] / BitVector[4] / Bit / Array[Unsigned[2], 4]"""
    if isinstance(node, ast.Name):
        if node.id == "Bit":
            return BIT
        if node.id == "bool":
            return BOOL
    if isinstance(node, ast.Subscript) and isinstance(node.value, ast.Name):
        k = node.value.id
        if k in ("Unsigned", "Signed", "BitVector") and isinstance(node.slice, ast.Constant):
            return Ty({"Unsigned": "U", "Signed": "S", "BitVector": "BV"}[k], node.slice.value)
        if k == "Array" and isinstance(node.slice, ast.Tuple):
            return ArrTy(parse_type(node.slice.elts[0]), node.slice.elts[1].value)
    raise RUnsupported("type expression")


class RefSeq:
    """same interface as refsem.RefProc for a single-state process"""

    def __init__(self, source: str, proc_name: str, objs: dict):
        self.objs = objs
        self.tree = ast.parse(source)
        self.fns = {}
        for n in ast.walk(self.tree):
            if isinstance(n, (ast.FunctionDef, ast.AsyncFunctionDef)):
                self.fns[n.name] = n
        self.fn = self.fns[proc_name]
        self.push_targets = set()
        for fn in self.fns.values():
            for n in ast.walk(fn):
                if isinstance(n, ast.AugAssign) and isinstance(n.op, ast.BitXor):
                    self.push_targets.add(self._root_name(n.target))
                if isinstance(n, ast.Assign) and len(n.targets) == 1 and isinstance(n.targets[0], ast.Attribute) and n.targets[0].attr == "push":
                    self.push_targets.add(self._root_name(n.targets[0].value))
                if isinstance(n, ast.Call) and isinstance(n.func, ast.Attribute) and n.func.attr == "assign" and len(n.args) == 3 and \
                        isinstance(n.args[2], ast.Attribute) and n.args[2].attr == "PUSH":
                    self.push_targets.add(self._root_name(n.args[0]))
        self.push_targets.discard(None)
        self.pcs = [START]
        self._written = None

    def _root_name(self, t):
        while isinstance(t, ast.Subscript):
            t = t.value
        if isinstance(t, ast.Attribute) and isinstance(t.value, ast.Name) and t.value.id == "self":
            return t.attr
        if isinstance(t, ast.Name):
            return t.id
        return None

    def initial_env(self, P):
        out = {}
        for n, o in self.objs.items():
            if o.kind == "in":
                continue
            if isinstance(o.ty, ArrTy):
                out[n] = [o.default or 0] * o.ty.n if not isinstance(o.default, list) else list(o.default)
            else:
                out[n] = o.default if o.default is not None else 0
        return out

    def written(self):
        if self._written is None:
            w = set()
            for fn in self.fns.values():
                for n in ast.walk(fn):
                    if isinstance(n, ast.AugAssign):
                        w.add(self._root_name(n.target))
                    if isinstance(n, ast.Call) and isinstance(n.func, ast.Attribute) and n.func.attr == "assign" and n.args:
                        w.add(self._root_name(n.args[0]))
                    if isinstance(n, ast.Assign) and len(n.targets) == 1 and isinstance(n.targets[0], ast.Attribute) and n.targets[0].attr in ("next", "value", "push"):
                        w.add(self._root_name(n.targets[0].value))
                    if isinstance(n, ast.Assign) and isinstance(n.value, ast.Call) and isinstance(n.value.func, ast.Subscript) and \
                            isinstance(n.value.func.value, ast.Name) and n.value.func.value.id in ("Signal", "Variable") and isinstance(n.targets[0], ast.Name):
                        w.add(n.targets[0].id)
            w.discard(None)
            self._written = w & set(self.objs)
        return self._written

    # ------------------------------------------------------------------
    def activate(self, P, pc, env, inputs, max_paths=512):
        assert pc == START
        paths = []
        work = [[]]
        while work:
            dec = work.pop()
            ctx = _PathCtx(P, dec)
            it = _Interp(self, P, ctx, env, inputs)
            it.run()
            work.extend(ctx.alts)
            paths.append(Path(ctx.guard, START, it.result_env()))
            if len(paths) > max_paths:
                raise RUnsupported("too many paths")
        return paths


class _Interp:
    def __init__(self, prog: RefSeq, P, ctx: _PathCtx, env, inputs):
        self.prog, self.P, self.ctx = prog, P, ctx
        self.objs = prog.objs
        self.env = env
        self.sig = dict(env)
        self.sig.update(inputs)
        self.var = {n: env[n] for n, o in self.objs.items() if o.kind == "var" and n in env}
        self.pending = {}
        # reset_pushed: every push target of the context gets its default at the start of each step
        for n in prog.push_targets:
            o = self.objs.get(n)
            if o is not None and o.default is not None and n in env:
                self.pending[n] = o.default
        self.pushed = set()
        self.local_now = {}  # local signals constructed in this activation: readable value
        self.frames = [{}]
        self.depth = 0

    # -- results
    def result_env(self):
        new = dict(self.env)
        for n in self.prog.push_targets:
            if n not in self.pushed and n in new:
                o = self.objs[n]
                new[n] = o.default if o.default is not None else self.env[n]
        for n, v in self.var.items():
            new[n] = v
        for n, v in self.pending.items():
            new[n] = v
        return new

    def run(self):
        body = [s for s in self.prog.fn.body]
        try:
            self.block(body)
        except _Return:
            pass

    # -- object access
    def read_obj(self, name):
        o = self.objs[name]
        if o.kind == "var" and o.ty.kind == "bool":
            # boolean variables are stored as 0/1 numbers in the environment, expressions use prelude booleans
            x = self.var[name]
            return RVal(BOOL, (x != 0) if not isinstance(x, bool) else x)
        if o.kind == "var":
            return RVal(o.ty, self.var[name])
        if name in self.local_now:
            return RVal(o.ty, self.local_now[name])
        return RVal(o.ty, self.sig[name])

    def deref(self, x):
        if isinstance(x, RVal):
            return x
        if isinstance(x, Ref):
            base = self.read_obj(x.name)
            return self.part_value(base, x.part)
        if isinstance(x, bool):
            return RVal(BOOL, x)
        if isinstance(x, int):
            return RVal(INTT, x)
        raise RUnsupported(f"value {x!r}")

    def part_value(self, base: RVal, part):
        P = self.P
        if not part:
            return base
        k = part[0]
        if isinstance(base.ty, ArrTy):
            if k != "elem":
                raise RUnsupported("array part")
            idx = part[1]
            if isinstance(idx, int):
                v = base.v[idx]
            else:
                v = base.v[-1]
                for i in range(base.ty.n - 2, -1, -1):
                    v = P.ite(idx == i, base.v[i], v)
            r = RVal(base.ty.elem, v)
            return self.part_value(r, part[2:]) if len(part) > 2 else r
        bits = SP._bits(P, base.v, base.ty)
        if k == "bit":
            return RVal(BIT, P.band(P.shr(bits, part[1]), P.const(1)))
        if k == "slice":
            hi, lo = part[1], part[2]
            w = hi - lo + 1
            return RVal(SP.BV(w), P.wrap(P.shr(bits, lo), w, False))
        if k == "elem":  # run-time bit index of a vector
            idx = part[1]
            return RVal(BIT, P.band(P.shr(bits, idx), P.const(1)))
        raise RUnsupported("part")

    def update(self, cur, ty, part, rv: RVal):
        """new whole value of an object of type ty after writing rv to the designated part"""
        P = self.P
        if not part:
            return convert(P, rv, ty)
        k = part[0]
        if isinstance(ty, ArrTy):
            idx = part[1]
            rest = part[2:]
            out = []
            for i in range(ty.n):
                nv = self.update(cur[i], ty.elem, rest, rv)
                if isinstance(idx, int):
                    out.append(nv if i == idx else cur[i])
                else:
                    out.append(P.ite(idx == i, nv, cur[i]))
            return out
        w = ty.w
        bits = SP._bits(P, cur, ty)
        if k == "bit":
            val = convert(P, rv, BIT)
            i = part[1]
            nb = self._set_bits(bits, i, i, val, w)
        elif k == "slice":
            hi, lo = part[1], part[2]
            val = convert(P, rv, SP.BV(hi - lo + 1))
            nb = self._set_bits(bits, hi, lo, val, w)
        elif k == "elem":
            val = convert(P, rv, BIT)
            idx = part[1]
            nb = bits
            for i in range(w):
                nb = P.ite(idx == i, self._set_bits(bits, i, i, val, w), nb)
        else:
            raise RUnsupported("part")
        return P.wrap(nb, w, ty.signed)

    def _set_bits(self, bits, hi, lo, val, w):
        P = self.P
        mask = ((1 << (hi - lo + 1)) - 1) << lo
        keep = ((1 << w) - 1) & ~mask
        return P.bor(P.band(bits, P.const(keep)), P.shl(P.band(val if not isinstance(val, int) else P.const(val), P.const((1 << (hi - lo + 1)) - 1)), lo))

    def assign(self, ref: Ref, rv: RVal, mode):
        o = self.objs[ref.name]
        if mode in ("next", "push"):
            if o.kind == "var":
                raise RUnsupported("signal assignment to variable")
            if o.kind == "in":
                raise RUnsupported("assignment to input")
            cur = self.pending.get(ref.name, self.sig[ref.name] if ref.name not in self.local_now else self.local_now[ref.name])
            self.pending[ref.name] = self.update(cur, o.ty, ref.part, rv)
            if mode == "push":
                self.pushed.add(ref.name)
        else:
            if o.kind != "var":
                raise RUnsupported("value assignment to signal")
            if o.ty.kind == "bool" and not ref.part:
                t = self.truth(rv)
                self.var[ref.name] = (1 if t else 0) if isinstance(t, bool) else self.P.b2i(t)
                return
            self.var[ref.name] = self.update(self.var[ref.name], o.ty, ref.part, rv)

    # -- names
    def lookup(self, name):
        for fr in reversed(self.frames[-1:]):
            if name in fr:
                v = fr[name]
                if v is _UNBOUND:
                    raise UseBeforeDef(name)
                return v
        if name in self.frames[0] and len(self.frames) > 1 and False:
            return self.frames[0][name]
        if name in self.objs:
            return Ref(name)
        if name in self.prog.fns:
            return self.prog.fns[name]
        if name in ("Null", "Full"):
            return RVal(Ty("fill"), 0 if name == "Null" else 1)
        if name in ("True", "False"):
            return RVal(BOOL, name == "True")
        raise UseBeforeDef(name)

    # -- expressions
    def truth(self, x):
        rv = self.deref(x)
        if rv.ty.kind == "bool":
            return rv.v
        return rv.v != 0

    def ev(self, e):
        """-> RVal | Ref | python object (list, function def, int ...)"""
        P = self.P
        if isinstance(e, ast.Constant):
            if isinstance(e.value, bool):
                return RVal(BOOL, e.value)
            if isinstance(e.value, int):
                return RVal(INTT, e.value)
            if isinstance(e.value, str):
                return RVal(Ty("str", len(e.value)), int(e.value, 2))
            raise RUnsupported("constant")
        ct = _const_truth(e)
        if ct is not None and not (isinstance(e, ast.Name) and e.id in self.frames[-1]):
            return RVal(BOOL, ct)
        if isinstance(e, ast.Name):
            return self.lookup(e.id)
        if isinstance(e, ast.Attribute):
            if isinstance(e.value, ast.Name) and e.value.id == "self":
                return Ref(e.attr)
            if e.attr in ("unsigned", "signed", "bitvector"):
                base = self.deref(self.ev(e.value))
                tr = SP.UNOPS[e.attr][1](base.ty)
                return RVal(tr, SP.UNOPS[e.attr][2](P, base.v, base.ty, tr))
            raise RUnsupported("attribute " + e.attr)
        if isinstance(e, (ast.List, ast.Tuple)):
            return [self.ev(x) for x in e.elts]
        if isinstance(e, ast.Subscript):
            base = self.ev(e.value)
            sl = e.slice
            if isinstance(base, list):
                i = self.deref(self.ev(sl))
                return base[i.v]
            if isinstance(sl, ast.Slice):
                hi, lo = self.deref(self.ev(sl.lower)).v, self.deref(self.ev(sl.upper)).v
                part = ("slice", hi, lo)
            else:
                iv = self.deref(self.ev(sl))
                bt = self.objs[base.name].ty if isinstance(base, Ref) and not base.part else None
                if iv.ty.kind == "int":
                    part = ("elem", iv.v) if isinstance(bt, ArrTy) else ("bit", iv.v)
                else:
                    part = ("elem", iv.v)  # run-time index: captured now
            if isinstance(base, Ref):
                if base.part and base.part[0] != "elem":
                    raise RUnsupported("nested part of slice")
                return Ref(base.name, base.part + part)
            return self.part_value(base, part)
        if isinstance(e, ast.BinOp):
            name = _BINOP.get(type(e.op))
            if name is None:
                raise RUnsupported("binop")
            a, b = self.deref(self.ev(e.left)), self.deref(self.ev(e.right))
            if a.ty.kind == "int" and b.ty.kind == "int":
                f = {"add": lambda x, y: x + y, "sub": lambda x, y: x - y, "mul": lambda x, y: x * y}.get(name)
                if f is None:
                    raise RUnsupported("int op")
                return RVal(INTT, f(a.v, b.v))
            tmpl, trule, vrule, nz = SP.BINOPS[name]
            tr = trule(a.ty, b.ty)
            if tr is None:
                raise RUnsupported(f"{name} on {a.ty},{b.ty}")
            av = P.const(a.v) if a.ty.kind == "int" and name not in ("shl", "shr") else a.v
            bv = P.const(b.v) if b.ty.kind == "int" and name not in ("shl", "shr") else b.v
            return RVal(tr, vrule(P, av, bv, a.ty, b.ty, tr))
        if isinstance(e, ast.UnaryOp):
            if isinstance(e.op, ast.Not):
                t = self.truth(self.ev(e.operand))
                return RVal(BOOL, (not t) if isinstance(t, bool) else P.lnot(t))
            a = self.deref(self.ev(e.operand))
            name = {ast.Invert: "invert", ast.USub: "neg"}.get(type(e.op))
            if a.ty.kind == "int":
                return RVal(INTT, -a.v if name == "neg" else ~a.v)
            tr = SP.UNOPS[name][1](a.ty)
            return RVal(tr, SP.UNOPS[name][2](P, a.v, a.ty, tr))
        if isinstance(e, ast.Compare):
            res = None
            left = self.deref(self.ev(e.left))
            for op, right in zip(e.ops, e.comparators):
                r = self.deref(self.ev(right))
                name = _CMP.get(type(op))
                if name is None:
                    raise RUnsupported("compare")
                lv, rv_ = left.v, r.v
                lt, rt = left.ty, r.ty
                if rt.kind == "str":
                    rt = lt
                if lt.kind == "str":
                    lt = rt
                c = SP.BINOPS[name][2](P, lv, rv_, lt, rt, BOOL)
                res = c if res is None else _land(P, res, c)
                left = r
            return RVal(BOOL, res)
        if isinstance(e, ast.BoolOp):
            vals = [self.truth(self.ev(v)) for v in e.values]
            res = vals[0]
            for v in vals[1:]:
                res = _land(P, res, v) if isinstance(e.op, ast.And) else _lor(P, res, v)
            return RVal(BOOL, res)
        if isinstance(e, ast.IfExp):
            c = self.truth(self.ev(e.test))
            a, b = self.deref(self.ev(e.body)), self.deref(self.ev(e.orelse))
            if isinstance(c, bool):
                return a if c else b
            if a.ty != b.ty:
                # an int literal merged with a vector takes the vector's type (must be representable)
                if a.ty.kind == "int" and b.ty.kind in ("U", "S") and b.ty.lo() <= a.v <= b.ty.hi():
                    a = RVal(b.ty, a.v)
                elif b.ty.kind == "int" and a.ty.kind in ("U", "S") and a.ty.lo() <= b.v <= a.ty.hi():
                    b = RVal(a.ty, b.v)
                elif a.ty.kind == "fill" and b.ty.kind in ("U", "S", "BV"):
                    # Null / Full merged with a vector: all bits 0 / all bits 1 of that vector type
                    a = RVal(b.ty, 0 if a.v == 0 else (-1 if b.ty.kind == "S" else (1 << b.ty.w) - 1))
                elif b.ty.kind == "fill" and a.ty.kind in ("U", "S", "BV"):
                    b = RVal(a.ty, 0 if b.v == 0 else (-1 if a.ty.kind == "S" else (1 << a.ty.w) - 1))
                else:
                    raise RUnsupported("ifexp merge of different types")
            return RVal(a.ty, P.ite(c, a.v, b.v))
        if isinstance(e, ast.Call):
            return self.call(e)
        raise RUnsupported(f"expression {type(e).__name__}")

    def call(self, e: ast.Call):
        f = e.func
        fname = f.id if isinstance(f, ast.Name) else (f.attr if isinstance(f, ast.Attribute) else None)
        # object construction: Signal[T](init, name=...)
        if isinstance(f, ast.Subscript) and isinstance(f.value, ast.Name) and f.value.id in ("Signal", "Variable", "Temporary"):
            return ("construct", f.value.id, parse_type(f.slice), [self.deref(self.ev(a)) for a in e.args])
        if fname in ("expr", "bool", "always") and len(e.args) == 1:
            r = self.deref(self.ev(e.args[0]))
            return RVal(BOOL, self.truth(r)) if fname == "bool" else r
        if fname == "assign" and len(e.args) in (2, 3):
            # std.assign(target, source, cohdl.AssignMode.NEXT | PUSH | VALUE | AUTO)
            tgt = self.ev(e.args[0])
            if not isinstance(tgt, Ref):
                raise RUnsupported("std.assign target")
            mode = "AUTO"
            if len(e.args) == 3:
                m = e.args[2]
                if not isinstance(m, ast.Attribute):
                    raise RUnsupported("assign mode")
                mode = m.attr
            o = self.objs[tgt.name]
            mode = {"NEXT": "next", "PUSH": "push", "VALUE": "value", "AUTO": "value" if o.kind == "var" else "next"}.get(mode)
            if mode is None:
                raise RUnsupported("assign mode")
            self.assign(tgt, self.deref(self.ev(e.args[1])), mode)
            return RVal(INTT, 0)
        if fname == "range":
            args = [self.deref(self.ev(a)).v for a in e.args]
            return [RVal(INTT, i) for i in range(*args)]
        if fname == "zip":
            lists = [self.ev(a) for a in e.args]
            return [list(t) for t in zip(*lists)]
        if fname == "select_with":
            sel = self.deref(self.ev(e.args[0]))
            d = e.args[1]
            default = None
            for kw in e.keywords:
                if kw.arg == "default":
                    default = self.deref(self.ev(kw.value))
            res = default
            items = list(zip(d.keys, d.values))
            for kx, vx in reversed(items):
                kv = self.deref(self.ev(kx))
                vv = self.deref(self.ev(vx))
                c = sel.v == kv.v
                if res is None:
                    res = vv
                else:
                    if res.ty.kind == "fill":
                        res = RVal(vv.ty, convert(self.P, res, vv.ty))
                    res = RVal(vv.ty, self.P.ite(c, vv.v, res.v))
            return res
        fn = self.lookup(fname) if fname else None
        if isinstance(fn, ast.FunctionDef):
            if self.depth > 6:
                raise RUnsupported("recursion")
            frame = {}
            params = [a.arg for a in fn.args.args]
            vals = [self.ev(a) for a in e.args]
            for p, v in zip(params, vals):
                frame[p] = v
            for kw in e.keywords:
                frame[kw.arg] = self.ev(kw.value)
            defaults = fn.args.defaults
            for p, dflt in zip(params[len(params) - len(defaults):], defaults):
                if p not in frame:
                    frame[p] = self.ev(dflt)
            self.frames.append(frame)
            self.depth += 1
            try:
                self.block(fn.body)
                ret = None
            except _Return as r:
                ret = r.v
            finally:
                self.frames.pop()
                self.depth -= 1
            return ret
        raise RUnsupported("call " + str(fname))

    # -- statements
    def block(self, stmts):
        for s in stmts:
            self.stmt(s)

    def bind(self, name, value):
        self.frames[-1][name] = value

    def stmt(self, s):
        P = self.P
        if isinstance(s, (ast.Pass, ast.Nonlocal, ast.Global)):
            return
        if isinstance(s, ast.Expr):
            if isinstance(s.value, ast.Constant):
                return
            self.ev(s.value)
            return
        if isinstance(s, ast.AugAssign):
            mode = {ast.LShift: "next", ast.MatMult: "value", ast.BitXor: "push"}.get(type(s.op))
            if mode is None:
                raise RUnsupported("augassign")
            tgt = self.ev(s.target)
            if not isinstance(tgt, Ref):
                raise RUnsupported("assignment target is not an object")
            self.assign(tgt, self.deref(self.ev(s.value)), mode)
            return
        if isinstance(s, ast.Assign):
            if len(s.targets) != 1:
                raise RUnsupported("multi assign")
            t = s.targets[0]
            if isinstance(t, ast.Attribute) and t.attr in ("next", "value", "push"):
                tgt = self.ev(t.value)
                self.assign(tgt, self.deref(self.ev(s.value)), t.attr)
                return
            if isinstance(t, ast.Name):
                v = self.ev(s.value)
                if isinstance(v, tuple) and v and v[0] == "construct":
                    _, q, ty, args = v
                    o = self.objs.get(t.id)
                    if o is None or not o.local:
                        raise RUnsupported("local object not declared to R: " + t.id)
                    if args:
                        val = convert(P, args[0], o.ty)
                        if o.kind == "var":
                            self.var[t.id] = val
                        else:
                            self.local_now[t.id] = val
                            self.pending[t.id] = val
                    else:
                        raise RUnsupported("local object without initial value")
                    self.bind(t.id, Ref(t.id))
                    return
                self.bind(t.id, v)
                return
            if isinstance(t, ast.Tuple):
                v = self.ev(s.value)
                for tn, vv in zip(t.elts, v):
                    self.bind(tn.id, vv)
                return
            raise RUnsupported("assign target")
        if isinstance(s, ast.If):
            c = self.truth(self.ev(s.test))
            if self.ctx.decide(c):
                self.block(s.body)
            else:
                self.block(s.orelse)
            return
        if isinstance(s, ast.Match):
            subj = self.deref(self.ev(s.subject))
            for case in s.cases:
                pat = case.pattern
                # Python semantics: the first case whose pattern matches AND whose guard (if any) is true is taken
                def guard_ok():
                    return case.guard is None or self.ctx.decide(self.truth(self.ev(case.guard)))

                if isinstance(pat, ast.MatchAs) and pat.pattern is None:
                    if guard_ok():
                        self.block(case.body)
                        return
                    continue
                if isinstance(pat, ast.MatchValue):
                    pv = self.deref(self.ev(pat.value))
                    c = SP._bits(P, subj.v, subj.ty) == (pv.v if pv.ty.kind in ("str", "int") else SP._bits(P, pv.v, pv.ty)) \
                        if pv.ty.kind == "str" else (subj.v == pv.v)
                    if self.ctx.decide(c) and guard_ok():
                        self.block(case.body)
                        return
                    continue
                raise RUnsupported("match pattern")
            return
        if isinstance(s, ast.For):
            it = self.ev(s.iter)
            if not isinstance(it, list):
                raise RUnsupported("for over non-list")
            broke = False
            for item in it:
                if isinstance(s.target, ast.Name):
                    self.bind(s.target.id, item)
                elif isinstance(s.target, ast.Tuple):
                    for tn, vv in zip(s.target.elts, item):
                        self.bind(tn.id, vv)
                else:
                    raise RUnsupported("for target")
                try:
                    self.block(s.body)
                except _Break:
                    broke = True
                    break
                except _Continue:
                    continue
            if not broke:
                self.block(s.orelse)
            return
        if isinstance(s, ast.Break):
            raise _Break()
        if isinstance(s, ast.Continue):
            raise _Continue()
        if isinstance(s, ast.Return):
            raise _Return(self.ev(s.value) if s.value is not None else None)
        raise RUnsupported(f"statement {type(s).__name__}")


_UNBOUND = object()
