"""Value domain with concrete folding.

A bit-vector payload is either a Python int (already reduced modulo 2**w, i.e. the unsigned
representation) or a z3 BitVecRef of sort BitVec(w).  A boolean payload is a Python bool or a
z3 BoolRef.  Every operation folds when all operands are concrete, so running the interpreter
on concrete inputs *is* the replay domain (Python integer arithmetic), and running it on z3
constants is the symbolic domain.  Both go through the same interpreter code.
"""
from __future__ import annotations
import z3

_simpl = z3.simplify


def mask(w):
    return (1 << w) - 1


def is_c(x):
    return isinstance(x, (int, bool)) and not isinstance(x, z3.ExprRef)


def to_signed_int(x, w):
    x &= mask(w)
    return x - (1 << w) if w > 0 and (x >> (w - 1)) & 1 else x


def bvv(x, w):
    """payload -> z3 term"""
    if isinstance(x, z3.ExprRef):
        return x
    return z3.BitVecVal(x & mask(w), w)


def boolv(x):
    if isinstance(x, z3.ExprRef):
        return x
    return z3.BoolVal(bool(x))


def _norm(t, w):
    """fold z3 numerals back to python ints (keeps the DAG small)"""
    if z3.is_bv_value(t):
        return t.as_long()
    return t


def _normb(t):
    if z3.is_true(t):
        return True
    if z3.is_false(t):
        return False
    return t


# ----------------------------------------------------------------- booleans
def b_not(a):
    if is_c(a):
        return not a
    return _normb(z3.Not(a))


def b_and(a, b):
    if is_c(a):
        return b if a else False
    if is_c(b):
        return a if b else False
    return z3.And(a, b)


def b_or(a, b):
    if is_c(a):
        return True if a else b
    if is_c(b):
        return True if b else a
    return z3.Or(a, b)


def b_xor(a, b):
    if is_c(a) and is_c(b):
        return bool(a) != bool(b)
    if is_c(a):
        return b_not(b) if a else b
    if is_c(b):
        return b_not(a) if b else a
    return z3.Xor(a, b)


def b_eq(a, b):
    return b_not(b_xor(a, b))


def b_ite(c, a, b):
    if is_c(c):
        return a if c else b
    if is_c(a) and is_c(b):
        if a == b:
            return a
        return c if a else b_not(c)
    if a is b:
        return a
    return z3.If(c, boolv(a), boolv(b))


def b_implies(a, b):
    return b_or(b_not(a), b)


# --------------------------------------------------------------- bit-vectors
def v_ite(c, a, b, w):
    if is_c(c):
        return a if c else b
    if is_c(a) and is_c(b) and a == b:
        return a
    if a is b:
        return a
    if (not is_c(a)) and (not is_c(b)) and a.eq(b):
        return a
    return z3.If(c, bvv(a, w), bvv(b, w))


def v_eq(a, b, w):
    if is_c(a) and is_c(b):
        return (a & mask(w)) == (b & mask(w))
    if (not is_c(a)) and (not is_c(b)) and a.eq(b):
        return True
    return bvv(a, w) == bvv(b, w)


def _bin(fc, fz):
    def f(a, b, w):
        if is_c(a) and is_c(b):
            return fc(a, b, w) & mask(w)
        return fz(bvv(a, w), bvv(b, w))

    return f


v_add = _bin(lambda a, b, w: a + b, lambda a, b: a + b)
v_sub = _bin(lambda a, b, w: a - b, lambda a, b: a - b)
v_mul = _bin(lambda a, b, w: a * b, lambda a, b: a * b)
v_and = _bin(lambda a, b, w: a & b, lambda a, b: a & b)
v_or = _bin(lambda a, b, w: a | b, lambda a, b: a | b)
v_xor = _bin(lambda a, b, w: a ^ b, lambda a, b: a ^ b)


def v_not(a, w):
    if is_c(a):
        return (~a) & mask(w)
    return ~a


def v_neg(a, w):
    if is_c(a):
        return (-a) & mask(w)
    return -a


def _tdiv(a, b):
    q = abs(a) // abs(b)
    return q if (a < 0) == (b < 0) else -q


def v_udiv(a, b, w):
    """caller guarantees / assumes b != 0"""
    if is_c(a) and is_c(b):
        return (a // b) & mask(w) if b != 0 else mask(w)
    return z3.UDiv(bvv(a, w), bvv(b, w))


def v_urem(a, b, w):
    if is_c(a) and is_c(b):
        return (a % b) & mask(w) if b != 0 else a
    return z3.URem(bvv(a, w), bvv(b, w))


def v_sdiv(a, b, w):
    if is_c(a) and is_c(b):
        sa, sb = to_signed_int(a, w), to_signed_int(b, w)
        if sb == 0:
            return mask(w) if sa >= 0 else 1
        return _tdiv(sa, sb) & mask(w)
    return bvv(a, w) / bvv(b, w)


def v_srem(a, b, w):
    if is_c(a) and is_c(b):
        sa, sb = to_signed_int(a, w), to_signed_int(b, w)
        if sb == 0:
            return a
        return (sa - sb * _tdiv(sa, sb)) & mask(w)
    return z3.SRem(bvv(a, w), bvv(b, w))


def v_smod(a, b, w):
    if is_c(a) and is_c(b):
        sa, sb = to_signed_int(a, w), to_signed_int(b, w)
        if sb == 0:
            return a
        return (sa % sb) & mask(w)
    return bvv(a, w) % bvv(b, w)


def v_ult(a, b, w):
    if is_c(a) and is_c(b):
        return a < b
    return z3.ULT(bvv(a, w), bvv(b, w))


def v_ule(a, b, w):
    if is_c(a) and is_c(b):
        return a <= b
    return z3.ULE(bvv(a, w), bvv(b, w))


def v_slt(a, b, w):
    if is_c(a) and is_c(b):
        return to_signed_int(a, w) < to_signed_int(b, w)
    return bvv(a, w) < bvv(b, w)


def v_sle(a, b, w):
    if is_c(a) and is_c(b):
        return to_signed_int(a, w) <= to_signed_int(b, w)
    return bvv(a, w) <= bvv(b, w)


def v_extract(a, hi, lo, w):
    """bits hi..lo (positions, 0 = LSB) of a w-bit payload"""
    assert 0 <= lo <= hi < w, (hi, lo, w)
    if is_c(a):
        return (a >> lo) & mask(hi - lo + 1)
    if hi == w - 1 and lo == 0:
        return a
    return _norm(_simpl(z3.Extract(hi, lo, a)), hi - lo + 1)


def v_concat(a, wa, b, wb):
    """a supplies the most significant bits"""
    if wa == 0:
        return b
    if wb == 0:
        return a
    if is_c(a) and is_c(b):
        return ((a & mask(wa)) << wb) | (b & mask(wb))
    return z3.Concat(bvv(a, wa), bvv(b, wb))


def v_zext(a, w, nw):
    if nw == w:
        return a
    if nw < w:
        return v_extract(a, nw - 1, 0, w)
    if is_c(a):
        return a & mask(w)
    return z3.ZeroExt(nw - w, a)


def v_sext(a, w, nw):
    if nw == w:
        return a
    assert nw > w
    if is_c(a):
        return to_signed_int(a, w) & mask(nw)
    return z3.SignExt(nw - w, a)


def v_shl(a, n, w):
    """n: payload of the same width w (already saturated by caller if needed)"""
    if is_c(a) and is_c(n):
        return (a << n) & mask(w) if n < w else 0
    return bvv(a, w) << bvv(n, w)


def v_lshr(a, n, w):
    if is_c(a) and is_c(n):
        return (a >> n) if n < w else 0
    return z3.LShR(bvv(a, w), bvv(n, w))


def v_ashr(a, n, w):
    if is_c(a) and is_c(n):
        s = to_signed_int(a, w)
        return (s >> min(n, w)) & mask(w)
    return bvv(a, w) >> bvv(n, w)


def v_set_slice(a, hi, lo, val, w):
    """replace positions hi..lo of a by val"""
    parts = []
    if hi < w - 1:
        parts.append((v_extract(a, w - 1, hi + 1, w), w - 1 - hi))
    parts.append((val, hi - lo + 1))
    if lo > 0:
        parts.append((v_extract(a, lo - 1, 0, w), lo))
    r, rw = parts[0]
    for p, pw in parts[1:]:
        r = v_concat(r, rw, p, pw)
        rw += pw
    return r


def bool_to_bit(c):
    if is_c(c):
        return 1 if c else 0
    return z3.If(c, z3.BitVecVal(1, 1), z3.BitVecVal(0, 1))


def bit_to_bool(a):
    if is_c(a):
        return bool(a & 1)
    return a == z3.BitVecVal(1, 1)


def simplify(x):
    if is_c(x):
        return x
    r = _simpl(x)
    if z3.is_bv_value(r):
        return r.as_long()
    if z3.is_true(r):
        return True
    if z3.is_false(r):
        return False
    return r
