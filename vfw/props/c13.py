"""C13 -- parametrised types are canonical and form the documented subtype lattice; views alias.
E-PY: CrossHair executes the real metaclass __getitem__ machinery (type caches reset to their
import-time state on every path, so classes are created lazily in the order the path chooses) and
the view / slice accessors with symbolic widths, kinds, creation order, view choices and contents.
Only 'Confirmed over all paths' counts."""
from __future__ import annotations
import itertools
import re

from ..core import Reporter, Workdir
from .. import chrun
from ..cells import Cell, run_cells
from ..spec import Ty, U, S, BV, BIT
from .. import spec as SP
from . import c13_epy as H

PRELUDE = "from vfw.props import c13_epy as H\n"


def functions(tier):
    fs = []  # (name, source, native replay lambda taking parsed positional ints)
    for k1, k2 in itertools.product(range(3), range(3)):
        n = f"c13_canon_{k1}_{k2}"
        fs.append((n, f'''def {n}(n: int, m: int, order: int) -> bool:
    """
    pre: 1 <= n <= 8 and 1 <= m <= 8 and 0 <= order <= 1
    post: _
    """
    return H.canonical_ok({k1}, n, {k2}, m, order)
''', lambda a, k1=k1, k2=k2: (H.canonical_ok(k1, a[0], k2, a[1], a[2]), f"canonical kinds ({k1},{k2}) widths {a[0]},{a[1]} order {a[2]}")))
    for q1, q2, k1 in itertools.product(range(3), range(3), range(3)):
        n = f"c13_qual_{q1}_{q2}_{k1}"
        fs.append((n, f'''def {n}(n: int, k2: int, m: int, order: int) -> bool:
    """
    pre: 1 <= n <= 6 and 0 <= k2 <= 2 and 1 <= m <= 6 and 0 <= order <= 1
    post: _
    """
    return H.qualified_ok({q1}, {k1}, n, {q2}, k2, m, order)
''', lambda a, q1=q1, q2=q2, k1=k1: (H.qualified_ok(q1, k1, a[0], q2, a[1], a[2], a[3]), f"qualified ({q1},{k1},{a[0]}) vs ({q2},{a[1]},{a[2]}) order {a[3]}")))
    for k in range(3):
        n = f"c13_port_{k}"
        fs.append((n, f'''def {n}(n: int, d: int, order: int) -> bool:
    """
    pre: 1 <= n <= 6 and 0 <= d <= 1 and 0 <= order <= 1
    post: _
    """
    return H.port_ok({k}, n, d, order)
''', lambda a, k=k: (H.port_ok(k, a[0], a[1], a[2]), f"port kind {k} width {a[0]} dir {a[1]} order {a[2]}")))
    for k1, k2 in itertools.product(range(3), range(3)):
        n = f"c13_array_{k1}_{k2}"
        fs.append((n, f'''def {n}(n: int, c1: int, m: int, c2: int) -> bool:
    """
    pre: 1 <= n <= 4 and 1 <= c1 <= 4 and 1 <= m <= 4 and 1 <= c2 <= 4
    post: _
    """
    return H.array_ok({k1}, n, c1, {k2}, m, c2)
''', lambda a, k1=k1, k2=k2: (H.array_ok(k1, a[0], a[1], k2, a[2], a[3]), f"array ({k1},{a[0]},{a[1]}) vs ({k2},{a[2]},{a[3]})")))
    for fam, k1 in itertools.product(range(3), range(3)):
        n = f"c13_respec_{fam}_{k1}"
        fs.append((n, f'''def {n}(n: int, k2: int, m: int, order: int) -> bool:
    """
    pre: 1 <= n <= {3 if tier == "quick" else 4} and 0 <= k2 <= 2 and 1 <= m <= {3 if tier == "quick" else 4} and 0 <= order <= 1
    post: _
    """
    return H.respec_ok({fam}, {k1}, n, k2, m, order)
''', lambda a, fam=fam, k1=k1: (H.respec_ok(fam, k1, a[0], a[1], a[2], a[3]), f"re-specialised class family {fam} kind {k1} width {a[0]} -> kind {a[1]} width {a[2]} (order {a[3]})")))
    for k, Wv in itertools.product(range(3), (1, 3) if tier == "quick" else (1, 3, 4)):
        n = f"c13_oobslice_{k}_{Wv}"
        fs.append((n, f'''def {n}(hi: int, lo: int, q: int) -> bool:
    """
    pre: -3 <= hi <= {Wv + 2} and -3 <= lo <= {Wv + 2} and 0 <= q <= 2
    post: _
    """
    return H.oob_slice_ok({Wv}, {k}, hi, lo, q)
''', lambda a, k=k, Wv=Wv: (H.oob_slice_ok(Wv, k, a[0], a[1], a[2]), f"slice [{a[0]}:{a[1]}] of a {Wv} bit object of kind {k} (qualifier {a[2]})")))
        n = f"c13_oobindex_{k}_{Wv}"
        fs.append((n, f'''def {n}(i: int, q: int) -> bool:
    """
    pre: {-Wv - 2} <= i <= {Wv + 2} and 0 <= q <= 2
    post: _
    """
    return H.oob_index_ok({Wv}, {k}, i, q)
''', lambda a, k=k, Wv=Wv: (H.oob_index_ok(Wv, k, a[0], a[1]), f"index {a[0]} of a {Wv} bit object of kind {k} (qualifier {a[1]})")))
    W = 2 if tier == "quick" else 3
    top = (1 << W) - 1
    for k, wv in itertools.product(range(3), range(5)):
        n = f"c13_view_{k}_{wv}"
        fs.append((n, f'''def {n}(val: int, wsel: int, hi: int, lo: int, newbits: int, q: int) -> bool:
    """
    pre: 0 <= val <= {top} and 0 <= wsel <= 4 and 0 <= lo <= hi <= {W - 1} and 0 <= newbits <= {top} and 0 <= q <= 1
    post: _
    """
    return H.views_ok({W}, {k}, val, {wv}, wsel, hi, lo, newbits, q)
''', lambda a, k=k, wv=wv, W=W: (H.views_ok(W, k, a[0], wv, a[1], a[2], a[3], a[4], a[5]), f"views kind {k} write-view {wv} read-view {a[1]} slice [{a[2]}:{a[3]}] value {a[0]} new {a[4]} qualifier {a[5]}")))
    for k, how in itertools.product(range(3), range(4)):
        n = f"c13_arraycopy_{k}_{how}"
        fs.append((n, f'''def {n}(n: int, c: int, val: int, idx: int, newv: int) -> bool:
    """
    pre: 1 <= n <= 3 and 1 <= c <= 3 and 0 <= val <= 7 and 0 <= idx <= 2 and 0 <= newv <= 7
    post: _
    """
    return H.array_copy_ok({k}, n, c, val, idx, newv, {how})
''', lambda a, k=k, how=how: (H.array_copy_ok(k, a[0], a[1], a[2], a[3], a[4], how), f"array copy kind {k} how {how} width {a[0]} count {a[1]} value {a[2]} index {a[3]} new {a[4]}")))
    for k, path in itertools.product(range(3), range(8)):
        n = f"c13_valueview_{k}_{path}"
        fs.append((n, f'''def {n}(val: int, hi: int, lo: int, newbits: int) -> bool:
    """
    pre: 0 <= val <= {top} and 0 <= lo <= hi <= {W - 1} and 0 <= newbits <= {top}
    post: _
    """
    return H.value_views_ok({W}, {k}, val, hi, lo, newbits, {path})
''', lambda a, k=k, path=path, W=W: (H.value_views_ok(W, k, a[0], a[1], a[2], a[3], path), f"value views kind {k} path {path} slice [{a[1]}:{a[2]}] value {a[0]} new {a[3]}")))
    return fs


# ---------------------------------------------------------------- emitted text: views of views name the same bits
RW = 10
CHAINS = [
    [(9, 2)], [(7, 0)], [(8, 3)],
    [(9, 2), (6, 1)], [(9, 2), (7, 0)], [(8, 1), (4, 2)], [(7, 0), (7, 4)],
    [(9, 2), (6, 1), (4, 1)], [(9, 1), (8, 2), (5, 3)], [(8, 0), (8, 1), (7, 2)], [(9, 2), (7, 1), (6, 1)],
]
VIEWS = {"bitvector": "BV", "unsigned": "U", "signed": "S"}


def _abs(chain):
    lo, w = 0, RW
    for hi_r, lo_r in chain:
        assert hi_r < w
        lo, w = lo + lo_r, hi_r - lo_r + 1
    return lo, w


def _chain_src(chain, mid_view=None):
    """slices; an optional view is inserted after the first slice (views of views of views)"""
    parts = [f"[{h}:{l}]" for h, l in chain]
    if mid_view is not None:
        parts.insert(1, f".{mid_view}")
    return "".join(parts)


def _set(P, bits, lo, w, val, W):
    mask = ((1 << w) - 1) << lo
    keep = ((1 << W) - 1) & ~mask
    return P.bor(P.band(bits, P.const(keep)), P.shl(P.band(val, P.const((1 << w) - 1)), lo))


def view_cells():
    rd, wr, wr2 = [], [], []
    for rk in ("BV", "U", "S"):
        root = Ty(rk, RW)
        for ci, chain in enumerate(CHAINS):
            lo, w = _abs(chain)
            for vi, (vname, vk) in enumerate(VIEWS.items()):
                mid = [None, "bitvector", "unsigned", "signed"][(ci + vi) % 4] if len(chain) > 1 else None
                src = _chain_src(chain, mid)
                vt = Ty(vk, w)
                key = f"{rk}{src}.{vname}"
                rd.append(Cell(f"view-read|{key}", [("a", root)], vt, f"{{o}} <<= {{a}}{src}.{vname}",
                               lambda P, a, root=root, lo=lo, w=w, vt=vt: SP._from_bits(P, P.wrap(P.shr(SP._bits(P, a, root), lo), w, False), vt)))
                wr.append(Cell(f"view-write|{key}", [("z", root), ("v", vt)], root, f"{{o}} <<= {{z}}\n{{o}}{src}.{vname} <<= {{v}}",
                               lambda P, z, v, root=root, lo=lo, w=w, vt=vt: SP._from_bits(P, _set(P, SP._bits(P, z, root), lo, w, SP._bits(P, v, vt), RW), root)))
            src = _chain_src(chain)
            # element of a view, iteration over a view (reads and writes)
            for i in sorted({0, w - 1, w // 2}):
                rd.append(Cell(f"view-index|{rk}{src}[{i}]", [("a", root)], BIT, f"{{o}} <<= {{a}}{src}[{i}]",
                               lambda P, a, root=root, p=lo + i: P.wrap(P.shr(SP._bits(P, a, root), p), 1, False)))
            rd.append(Cell(f"view-iterate|{rk}{src}", [("a", root)], BV(w), f"for c13i, c13b in enumerate({{a}}{src}):\n    {{o}}[c13i] <<= c13b",
                           lambda P, a, root=root, lo=lo, w=w: P.wrap(P.shr(SP._bits(P, a, root), lo), w, False)))
            wr.append(Cell(f"view-iterate-write|{rk}{src}", [("z", root), ("v", BV(w))], root, f"{{o}} <<= {{z}}\nfor c13i, c13b in enumerate({{o}}{src}):\n    c13b <<= {{v}}[c13i]",
                           lambda P, z, v, root=root, lo=lo, w=w: SP._from_bits(P, _set(P, SP._bits(P, z, root), lo, w, v, RW), root)))
    # accessor methods of qualified objects: left/msb = upper bits, right/lsb = lower bits, by count or by rest
    for rk in ("BV", "U", "S"):
        root = Ty(rk, 8)
        for meth, upper in (("left", True), ("msb", True), ("right", False), ("lsb", False)):
            for form, cnt in (("{m}(3)", 3), ("{m}(count=5)", 5), ("{m}(rest=3)", 5), ("{m}(rest=6)", 2), ("{m}(2, 6)", 2), ("{m}()", 1)):
                call = form.format(m=meth)
                lo = 8 - cnt if upper else 0
                if form == "{m}()":
                    rd.append(Cell(f"view-accessor|{rk}.{call}", [("a", root)], BIT, f"{{o}} <<= {{a}}.{call}",
                                   lambda P, a, root=root, lo=lo: P.wrap(P.shr(SP._bits(P, a, root), lo), 1, False)))
                    continue
                rd.append(Cell(f"view-accessor|{rk}.{call}", [("a", root)], BV(cnt), f"{{o}} <<= {{a}}.{call}.bitvector",
                               lambda P, a, root=root, lo=lo, cnt=cnt: P.wrap(P.shr(SP._bits(P, a, root), lo), cnt, False)))
                wr.append(Cell(f"view-accessor-write|{rk}.{call}", [("z", root), ("v", BV(cnt))], root, f"{{o}} <<= {{z}}\n{{o}}.{call}.bitvector <<= {{v}}",
                               lambda P, z, v, root=root, lo=lo, cnt=cnt: SP._from_bits(P, _set(P, SP._bits(P, z, root), lo, cnt, v, 8), root)))
    # std.Ref[T](x): the T-typed view of x (same bits), usable wherever a T is expected
    for rk in ("U", "S", "BV"):
        root = Ty(rk, 6)
        for tk, tname in (("BV", "BitVector"), ("U", "Unsigned"), ("S", "Signed")):
            tt = Ty(tk, 6)
            if tk == "BV":
                rd.append(Cell(f"ref-view|{rk}->BitVector|or", [("a", root), ("b", BV(6))], BV(6), "{o} <<= std.Ref[BitVector[6]]({a}) | {b}",
                               lambda P, a, b, root=root: P.bor(SP._bits(P, a, root), b)))
            else:
                rd.append(Cell(f"ref-view|{rk}->{tname}|add", [("a", root)], tt, f"{{o}} <<= std.Ref[{tname}[6]]({{a}}) + 1",
                               lambda P, a, root=root, tt=tt: SP._from_bits(P, P.wrap(SP._bits(P, a, root) + 1, 6, False), tt)))
            wr.append(Cell(f"ref-view-write|{rk}->{tname}", [("z", root), ("v", tt)], root, f"{{o}} <<= {{z}}\nstd.Ref[{tname}[6]]({{o}})[4:1] <<= {{v}}[3:0]",
                           lambda P, z, v, root=root, tt=tt: SP._from_bits(P, _set(P, SP._bits(P, z, root), 1, 4, P.wrap(SP._bits(P, v, tt), 4, False), 6), root)))
    # elements of an array signal are views too: slices, typed views and iteration over mem[i] keep the array index
    for rk, tname in (("BV", "BitVector"), ("U", "Unsigned")):
        et = Ty(rk, 4)
        local = f"c13m{{cellno}} = Signal[Array[{tname}[4], 2]](name='c13m{{cellno}}')"
        fill = "c13m{cellno}[0] <<= {a}\nc13m{cellno}[1] <<= {b}\n"
        ins = [("a", et), ("b", et)]
        rd.append(Cell(f"array-elem-iterate|{rk}", ins, BV(4), fill + "for c13i, c13b in enumerate(c13m{cellno}[1]):\n    {o}[c13i] <<= c13b", lambda P, a, b, et=et: SP._bits(P, b, et), local=local))
        rd.append(Cell(f"array-elem-slice|{rk}", ins, BV(2), fill + "{o} <<= c13m{cellno}[1][2:1]", lambda P, a, b, et=et: P.wrap(P.shr(SP._bits(P, b, et), 1), 2, False), local=local))
        rd.append(Cell(f"array-elem-view|{rk}", ins, S(4), fill + "{o} <<= c13m{cellno}[0].signed", lambda P, a, b, et=et: P.wrap(SP._bits(P, a, et), 4, True), local=local))
        # two clocks: the element bits are registered by the first edge, the output copies the element at the second
        wr2.append(Cell(f"array-elem-iterate-write|{rk}", [("z", et), ("v", BV(4))], et,
                        "c13m{cellno}[0] <<= {z}\nfor c13i, c13b in enumerate(c13m{cellno}[1]):\n    c13b <<= {v}[c13i]\n{o} <<= c13m{cellno}[1]",
                        lambda P, z, v, et=et: SP._from_bits(P, v, et), local=local))
    return rd, wr, wr2


def run_view_cells(rep, counts):
    wd = Workdir()
    try:
        rd, wr, wr2 = view_cells()
        for ctx, cs in (("concurrent", rd), ("clocked", wr), ("clocked2", wr2)):
            for k in range(0, len(cs), 30):
                for res in run_cells(rep, wd, cs[k:k + 30], ctx):
                    counts[res.status] = counts.get(res.status, 0) + 1
                    key = res.cell.key
                    if res.status == "ok":
                        rep.stats.nontrivial.add(key)
                    elif res.status == "mismatch":
                        rep.violation(f"{key.split('|')[0]}|depth{key.count('[')}|{key.split('|')[1][:2].rstrip('[')}", f"{key}: the emitted text does not name the bits of the view: {res.detail['inputs_math']} -> {res.detail['got_bits']}, expected {res.detail['want_bits']}", res.detail)
                    elif res.status == "illegal":
                        rep.violation(f"illegal|{key}", f"{key}: emitted VHDL illegal: {res.detail['msg']}", res.detail)
                    elif res.status == "rejected":
                        # every view expression of the bank is well typed (all 500+ compile on the unmodified tree): a rejection
                        # means the view lost its root / type / qualifier on the way
                        counts["rejected-keys"] = counts.get("rejected-keys", []) + [key]
                        vk = key.split("|")[1]
                        last = vk.rsplit(".", 1)[-1] if "." in vk else "plain"
                        rep.violation(f"view-rejected|{key.split('|')[0]}|{last.split('(')[0].split('[')[0]}", f"{key}: well-typed view expression rejected: {str(res.detail)[:160]}", {"detail": str(res.detail), "body": res.cell.body})
                    elif res.status != "vacuous":
                        rep.inconclusive_query(f"{key}: {res.detail}")
        return len(rd) + len(wr) + len(wr2)
    finally:
        wd.close()


def run(tier: str) -> int:
    rep = Reporter("C13", tier, "other")
    fs = functions(tier)
    replay = {f[0]: f[2] for f in fs}
    res, cpu = chrun.run_functions([(f[0], f[1]) for f in fs], PRELUDE, per_cond=600 if tier == "quick" else 1800, chunk=2)
    confirmed = 0
    for fn, (status, msg) in sorted(res.items()):
        rep.stats.queries += 1
        if status == "confirmed":
            confirmed += 1
            rep.stats.unsat += 1
            rep.stats.nontrivial.add(fn)
        elif status == "counterexample":
            rep.stats.sat += 1
            m = re.search(r"calling \w+\(([^)]*)\)", msg)
            vals = [int(x.split("=")[-1]) for x in m.group(1).split(",")] if m else None
            if vals is None:
                rep.inconclusive_query(f"{fn}: {msg[:150]}")
                continue
            try:
                ok, desc = replay[fn](vals)
            except Exception as e:
                ok, desc = False, f"{fn}{tuple(vals)} raised {type(e).__name__}: {e}"
            if ok:
                rep.inconclusive_query(f"{fn}: counterexample {vals} does not reproduce natively")
            else:
                rep.violation(f"{fn.split('_')[1]}|{fn}", f"type lattice / aliasing property violated: {desc}", {"function": fn, "args": vals, "crosshair": msg})
        else:
            rep.stats.unknown += 1
            rep.inconclusive_query(f"{fn}: {msg[:150]}")
    vcounts = {}
    ncells = run_view_cells(rep, vcounts)
    rej = vcounts.pop("rejected-keys", [])
    if len(rej) > ncells // 4:
        rep.inconclusive_query(f"{len(rej)} of {ncells} view cells rejected by the compiler, e.g. {rej[:3]}")
    rep.stats.units |= {"cohdl._core._bit_vector._BitVector.__getitem__", "cohdl._core._type_qualifier._TypeQualifier.__getitem__", "cohdl._core._array._MetaArray.__getitem__",
                        "TypeQualifier.__getitem__ / unsigned / signed / bitvector views", "cohdl.utility.span"}
    rep.assumptions += ["widths 1..8 (vectors), 1..6 (qualified), arrays up to 4x4; both orders of first use with caches reset to the import-time snapshot on every path",
                        "views: object width %d, every contents / written slice / written bits / read view / qualifier in {Signal, Variable}" % (2 if tier == "quick" else 3)]
    rep.assumptions += ["emitted text: %d view cells (chains of up to 3 slices with .bitvector/.unsigned/.signed views in between, element access, iteration; reads and writes) on a 10-bit root of each kind, proved for all contents by z3" % ncells]
    return rep.finish({
        "view_cells": ncells, "view_cell_results": vcounts,
        "explanation": f"{len(fs)} CrossHair conditions over the type-construction and view machinery, {confirmed} 'Confirmed over all paths' (cpu {round(cpu)} s); {ncells} view cells through the whole compiler",
        "evaluations": len(fs), "distinct_nontrivial": len(rep.stats.nontrivial), "conditions": len(fs), "confirmed": confirmed,
        "samples": [{"condition": fs[0][0], "source": fs[0][1]}, {"condition": fs[-1][0], "source": fs[-1][1]}],
    })
