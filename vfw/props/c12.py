"""C12 -- instantiating an entity is equivalent to inlining it.
'hier' family: instantiation trees over generated leaf entities (combinational, registered,
counter, coroutine leaves; repeated templates; nested instances; slice / view actuals; instances
created inside a concurrent context).  Every tree is compiled twice: hierarchically and with the
leaf logic (the same Python functions) inlined in the parent.  z3 proves the two emitted designs
produce equal outputs for all input sequences up to K clocks from power-up (combinational trees:
all inputs).  The emitted interface, unit count and unit order are read off the elaborated text."""
from __future__ import annotations
import itertools
import random
import z3

from ..core import Reporter, Workdir, text_hash, check_sat
from .. import dom as D
from .. import vhdl_sim as VS
from ..vhdl_parse import Illegal
from ..vhdl_types import TVec, TStd, eval_model
from ..bmc import compile_design, _install_init
from .. import gen_trees

HEADER = '''from __future__ import annotations
import cohdl
from cohdl import Bit, BitVector, Unsigned, Signed, Port, Signal, Variable, Null, Full, std
import contextlib as _ctxlib
from cohdl._core import _context as _cohdl_context


@_ctxlib.contextmanager
def blk():
    # nested block; std.block wraps the same two functions
    _cohdl_context._enter_block(_cohdl_context.Block("", {}))
    try:
        yield
    finally:
        _cohdl_context._exit_block()


def f_comb(a, b):
    return (a + b) ^ a


def f_mix(a, b):
    return (a & b) + 1


def f_bits(x):
    return x[1] @ x[0]


class LeafComb(cohdl.Entity):
    a = Port.input(Unsigned[3])
    b = Port.input(Unsigned[3])
    o = Port.output(Unsigned[3])

    def architecture(self):
        @std.concurrent
        def logic():
            self.o <<= f_comb(self.a, self.b)


class LeafMix(cohdl.Entity):
    a = Port.input(Unsigned[3])
    b = Port.input(Unsigned[3])
    o = Port.output(Unsigned[3])

    def architecture(self):
        @std.concurrent
        def logic():
            self.o <<= f_mix(self.a, self.b)


class LeafBits(cohdl.Entity):
    x = Port.input(BitVector[2])
    o = Port.output(BitVector[2])

    def architecture(self):
        @std.concurrent
        def logic():
            self.o <<= f_bits(self.x)


class LeafReg(cohdl.Entity):
    clk = Port.input(Bit)
    a = Port.input(Unsigned[3])
    o = Port.output(Unsigned[3], default=Null)

    def architecture(self):
        @std.sequential(std.Clock(self.clk))
        def proc():
            self.o <<= self.a + 1


class LeafCnt(cohdl.Entity):
    clk = Port.input(Bit)
    en = Port.input(Bit)
    o = Port.output(Unsigned[3], default=Null)

    def architecture(self):
        @std.sequential(std.Clock(self.clk))
        def proc():
            if self.en:
                self.o <<= self.o + 1


class LeafCoro(cohdl.Entity):
    clk = Port.input(Bit)
    go = Port.input(Bit)
    a = Port.input(Unsigned[3])
    o = Port.output(Unsigned[3], default=Null)

    def architecture(self):
        @std.sequential(std.Clock(self.clk))
        async def proc():
            await self.go
            self.o <<= self.a
            await cohdl.true
            self.o <<= self.a + self.o


class LeafBase(cohdl.Entity):
    a = Port.input(Unsigned[3])
    o = Port.output(Unsigned[3])

    def architecture(self):
        @std.concurrent
        def logic():
            self.o <<= self.a + 1


class LeafDerivedIn(LeafBase):
    m = Port.input(Unsigned[3])

    def architecture(self):
        @std.concurrent
        def logic():
            self.o <<= (self.a + 1) & self.m


class LeafDerivedOut(LeafBase):
    f = Port.output(Bit)

    def architecture(self):
        @std.concurrent
        def logic():
            self.o <<= self.a + 2
            self.f <<= self.a[0]


class LeafSel(cohdl.Entity):
    a = Port.input(Unsigned[3])
    b = Port.input(Unsigned[3])
    en = Port.input(Bit)
    o = Port.output(Unsigned[3])
    p = Port.output(BitVector[2])

    def architecture(self):
        @std.concurrent
        def logic():
            self.o <<= self.a if self.en else self.b
            self.p <<= self.b[2:1]


class LeafInit(cohdl.Entity):
    clk = Port.input(Bit)
    reset = Port.input(Bit)
    o = Port.output(Unsigned[3], default=5)

    def architecture(self):
        @std.sequential(std.Clock(self.clk), std.Reset(self.reset))
        def proc():
            self.o <<= self.o + 1


class DGate(cohdl.Entity):
    a = Port.input(Unsigned[3])
    o = Port.output(Unsigned[3])

    def architecture(self):
        @std.concurrent
        def logic():
            self.o <<= f_mix(self.a, self.a)


class DCell(cohdl.Entity):
    a = Port.input(Unsigned[3])
    b = Port.input(Unsigned[3])
    o = Port.output(Unsigned[3])

    def architecture(self):
        t = Signal[Unsigned[3]](name="cell_t")
        DGate(a=self.a, o=t)
        LeafComb(a=t, b=self.b, o=self.o)


class DPathA(cohdl.Entity):
    a = Port.input(Unsigned[3])
    b = Port.input(Unsigned[3])
    o = Port.output(Unsigned[3])

    def architecture(self):
        DCell(a=self.a, b=self.b, o=self.o)


class DPathB(cohdl.Entity):
    a = Port.input(Unsigned[3])
    b = Port.input(Unsigned[3])
    o = Port.output(Unsigned[3])

    def architecture(self):
        t = Signal[Unsigned[3]](name="pb_t")
        DCell(a=self.b, b=self.a, o=t)
        DGate(a=t, o=self.o)


def make_same_name(inc):
    class SameName(cohdl.Entity):
        a = Port.input(Unsigned[3])
        o = Port.output(Unsigned[3])

        def architecture(self):
            @std.concurrent
            def logic():
                self.o <<= self.a + inc

    return SameName


SameNameA, SameNameB = make_same_name(1), make_same_name(2)


def make_case_name(inc, unit_name):
    class CaseName(cohdl.Entity, name=unit_name):
        a = Port.input(Unsigned[3])
        o = Port.output(Unsigned[3])

        def architecture(self):
            @std.concurrent
            def logic():
                self.o <<= self.a + inc

    return CaseName


CaseNameA, CaseNameB = make_case_name(1, "Stage"), make_case_name(2, "STAGE")


class Mid(cohdl.Entity):
    clk = Port.input(Bit)
    a = Port.input(Unsigned[3])
    b = Port.input(Unsigned[3])
    o = Port.output(Unsigned[3])

    def architecture(self):
        t = Signal[Unsigned[3]](name="mid_t")
        LeafComb(a=self.a, b=self.b, o=t)
        LeafReg(clk=self.clk, a=t, o=self.o)

'''

PORTS = ["    clk = Port.input(Bit)", "    x = Port.input(Unsigned[3])", "    y = Port.input(Unsigned[3])", "    en = Port.input(Bit)", "    v = Port.input(BitVector[4])",
         "    o1 = Port.output(Unsigned[3])", "    o2 = Port.output(Unsigned[3])", "    ob = Port.output(BitVector[2])"]
DECLARED = [("clk", "in", "std_logic"), ("x", "in", "unsigned(2 downto 0)"), ("y", "in", "unsigned(2 downto 0)"), ("en", "in", "std_logic"), ("v", "in", "std_logic_vector(3 downto 0)"),
            ("o1", "out", "unsigned(2 downto 0)"), ("o2", "out", "unsigned(2 downto 0)"), ("ob", "out", "std_logic_vector(1 downto 0)")]

# each tree: (key, sequential?, hierarchical architecture lines, flat architecture lines, leaf templates used)
TREES = [
    ("comb-single", False,
     ["LeafComb(a=self.x, b=self.y, o=self.o1)", "LeafMix(a=self.y, b=self.x, o=self.o2)", "LeafBits(x=self.v[1:0], o=self.ob)"],
     ["@std.concurrent", "def l():", "    self.o1 <<= f_comb(self.x, self.y)", "    self.o2 <<= f_mix(self.y, self.x)", "    self.ob <<= f_bits(self.v[1:0])"],
     {"LeafComb", "LeafMix", "LeafBits"}),
    ("comb-chain-repeated-template", False,
     ["s1 = Signal[Unsigned[3]](name='s1')", "s2 = Signal[Unsigned[3]](name='s2')", "LeafComb(a=self.x, b=self.y, o=s1)", "LeafComb(a=s1, b=self.x, o=s2)", "LeafComb(a=s2, b=s1, o=self.o1)",
      "LeafMix(a=s1, b=s2, o=self.o2)", "LeafBits(x=self.v[3:2], o=self.ob)"],
     ["@std.concurrent", "def l():", "    s1 = f_comb(self.x, self.y)", "    s2 = f_comb(s1, self.x)", "    self.o1 <<= f_comb(s2, s1)", "    self.o2 <<= f_mix(s1, s2)", "    self.ob <<= f_bits(self.v[3:2])"],
     {"LeafComb", "LeafMix", "LeafBits"}),
    ("view-actuals", False,
     ["sb = Signal[BitVector[3]](name='sb')", "LeafComb(a=self.v[2:0].unsigned, b=self.y, o=self.o1)", "LeafMix(a=self.x, b=self.v[3:1].unsigned, o=self.o2)", "LeafBits(x=self.x[2:1], o=self.ob)"],
     ["@std.concurrent", "def l():", "    self.o1 <<= f_comb(self.v[2:0].unsigned, self.y)", "    self.o2 <<= f_mix(self.x, self.v[3:1].unsigned)", "    self.ob <<= f_bits(self.x[2:1])"],
     {"LeafComb", "LeafMix", "LeafBits"}),
    ("instances-inside-nested-blocks", False,
     ["s1 = Signal[Unsigned[3]](name='s1')", "with blk():", "    LeafComb(a=self.x, b=self.y, o=s1)", "    with blk():", "        LeafMix(a=s1, b=self.x, o=self.o2)", "        with blk():", "            LeafBits(x=self.v[1:0], o=self.ob)",
      "LeafComb(a=s1, b=self.y, o=self.o1)"],
     ["@std.concurrent", "def l():", "    s1 = f_comb(self.x, self.y)", "    self.o1 <<= f_comb(s1, self.y)", "    self.o2 <<= f_mix(s1, self.x)", "    self.ob <<= f_bits(self.v[1:0])"],
     {"LeafComb", "LeafMix", "LeafBits"}),
    ("inside-concurrent-context", False,
     ["@std.concurrent", "def l():", "    LeafComb(a=self.x, b=self.y, o=self.o1)", "    self.o2 <<= self.x - self.y", "    LeafBits(x=self.v[1:0], o=self.ob)"],
     ["@std.concurrent", "def l():", "    self.o1 <<= f_comb(self.x, self.y)", "    self.o2 <<= self.x - self.y", "    self.ob <<= f_bits(self.v[1:0])"],
     {"LeafComb", "LeafBits"}),
    ("registered", True,
     ["LeafReg(clk=self.clk, a=self.x, o=self.o1)", "LeafCnt(clk=self.clk, en=self.en, o=self.o2)", "LeafBits(x=self.v[2:1], o=self.ob)"],
     ["r1 = Signal[Unsigned[3]](Null, name='r1')", "r2 = Signal[Unsigned[3]](Null, name='r2')",
      "@std.sequential(std.Clock(self.clk))", "def p1():", "    r1.next = self.x + 1",
      "@std.sequential(std.Clock(self.clk))", "def p2():", "    if self.en:", "        r2.next = r2 + 1",
      "@std.concurrent", "def l():", "    self.o1 <<= r1", "    self.o2 <<= r2", "    self.ob <<= f_bits(self.v[2:1])"],
     {"LeafReg", "LeafCnt", "LeafBits"}),
    ("pipeline-depth2-repeated", True,
     ["s1 = Signal[Unsigned[3]](name='s1')", "s2 = Signal[Unsigned[3]](name='s2')", "s3 = Signal[Unsigned[3]](name='s3')",
      "LeafReg(clk=self.clk, a=self.x, o=s1)", "LeafComb(a=s1, b=self.y, o=s2)", "LeafReg(clk=self.clk, a=s2, o=s3)", "LeafReg(clk=self.clk, a=s3, o=self.o1)",
      "LeafMix(a=s3, b=s1, o=self.o2)", "LeafBits(x=self.v[1:0], o=self.ob)"],
     ["r1 = Signal[Unsigned[3]](Null, name='r1')", "r2 = Signal[Unsigned[3]](Null, name='r2')", "r3 = Signal[Unsigned[3]](Null, name='r3')",
      "@std.sequential(std.Clock(self.clk))", "def p():", "    r1.next = self.x + 1", "    r2.next = f_comb(r1, self.y) + 1", "    r3.next = r2 + 1",
      "@std.concurrent", "def l():", "    self.o1 <<= r3", "    self.o2 <<= f_mix(r2, r1)", "    self.ob <<= f_bits(self.v[1:0])"],
     {"LeafReg", "LeafComb", "LeafMix", "LeafBits"}),
    ("nested-depth3", True,
     ["s1 = Signal[Unsigned[3]](name='s1')", "Mid(clk=self.clk, a=self.x, b=self.y, o=s1)", "Mid(clk=self.clk, a=s1, b=self.x, o=self.o1)", "LeafComb(a=s1, b=self.y, o=self.o2)", "LeafBits(x=self.v[1:0], o=self.ob)"],
     ["r1 = Signal[Unsigned[3]](Null, name='r1')", "r2 = Signal[Unsigned[3]](Null, name='r2')",
      "@std.sequential(std.Clock(self.clk))", "def p():", "    r1.next = f_comb(self.x, self.y) + 1", "    r2.next = f_comb(r1, self.x) + 1",
      "@std.concurrent", "def l():", "    self.o1 <<= r2", "    self.o2 <<= f_comb(r1, self.y)", "    self.ob <<= f_bits(self.v[1:0])"],
     {"Mid", "LeafComb", "LeafReg", "LeafBits"}),
    ("coroutine-leaf-twice", True,
     ["LeafCoro(clk=self.clk, go=self.en, a=self.x, o=self.o1)", "LeafCoro(clk=self.clk, go=self.v[0], a=self.y, o=self.o2)", "LeafBits(x=self.v[3:2], o=self.ob)"],
     ["r1 = Signal[Unsigned[3]](Null, name='r1')", "r2 = Signal[Unsigned[3]](Null, name='r2')",
      "@std.sequential(std.Clock(self.clk))", "async def p1():", "    await self.en", "    r1.next = self.x", "    await cohdl.true", "    r1.next = self.x + r1",
      "@std.sequential(std.Clock(self.clk))", "async def p2():", "    await self.v[0]", "    r2.next = self.y", "    await cohdl.true", "    r2.next = self.y + r2",
      "@std.concurrent", "def l():", "    self.o1 <<= r1", "    self.o2 <<= r2", "    self.ob <<= f_bits(self.v[3:2])"],
     {"LeafCoro", "LeafBits"}),
    ("diamond-hierarchy", False,
     ["DPathA(a=self.x, b=self.y, o=self.o1)", "DPathB(a=self.x, b=self.y, o=self.o2)", "LeafBits(x=self.v[1:0], o=self.ob)"],
     ["@std.concurrent", "def l():", "    self.o1 <<= f_comb(f_mix(self.x, self.x), self.y)", "    self.o2 <<= f_mix(f_comb(f_mix(self.y, self.y), self.x), f_comb(f_mix(self.y, self.y), self.x))", "    self.ob <<= f_bits(self.v[1:0])"],
     {"DPathA", "DPathB", "DCell", "DGate", "LeafComb", "LeafBits"}),
    ("diamond-hierarchy-other-order", False,
     ["DPathB(a=self.x, b=self.y, o=self.o2)", "DGate(a=self.y, o=self.o1)", "LeafBits(x=self.v[1:0], o=self.ob)"],
     ["@std.concurrent", "def l():", "    self.o1 <<= f_mix(self.y, self.y)", "    self.o2 <<= f_mix(f_comb(f_mix(self.y, self.y), self.x), f_comb(f_mix(self.y, self.y), self.x))", "    self.ob <<= f_bits(self.v[1:0])"],
     {"DPathB", "DCell", "DGate", "LeafComb", "LeafBits"}),
    ("kwargs-reordered", False,
     ["pb = Signal[BitVector[2]](name='pb')", "pc = Signal[BitVector[2]](name='pc')", "LeafSel(a=self.x, b=self.y, en=self.en, o=self.o1, p=pb)", "LeafSel(p=pc, o=self.o2, b=self.x, en=self.v[0], a=self.y)",
      "LeafBits(o=self.ob, x=pc)"],
     ["@std.concurrent", "def l():", "    self.o1 <<= self.x if self.en else self.y", "    self.o2 <<= self.y if self.v[0] else self.x", "    self.ob <<= f_bits(self.x[2:1])"],
     {"LeafSel", "LeafBits"}),
    ("entity-inheritance", False,
     ["fb = Signal[Bit](name='fb')", "t = Signal[Unsigned[3]](name='t')", "LeafBase(a=self.x, o=t)", "LeafDerivedIn(a=t, m=self.y, o=self.o1)", "LeafDerivedOut(a=self.y, o=self.o2, f=fb)",
      "@std.concurrent", "def l():", "    self.ob <<= fb @ fb"],
     ["@std.concurrent", "def l():", "    self.o1 <<= ((self.x + 1) + 1) & self.y", "    self.o2 <<= self.y + 2", "    self.ob <<= self.y[0] @ self.y[0]"],
     {"LeafBase", "LeafDerivedIn", "LeafDerivedOut"}),
    ("expression-and-slice-actuals", False,
     ["sb = Signal[BitVector[4]](name='sb')", "su = Signal[Unsigned[4]](name='su')", "LeafBits(x=self.v[2:1], o=sb[2:1])", "LeafMix(a=su[2:0], b=self.x, o=self.o2)",
      "@std.concurrent", "def l():", "    LeafComb(a=self.x, b=self.y + 1, o=su[2:0])", "    self.o1 <<= su[2:0]", "    self.ob <<= sb[2:1]"],
     ["@std.concurrent", "def l():", "    self.o1 <<= f_comb(self.x, self.y + 1)", "    self.o2 <<= f_mix(f_comb(self.x, self.y + 1), self.x)", "    self.ob <<= f_bits(self.v[2:1])"],
     {"LeafComb", "LeafMix", "LeafBits"}),
    ("slice-of-expression-actuals", False,
     ["su = Signal[Unsigned[3]](name='su')", "@std.concurrent", "def l():", "    LeafBits(x=(self.v ^ (self.v[0] @ self.v[3:1]))[2:1], o=self.ob)",
      "    LeafComb(a=(self.x + self.y)[2:0].unsigned, b=self.y, o=su)", "    LeafMix(a=su, b=(self.x & self.y), o=self.o2)", "    self.o1 <<= su"],
     ["@std.concurrent", "def l():", "    self.ob <<= f_bits((self.v ^ (self.v[0] @ self.v[3:1]))[2:1])", "    self.o1 <<= f_comb((self.x + self.y)[2:0].unsigned, self.y)",
      "    self.o2 <<= f_mix(f_comb((self.x + self.y)[2:0].unsigned, self.y), (self.x & self.y))"],
     {"LeafComb", "LeafMix", "LeafBits"}),
    ("two-templates-with-one-name", False,
     ["SameNameA(a=self.x, o=self.o1)", "SameNameB(a=self.x, o=self.o2)", "LeafBits(x=self.v[1:0], o=self.ob)"],
     ["@std.concurrent", "def l():", "    self.o1 <<= self.x + 1", "    self.o2 <<= self.x + 2", "    self.ob <<= f_bits(self.v[1:0])"],
     None),
    # VHDL identifiers are case insensitive: Stage and STAGE are one design unit of library work
    ("two-templates-names-differ-in-case", False,
     ["CaseNameA(a=self.x, o=self.o1)", "CaseNameB(a=self.x, o=self.o2)", "LeafBits(x=self.v[1:0], o=self.ob)"],
     ["@std.concurrent", "def l():", "    self.o1 <<= self.x + 1", "    self.o2 <<= self.x + 2", "    self.ob <<= f_bits(self.v[1:0])"],
     None),
    ("port-default-and-reset", True,
     ["LeafInit(clk=self.clk, reset=self.en, o=self.o1)", "LeafInit(clk=self.clk, reset=self.v[1], o=self.o2)", "LeafBits(x=self.v[3:2], o=self.ob)"],
     ["r1 = Signal[Unsigned[3]](5, name='r1')", "r2 = Signal[Unsigned[3]](5, name='r2')",
      "@std.sequential(std.Clock(self.clk), std.Reset(self.en))", "def p1():", "    r1.next = r1 + 1",
      "@std.sequential(std.Clock(self.clk), std.Reset(self.v[1]))", "def p2():", "    r2.next = r2 + 1",
      "@std.concurrent", "def l():", "    self.o1 <<= r1", "    self.o2 <<= r2", "    self.ob <<= f_bits(self.v[3:2])"],
     {"LeafInit", "LeafBits"}),
]


U3, BV2, SL = "unsigned(2 downto 0)", "std_logic_vector(1 downto 0)", "std_logic"
LEAF_DECLARED = {
    "LeafComb": [("a", "in", U3), ("b", "in", U3), ("o", "out", U3)], "LeafMix": [("a", "in", U3), ("b", "in", U3), ("o", "out", U3)],
    "LeafBits": [("x", "in", BV2), ("o", "out", BV2)], "LeafReg": [("clk", "in", SL), ("a", "in", U3), ("o", "out", U3)],
    "LeafCnt": [("clk", "in", SL), ("en", "in", SL), ("o", "out", U3)], "LeafCoro": [("clk", "in", SL), ("go", "in", SL), ("a", "in", U3), ("o", "out", U3)],
    "Mid": [("clk", "in", SL), ("a", "in", U3), ("b", "in", U3), ("o", "out", U3)],
    "LeafBase": [("a", "in", U3), ("o", "out", U3)], "LeafDerivedIn": [("a", "in", U3), ("o", "out", U3), ("m", "in", U3)],
    "LeafDerivedOut": [("a", "in", U3), ("o", "out", U3), ("f", "out", SL)],
    "LeafSel": [("a", "in", U3), ("b", "in", U3), ("en", "in", SL), ("o", "out", U3), ("p", "out", BV2)],
    "LeafInit": [("clk", "in", SL), ("reset", "in", SL), ("o", "out", U3)],
    "DGate": [("a", "in", U3), ("o", "out", U3)], "DCell": [("a", "in", U3), ("b", "in", U3), ("o", "out", U3)],
    "DPathA": [("a", "in", U3), ("b", "in", U3), ("o", "out", U3)], "DPathB": [("a", "in", U3), ("b", "in", U3), ("o", "out", U3)],
}


def design(name, body, prelude=()):
    return "\n".join([HEADER] + list(prelude) + [f"class {name}(cohdl.Entity):"] + PORTS + ["    def architecture(self):"] + ["        " + b for b in body]) + "\n"


def interface_ok(lib, name):
    d = lib.designs[name.lower()]
    got = [(n, m, str(t)) for n, m, t in d.ports]
    return got == DECLARED, got


INPUTS = {"x": 3, "y": 3, "en": 1, "v": 4}
OUTPUTS = ["o1", "o2", "ob"]


def compare(stats, lib_h, lib_f, sequential, K, timeout_ms=120000, INPUTS=None, OUTPUTS=None):
    """-> ('ok', n) | ('diff', info) | ('unknown', why)"""
    INPUTS = globals()["INPUTS"] if INPUTS is None else INPUTS
    OUTPUTS = globals()["OUTPUTS"] if OUTPUTS is None else OUTPUTS
    sh, sf = VS.Sim(lib_h, tag="!H"), VS.Sim(lib_f, tag="!F")
    CLK0 = {"clk": 0} if any(p[0].lower() == "clk" for p in lib_h.order[-1].ports) else {}
    zero = {**CLK0, **{n: 0 for n in INPUTS}}
    syms = []
    diff = False
    if not sequential:
        ins = {n: z3.BitVec(f"I!{n}", w) for n, w in INPUTS.items()}
        syms.append(ins)
        for s in (sh, sf):
            s.elaborate({**CLK0, **ins})
        for o in OUTPUTS:
            diff = D.b_or(diff, D.b_not(D.v_eq(sh.read(o).x, sf.read(o).x, len_of(sh, o))))
    else:
        for s in (sh, sf):
            s.elaborate(zero)
        for i in range(K):
            ins = {n: z3.BitVec(f"I{i}!{n}", w) for n, w in INPUTS.items()}
            syms.append(ins)
            for s in (sh, sf):
                s.instant({"clk": 0, **ins})
                s.instant({"clk": 1})
            for o in OUTPUTS:
                diff = D.b_or(diff, D.b_not(D.v_eq(sh.read(o).x, sf.read(o).x, len_of(sh, o))))
    r, model = check_sat(stats, sh.constraints + sf.constraints + [diff], timeout_ms)
    if r == "unsat":
        return "ok", len(syms)
    if r == "unknown":
        return "unknown", "solver"
    trace = [{n: model.eval(sy[n], model_completion=True).as_long() for n in INPUTS} for sy in syms]
    inits = [{k: eval_model(model, v) for k, v in s.init_syms.items()} for s in (sh, sf)]
    # concrete replay of both designs
    outs = []
    for lib, init in ((lib_h, inits[0]), (lib_f, inits[1])):
        s = VS.Sim(lib, uninit="zero")
        _install_init(s, init)
        log = []
        if not sequential:
            s.elaborate({**CLK0, **trace[0]})
            log.append({o: s.read(o).x for o in OUTPUTS})
        else:
            s.elaborate(zero)
            for step in trace:
                s.instant({"clk": 0, **step})
                s.instant({"clk": 1})
                log.append({o: s.read(o).x for o in OUTPUTS})
        outs.append(log)
    if outs[0] == outs[1]:
        return "unknown", "counterexample does not reproduce concretely"
    first = next(i for i, (a, b) in enumerate(zip(*outs)) if a != b)
    return "diff", {"clock": first, "trace": trace[:first + 1], "hierarchical": outs[0][first], "inlined": outs[1][first]}


# ---------------------------------------------------------------- connection matrix
CONN_HEADER = "from __future__ import annotations\nimport cohdl\nfrom cohdl import Bit, BitVector, Unsigned, Signed, Port, Signal, std\n\n"


def _tsrc(kind, w):
    return "Bit" if kind == "Bit" else f"{kind}[{w}]"


def conn_types(widths):
    ts = [("Bit", 1)]
    for w in widths:
        ts += [("BitVector", w), ("Unsigned", w), ("Signed", w)]
    return ts


def conn_design(ts, tt, direction, hier):
    """src : ts  --->  dst : tt ; through a pass-through leaf whose ports have the type of the far side
    in : Leaf[tt](a=src (actual ts -> formal tt), o=dst)      out: Leaf[ts](a=src, o=dst (formal ts -> actual tt))"""
    lt = tt if direction == "in" else ts
    lines = [CONN_HEADER, "class Pass(cohdl.Entity):", f"    a = Port.input({_tsrc(*lt)})", f"    o = Port.output({_tsrc(*lt)})", "    def architecture(self):",
             "        @std.concurrent", "        def logic():", "            self.o <<= self.a", "",
             "class Top(cohdl.Entity):", f"    src = Port.input({_tsrc(*ts)})", f"    dst = Port.output({_tsrc(*tt)})", "    def architecture(self):"]
    if hier:
        lines += ["        Pass(a=self.src, o=self.dst)"]
    else:
        lines += ["        @std.concurrent", "        def logic():", "            self.dst <<= self.src"]
    return "\n".join(lines) + "\n"


def run_connections(rep, wd, widths, counts):
    for ts in conn_types(widths):
        for tt in conn_types(widths):
            tf, ef = compile_design(wd, conn_design(ts, tt, "in", False), "Top", "c12cf")
            rep.stats.programs += 1
            lib_f = None
            if tf is not None:
                try:
                    lib_f = VS.Library(tf)
                    VS.Sim(lib_f)
                except Illegal:
                    lib_f = None  # the plain assignment itself is C05's subject
            for direction in ("in", "out"):
                key = f"connect-{direction}|{_tsrc(*ts)}->{_tsrc(*tt)}"
                src = conn_design(ts, tt, direction, True)
                th, eh = compile_design(wd, src, "Top", "c12ch")
                rep.stats.programs += 1
                if th is None:
                    counts["conn-rejected"] = counts.get("conn-rejected", 0) + 1
                    continue
                if tf is None:
                    rep.violation(f"conn-accepted|{direction}|{ts[0]}->{tt[0]}|{'w=' if ts[1] == tt[1] else ('w<' if ts[1] < tt[1] else 'w>')}",
                                  f"{key}: port connection accepted although the plain assignment dst <<= src between these types is a compile-time error ({str(ef)[:120]})", {"source": src, "vhdl": th})
                    continue
                try:
                    lib_h = VS.Library(th)
                    for d in lib_h.order:
                        VS.Sim(lib_h, top=d.name)
                except Illegal as e:
                    rep.violation(f"conn-illegal|{direction}|{ts[0]}->{tt[0]}|{e.rule}", f"{key}: emitted VHDL illegal: {e}", {"source": src, "vhdl": th})
                    continue
                if lib_f is None:
                    continue
                status, info = compare(rep.stats, lib_h, lib_f, False, 1, INPUTS={"src": ts[1]}, OUTPUTS=["dst"])
                if status == "ok":
                    counts["conn-ok"] = counts.get("conn-ok", 0) + 1
                    rep.stats.nontrivial.add(key)
                elif status == "diff":
                    rep.violation(f"conn-value|{direction}|{ts[0]}->{tt[0]}", f"{key}: connected value differs from the assigned one: {info['hierarchical']} vs {info['inlined']} for {info['trace'][-1]}", {"source": src, "vhdl": th, **info})
                else:
                    rep.inconclusive_query(f"{key}: {info}")


def len_of(sim, name):
    t = sim.sig_t[name]
    return 1 if isinstance(t, TStd) else t.width


def run(tier: str) -> int:
    rep = Reporter("C12", tier, "translation_validation")
    wd = Workdir()
    counts = {}
    K = 6 if tier == "quick" else 16
    try:
        items = [(key, seq, hier, flat, templates, (), LEAF_DECLARED) for key, seq, hier, flat, templates in TREES]
        for seed in range(60 if tier == "quick" else 600):
            g = gen_trees.gen_tree(seed)
            items.append((g["key"], g["sequential"], g["hier"], g["flat"], set(g["templates"]), g["prelude"], {**LEAF_DECLARED, **{k: v for k, v in g["templates"].items() if v}}))
        for key, seq, hier, flat, templates, prelude, leaf_declared in items:
            th, eh = compile_design(wd, design("Top", hier, prelude), "Top", "c12h")
            tf, ef = compile_design(wd, design("Top", flat, prelude), "Top", "c12f")
            rep.stats.programs += 2
            if th is None and templates is None:
                counts["rejected"] = counts.get("rejected", 0) + 1  # a design cohdl may refuse (two templates of one name)
                continue
            if th is None or tf is None:
                which = "hierarchical" if th is None else "inlined"
                rep.violation(f"rejected|{key}|{which}", f"{key}: {which} design rejected: {eh or ef}", {"hier": design('Top', hier, prelude), "flat": design('Top', flat, prelude)})
                continue
            try:
                lib_h, lib_f = VS.Library(th), VS.Library(tf)
                for lib in (lib_h, lib_f):
                    for d in lib.order:
                        VS.Sim(lib, top=d.name)
            except Illegal as e:
                rep.violation(f"illegal|{key}|{e.rule}", f"{key}: emitted VHDL illegal: {e}", {"vhdl_hier": th, "vhdl_flat": tf})
                continue
            # interface / unit structure (deterministic reading of the elaborated text)
            ok, got = interface_ok(lib_h, "Top")
            if not ok:
                rep.violation(f"interface|{key}", f"{key}: emitted interface differs from the declared ports: {got}", {"vhdl": th})
            for d in lib_h.order:
                want = leaf_declared.get(d.name)
                got_l = [(n, m, str(t)) for n, m, t in d.ports]
                if want is not None and sorted(got_l) != sorted(want):
                    rep.violation(f"interface|{key}|{d.name}", f"{key}: unit {d.name} is emitted with ports {got_l}, declared {want}", {"vhdl": th})
            # every design unit is emitted after all units it instantiates
            pos = {d.name.lower(): k for k, d in enumerate(lib_h.order)}
            for d in lib_h.order:
                for inst in d.insts:
                    if pos.get(inst.entity.lower(), -1) >= pos[d.name.lower()]:
                        rep.violation(f"unit-order|{key}", f"{key}: unit {d.name} is emitted before {inst.entity}, which it instantiates (order {[x.name for x in lib_h.order]})", {"vhdl": th})
            units = [d.name for d in lib_h.order]
            if len(units) != len(set(u.lower() for u in units)) or (templates is not None and set(units) - {"Top"} != templates) or units[-1] != "Top":
                rep.violation(f"units|{key}", f"{key}: emitted units {units}, expected one unit per template {sorted(templates)} followed by Top", {"vhdl": th})
            status, info = compare(rep.stats, lib_h, lib_f, seq, K)
            counts[status] = counts.get(status, 0) + 1
            if status == "ok":
                rep.stats.nontrivial.add(key)
                rep.stats.hashes.add(text_hash(th))
                rep.stats.sample({"tree": key, "units": units, "verdict": f"unsat: outputs of hierarchical and inlined design equal for all inputs ({'K=%d clocks' % K if seq else 'combinational'})"}, limit=3)
            elif status == "diff":
                rep.violation(f"behaviour|{key}", f"{key}: hierarchical design differs from the inlined one at clock {info['clock']}: {info['hierarchical']} vs {info['inlined']} for inputs {info['trace'][-1]}", {"vhdl_hier": th, "vhdl_flat": tf, **info})
            else:
                rep.inconclusive_query(f"{key}: {info}")
        # every formal is wired to a DRIVEN actual: an expression written as port actual of an instance that is created directly in the
        # architecture (outside every context) is evaluated by plain Python and never assigned -- such a design must be refused
        for key, body in (("arch-level-expression-actual", ["LeafComb(a=self.x + 1, b=self.y, o=self.o1)", "LeafMix(a=self.y, b=self.x, o=self.o2)", "LeafBits(x=self.v[1:0], o=self.ob)"]),
                          ("arch-level-slice-of-expression-actual", ["LeafComb(a=self.x, b=self.y, o=self.o1)", "LeafMix(a=self.y, b=self.x, o=self.o2)", "LeafBits(x=(self.v ^ '1111')[1:0], o=self.ob)"])):
            th, eh = compile_design(wd, design("Top", body), "Top", "c12u")
            rep.stats.programs += 1
            if th is None:
                counts["undriven-actual-rejected"] = counts.get("undriven-actual-rejected", 0) + 1
            else:
                rep.violation(f"undriven-actual|{key}", f"{key}: accepted, the instance input is bound to a temporary that no statement assigns", {"source": design("Top", body), "vhdl": th})
        run_connections(rep, wd, [2, 3] if tier == "quick" else [1, 2, 3, 4, 5, 8], counts)
        rep.stats.units |= {"cohdl._core._context.Entity.__init__", "frontend ConvertPythonInstance.apply (templates)", "backend EntityInst (port map), Library.from_top_entity (unit order)", "_vhdl_assembler (ir.Entity / EntityTemplate)"}
        rep.assumptions += ["bounded for clocked trees: K=%d clocks from power-up, all registers have declared defaults; combinational trees: all inputs" % K,
                            "connection matrix: every ordered pair of Bit/BitVector/Unsigned/Signed (listed widths) bound through an input and through an output port of a pass-through leaf: rejected, or legal text equal to the plain assignment dst <<= src for all values; accepted although the assignment is rejected = violation",
                            "hand-written trees: depth <= 3, fan-out <= 3, repeated templates, slice and typed-view actuals, instances inside a concurrent context / nested blocks, combinational / registered / counter / coroutine leaves",
                            "generated trees (vfw/gen_trees.py, seeds 0..%d): 2-5 templates (combinational / registered leaves, composites of 1-3 earlier templates), depth <= 5, instances placed plainly / in nested blocks / inside concurrent contexts with expression actuals, outputs bound to slices of wider signals, keyword order reversed; flat design = every instance path inlined" % ((60 if tier == "quick" else 600) - 1),
                            "the inlined design calls the same Python leaf functions; its own correctness is the subject of C01-C03"]
        return rep.finish({
            "programs": rep.stats.programs, "trees": len(items), "hand_written_trees": len(TREES), "generated_trees": len(items) - len(TREES), "results": counts,
            "disagreements_checked": len(rep.violations), "distinct_nontrivial": len(rep.stats.nontrivial), "evaluations": len(items),
            "samples": rep.stats.samples or [{"tree": TREES[0][0]}],
        })
    finally:
        wd.close()
