"""Generated instantiation trees for C12: random entity templates G0..Gk (combinational leaves, registered leaves,
composites that instantiate earlier templates) and a Top that instantiates some of them, together with the flat
design obtained by inlining every instance path (same leaf expressions, one context per leaf instance).

Everything is plain source text for the real compiler; equivalence of the two emitted designs is decided in c12.compare.

Top ports (fixed, see c12.PORTS): clk, x, y: Unsigned[3], en, v: BitVector[4]  ->  o1, o2: Unsigned[3], ob: BitVector[2]
Generated template ports: [clk,] a, b: Unsigned[3] -> o: Unsigned[3] (registered leaves: default=Null)"""
from __future__ import annotations
import random

LEAF_EXPRS = [
    "{a} + {b}", "{a} - {b}", "({a} ^ {b}) + 1", "({a} & {b}) | ({a} >> 1)", "{b} - {a} - 1", "~{a} ^ {b}", "({a} + 1) & ({b} + 3)", "{a} if {a} > {b} else {b}",
    "({a} << 1) ^ {b}", "{a} + {a} + {b}",
]

U3, SL = "unsigned(2 downto 0)", "std_logic"


class Template:
    def __init__(self, name):
        self.name = name
        self.kind = None      # comb | reg | comp
        self.expr = None
        self.children = []    # comp: list of dict(t=Template, a=src, b=src, where=plain|block|ctx, expr_b=bool, slice_out=bool, swap=bool)
        self.clocked = False

    def declared(self):
        return ([("clk", "in", SL)] if self.clocked else []) + [("a", "in", U3), ("b", "in", U3), ("o", "out", U3)]


def _expr(e, a, b):
    return e.format(a=a, b=b)


def _inst_line(t, a, b, o, swap):
    args = [f"a={a}", f"b={b}", f"o={o}"]
    if t.clocked:
        args.insert(0, "clk=self.clk")
    if swap:
        args = args[::-1]
    return f"{t.name}({', '.join(args)})"


def _wrap(lines, where, tag):
    if where == "block":
        return ["with blk():"] + ["    " + l for l in lines]
    if where == "block2":
        return ["with blk():", "    with blk():"] + ["        " + l for l in lines]
    if where == "ctx":
        return ["@std.concurrent", f"def ctx_{tag}():"] + ["    " + l for l in lines]
    return lines


def gen_tree(seed):
    """-> dict(key, sequential, prelude (template classes), hier (Top body), flat (Top body), templates {name: declared ports})"""
    rng = random.Random(seed)
    nt = rng.randint(2, 5)
    ts = []
    for i in range(nt):
        t = Template(f"G{i}")
        if i == 0 or rng.random() < 0.35:
            t.kind = rng.choice(["comb", "comb", "reg"])
            t.expr = rng.choice(LEAF_EXPRS)
            t.clocked = t.kind == "reg"
        else:
            t.kind = "comp"
            n = rng.randint(1, 3)
            pool = ["self.a", "self.b"]
            for k in range(n):
                c = {"t": rng.choice(ts[-3:]), "a": rng.choice(pool), "b": rng.choice(pool), "where": rng.choice(["plain", "plain", "block", "block2", "ctx"]),
                     "expr_b": False, "slice_out": False, "swap": rng.random() < 0.3}
                if c["where"] == "ctx" and rng.random() < 0.6:
                    c["expr_b"] = True      # expression actual: only for instances created inside a context
                if k < n - 1 and rng.random() < 0.3:
                    c["slice_out"] = True   # output bound to a slice of a wider internal signal
                t.children.append(c)
                pool.append(f"@{k}")         # output of child k
            t.clocked = any(c["t"].clocked for c in t.children)
        ts.append(t)
    # Top: two instances driving o1 and o2 (+ optionally one more feeding them)
    top_pool = ["self.x", "self.y", "self.v[2:0].unsigned", "self.v[3:1].unsigned"]
    top = Template("Top")
    top.kind = "comp"
    n = rng.randint(2, 3)
    for k in range(n):
        c = {"t": rng.choice(ts[-2:] if k >= n - 2 else ts), "a": rng.choice(top_pool), "b": rng.choice(top_pool), "where": rng.choice(["plain", "plain", "block", "ctx"]),
             "expr_b": False, "slice_out": False, "swap": rng.random() < 0.3}
        if c["where"] == "ctx" and rng.random() < 0.6:
            c["expr_b"] = True
        if k < n - 2 and rng.random() < 0.4:
            c["slice_out"] = True
        top.children.append(c)
        if k < n - 2:
            top_pool.append(f"@{k}")
    top.clocked = any(c["t"].clocked for c in top.children)

    # ---- hierarchical source
    def comp_body(t, out_targets):
        """lines of a composite architecture; out_targets: {child index: target expression} for children bound to ports"""
        lines = []
        names = {}
        for k, c in enumerate(t.children):
            if k in out_targets:
                names[k] = (out_targets[k], out_targets[k])
            elif c["slice_out"]:
                lines.append(f"w{k} = Signal[Unsigned[4]](name='w{k}')")
                names[k] = (f"w{k}[2:0]", f"w{k}[2:0].unsigned")
            else:
                lines.append(f"n{k} = Signal[Unsigned[3]](name='n{k}')")
                names[k] = (f"n{k}", f"n{k}")
        for k, c in enumerate(t.children):
            a = names[int(c["a"][1:])][1] if c["a"].startswith("@") else c["a"]
            b = names[int(c["b"][1:])][1] if c["b"].startswith("@") else c["b"]
            if c["expr_b"]:
                b = f"{b} + 1"
            lines += _wrap([_inst_line(c["t"], a, b, names[k][0], c["swap"])], c["where"], f"{t.name}_{k}")
        return lines

    prelude = []
    for t in ts:
        prelude += [f"class {t.name}(cohdl.Entity):"] + (["    clk = Port.input(Bit)"] if t.clocked else []) + ["    a = Port.input(Unsigned[3])", "    b = Port.input(Unsigned[3])",
                    "    o = Port.output(Unsigned[3]%s)" % (", default=Null" if t.kind == "reg" else ""), "", "    def architecture(self):"]
        if t.kind == "comb":
            prelude += ["        @std.concurrent", "        def logic():", "            self.o <<= " + _expr(t.expr, "self.a", "self.b")]
        elif t.kind == "reg":
            prelude += ["        @std.sequential(std.Clock(self.clk))", "        def proc():", "            self.o <<= " + _expr(t.expr, "self.a", "self.b")]
        else:
            prelude += ["        " + l for l in comp_body(t, {len(t.children) - 1: "self.o"})]
        prelude += ["", ""]
    ntop = len(top.children)
    hier = comp_body(top, {ntop - 2: "self.o1", ntop - 1: "self.o2"}) + ["LeafBits(x=self.v[1:0], o=self.ob)"]

    # ---- flat source: every instance path inlined into Top
    flat_decl, flat_ctx = [], []
    counter = [0]

    def flatten(t, path, a, b, target):
        if t.kind == "comb":
            flat_ctx.extend(["@std.concurrent", f"def c_{path}():", f"    {target}.next = " + _expr(t.expr, f"({a})", f"({b})")])
        elif t.kind == "reg":
            flat_decl.append(f"r_{path} = Signal[Unsigned[3]](Null, name='r_{path}')")
            flat_ctx.extend(["@std.sequential(std.Clock(self.clk))", f"def p_{path}():", f"    r_{path}.next = " + _expr(t.expr, f"({a})", f"({b})"),
                             "@std.concurrent", f"def c_{path}():", f"    {target}.next = r_{path}"])
        else:
            names = {}
            for k, c in enumerate(t.children):
                if k == len(t.children) - 1:
                    names[k] = target
                else:
                    if c["slice_out"]:
                        flat_decl.append(f"w_{path}_{k} = Signal[Unsigned[4]](name='w_{path}_{k}')")
                        names[k] = f"w_{path}_{k}[2:0].unsigned"
                    else:
                        flat_decl.append(f"n_{path}_{k} = Signal[Unsigned[3]](name='n_{path}_{k}')")
                        names[k] = f"n_{path}_{k}"
            for k, c in enumerate(t.children):
                ca = names[int(c["a"][1:])] if c["a"].startswith("@") else {"self.a": a, "self.b": b}[c["a"]]
                cb = names[int(c["b"][1:])] if c["b"].startswith("@") else {"self.a": a, "self.b": b}[c["b"]]
                if c["expr_b"]:
                    cb = f"({cb}) + 1"
                flatten(c["t"], f"{path}_{k}", ca, cb, names[k])

    names = {}
    for k, c in enumerate(top.children):
        if k == ntop - 2:
            names[k] = "self.o1"
        elif k == ntop - 1:
            names[k] = "self.o2"
        elif c["slice_out"]:
            flat_decl.append(f"w_t_{k} = Signal[Unsigned[4]](name='w_t_{k}')")
            names[k] = f"w_t_{k}[2:0].unsigned"
        else:
            flat_decl.append(f"n_t_{k} = Signal[Unsigned[3]](name='n_t_{k}')")
            names[k] = f"n_t_{k}"
    for k, c in enumerate(top.children):
        ca = names[int(c["a"][1:])] if c["a"].startswith("@") else c["a"]
        cb = names[int(c["b"][1:])] if c["b"].startswith("@") else c["b"]
        if c["expr_b"]:
            cb = f"({cb}) + 1"
        flatten(c["t"], f"t_{k}", ca, cb, names[k])
    flat = flat_decl + flat_ctx + ["@std.concurrent", "def c_bits():", "    self.ob <<= f_bits(self.v[1:0])"]

    # templates reachable from Top
    used = {}

    def reach(t):
        if t.name in used:
            return
        used[t.name] = t.declared()
        for c in t.children:
            reach(c["t"])
    for c in top.children:
        reach(c["t"])
    depth = {}

    def dep(t):
        if t.name not in depth:
            depth[t.name] = 1 + max([dep(c["t"]) for c in t.children], default=0)
        return depth[t.name]
    shape = f"d{dep(top) - 1}-t{len(used)}" + ("-clk" if top.clocked else "")
    return {"key": f"gen{seed}-{shape}", "sequential": top.clocked, "prelude": prelude, "hier": hier, "flat": flat, "templates": {**used, "LeafBits": None}}
