#!/bin/bash
# usage: seed_try.sh <worktree> <n> <seed-id> <prop> [more checks...]
# confirms a seeded change in its scratch worktree (demo passes without / fails with, baseline tests pass),
# stores it under /verif/seeded/<seed-id>/, then applies it to /repo, runs the checks, and reverts.
WT=$1; N=$2; SID=$3; shift 3
D=$WT/seed_out/$N
cd $WT && git checkout -q -- . 
PYTHONPATH=$WT /venv/bin/python $D/demo.py >/dev/null 2>&1; A=$?
git apply $D/patch.diff || { echo "PATCH DOES NOT APPLY"; exit 3; }
PYTHONPATH=$WT /venv/bin/python $D/demo.py >/dev/null 2>&1; B=$?
T=$(PYTHONPATH=$WT /venv/bin/python -m pytest -q -p no:cacheprovider --timeout=900 --continue-on-collection-errors 2>&1 | tail -1)
git checkout -q -- .
echo "demo clean=$A patched=$B tests: $T"
mkdir -p /verif/seeded/$SID && cp $D/patch.diff $D/demo.py $D/note.txt /verif/seeded/$SID/ 2>/dev/null
cd /repo && git apply $D/patch.diff || { echo "PATCH DOES NOT APPLY TO /repo"; exit 3; }
cd /verif
RES=""
for id in "$@"; do
  OUT=$(bin/check $id 2>&1); RC=$?
  NV=$(echo "$OUT" | grep -c "^VIOLATION")
  FIRST=$(echo "$OUT" | grep -A1 "^VIOLATION" | sed -n 2p | cut -c1-220)
  echo "  $id: exit=$RC violations=$NV $FIRST"
  RES="$RES $id:exit$RC:viol$NV"
done
git -C /repo checkout -q -- .
echo "{\"demo_clean_exit\": $A, \"demo_patched_exit\": $B, \"tests\": \"$T\", \"checks\": \"$RES\"}" > /verif/seeded/$SID/run.json
